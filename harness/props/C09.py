"""C09 -- celestial coordinate conversions are invertible isometries with correct poles
(DESIGN.md section 7, C09).

Two kinds of evaluation, both on outputs of the REAL esutil.coords of the build under test:
  (Q) `differential` entries whose verdict terms are evaluated by vm_compute on exact rationals:
      shiftlon/shiftra (exact-rational model + property checker), output ranges / finiteness /
      unit length / scalar-vs-array forms of every conversion, range rejection of eq2sdss/sdss2eq;
  (R) per-case certificates: Coq lemmas about the exact binary64 inputs and outputs, closed by
      `interval`: the output is where the real-number model puts it (tie), the inverse brings the
      point back, separations are kept, the J2000 rows agree with the documented constants,
      chained conversions agree with the direct one -- tolerances of the statement, on the sky.
"""
import json
import math
import os
import subprocess
import sys
import time
import warnings

from .. import core
from ..core import cR, cQ, cbool
from ..runner import Entry, differential, corpus_cases
from ..translate import c09_consts

PRE_Q = ("From Coq Require Import Reals QArith ZArith List.\nFrom EsVerif.Common Require Import Base.\n"
         "From EsVerif.C09 Require Import Gen Model Spec Exec.\nImport ListNotations.\nOpen Scope Q_scope.\n")
PRE_R = ("From Coq Require Import Reals.\nFrom Interval Require Import Tactic.\n"
         "From EsVerif.C09 Require Import Gen Model Spec Exec.\nOpen Scope R_scope.\n")

WRAPPER = {1: "eq2gal", 2: "gal2eq", 3: "eq2ec", 4: "ec2eq", 5: "ec2gal", 6: "gal2ec"}
INV = {1: 2, 2: 1, 3: 4, 4: 3, 5: 6, 6: 5}
TOL_SHIFT = 1e-9       # degrees; the tightest tolerance named in the statement, used only where binary64 sums round
FORM_TOL = 1e-9        # degrees: agreement between container forms of the same call (tightest tolerance of the statement)
FORM_TOL_RAD = 1.7e-11  # the same in radians / for unit-vector components


def _coords():
    import esutil.coords as co
    return co


def _f(v):
    """first element of whatever the implementation returned, as python float"""
    import numpy as np
    return float(np.asarray(v, dtype="f8").ravel()[0])


def _fin(x):
    return isinstance(x, float) and math.isfinite(x)


def oq(x):
    return "(Some %s)" % cQ(x) if (x is not None and math.isfinite(x)) else "None"


def oqpair(p):
    return "(%s, %s)" % (oq(p[0]), oq(p[1]))


def oqtriple(p):
    return "(%s, %s, %s)" % (oq(p[0]), oq(p[1]), oq(p[2]))


def jf(x):
    """json-able float (nan/inf -> None)"""
    x = float(x)
    return x if math.isfinite(x) else None


def quiet(f, *a, **k):
    with warnings.catch_warnings():
        warnings.simplefilter("ignore")
        return f(*a, **k)


# ----------------------------------------------------------------------------------------------
# point generators (degrees)
# ----------------------------------------------------------------------------------------------

def sphere_pt(r):
    z = r.uniform(-1.0, 1.0)
    return r.uniform(0.0, 360.0), math.degrees(math.asin(z))


def small(r):
    return r.choice([1e-2, 1e-3, 2e-3, 1e-4, 1e-5, 1e-6, 1e-8, 1e-10]) * r.choice([-1.0, 1.0])


def clamp_pt(a, d):
    d = max(-90.0, min(90.0, d))
    a = a % 360.0
    return a, d


def euler_points(r, sel, b1950, n_uniform):
    """families of the quantifier for one conversion: uniform, poles of the source system (lat = +-90),
    poles of the target system (pre-images of lat = +-90 under the real inverse conversion) and points
    within 1e-10..1e-2 degree of them, lon in {0, 360}"""
    co = _coords()
    pts = []
    for _ in range(n_uniform):
        pts.append((sphere_pt(r), "uniform"))
    sgn = r.choice([-1.0, 1.0])
    pts.append(((r.uniform(0, 360), 90.0 * sgn), "source-pole"))
    pts.append(((r.uniform(0, 360), sgn * (90.0 - abs(small(r)))), "near-source-pole"))
    for s in (1.0, -1.0):
        ta, td = quiet(co.euler, 0.0, 90.0 * s, INV[sel], b1950=b1950)
        ta, td = _f(ta), _f(td)
        if _fin(ta) and _fin(td):
            pts.append(((ta, td), "target-pole"))
            pts.append((clamp_pt(ta + small(r), td + small(r)), "near-target-pole"))
    pts.append(((r.choice([0.0, 360.0]), r.uniform(-90, 90)), "lon-0-360"))
    # exact special values of both coordinates (where a shortcut for "on the equator" / "on the meridian" would sit)
    pts.append(((r.choice([0.0, 90.0, 180.0, 270.0, 360.0]), r.choice([0.0, -0.0, 45.0, -45.0, 90.0, -90.0])), "exact-grid"))
    pts.append(((r.uniform(0, 360), 0.0), "exact-grid"))
    return pts


# ----------------------------------------------------------------------------------------------
# container forms handed to the implementation (every form denotes exactly the listed binary64 values)
# ----------------------------------------------------------------------------------------------

ARRAY_FORMS = ("f8", "list", "tuple", "len1", "0d", "u1", "i2", "u2", "i4", "i8", "f4", ">f8", "strided", "reversed", "readonly", "long")
INT_FORMS = ("u1", "i2", "u2", "i4", "i8")
UNSIGNED = ("u1", "u2")


def as_form(vals, form):
    """list of python floats -> the object handed to the implementation"""
    import numpy as np
    vals = [float(v) for v in vals]
    if form in (None, "f8", "len1", "long"):
        x = np.array(vals, dtype="f8")
    elif form == "list":
        return list(vals)
    elif form == "tuple":
        return tuple(vals)
    elif form == "0d":
        x = np.array(vals[0], dtype="f8")
    elif form in INT_FORMS or form in ("f4", ">f8"):
        x = np.array(vals, dtype=form)
    elif form == "strided":
        big = np.full(2 * len(vals) + 1, 12.25, dtype="f8")
        big[::2][:len(vals)] = vals
        x = big[::2][:len(vals)]
    elif form == "reversed":
        x = np.array(vals[::-1], dtype="f8")[::-1]
    elif form == "readonly":
        x = np.array(vals, dtype="f8")
        x.flags.writeable = False
    else:
        raise AssertionError("unknown form %r" % form)
    if not np.array_equal(np.asarray(x, dtype="f8").ravel(), np.array(vals if form != "0d" else vals[:1], dtype="f8")):
        raise AssertionError("harness: values are not representable in form %r" % form)
    return x


def snapshot(x):
    import numpy as np
    return np.array(x, copy=True) if isinstance(x, np.ndarray) else (list(x) if isinstance(x, (list, tuple)) else x)


def unchanged(x, snap):
    import numpy as np
    if isinstance(x, np.ndarray):
        return x.dtype == snap.dtype and np.array_equal(x, snap)
    return (list(x) if isinstance(x, (list, tuple)) else x) == snap


def pts_for_form(r, form, n, lo2=-90.0, hi2=90.0, lo1=0.0, hi1=360.0):
    """n points (first coordinate in [lo1,hi1], second in [lo2,hi2]) whose values are representable in the form"""
    import numpy as np
    out = []
    for _ in range(n):
        if form in INT_FORMS:
            top = 255 if form == "u1" else 10 ** 6
            a = float(r.randrange(int(math.ceil(max(lo1, 0.0) if form in UNSIGNED else lo1)), min(int(hi1), top) + 1))
            d = float(r.randrange(int(math.ceil(max(lo2, 0.0) if form in UNSIGNED else lo2)), min(int(hi2), top) + 1))
        elif form == "f4":
            a = float(np.float32(r.uniform(lo1, hi1)))
            d = float(np.float32(r.uniform(lo2, hi2)))
            a, d = min(max(a, lo1), hi1), min(max(d, lo2), hi2)
        else:
            a, d = r.uniform(lo1, hi1), r.uniform(lo2, hi2)
        out.append((a, d))
    return out


# ----------------------------------------------------------------------------------------------
# (Q) entries
# ----------------------------------------------------------------------------------------------

def shift_exact(lon, shift):
    """all binary64 operations of shiftlon are exact for these inputs (multiples of 2^-20 below 2^20)"""
    def okv(x):
        x = float(x)
        return abs(x) < 2.0 ** 20 and (x * 2.0 ** 20) == math.floor(x * 2.0 ** 20)
    return okv(lon) and (shift is None or okv(shift))


class Shift(Entry):
    name = "shiftlon"

    def cases(self, ctx, round=0):
        r = ctx.rng
        cs = []

        def add(lons, shift, wrap, fam, fn=None, form=None, **kw):
            cs.append(dict({"fn": fn or r.choice(["shiftlon", "shiftra"]), "lons": lons, "shift": shift, "wrap": wrap,
                            "form": form or ("scalar" if len(lons) == 1 and r.random() < 0.5 else "array"), "family": fam}, **kw))
        if round == 0:
            # shift = 0 in every spelling is a shift: the result stays in [0,360) and is not wrapped to [-180,180]
            for sh in (0, 0.0, -0.0):
                for wrap in (True, False):
                    add([181.0], sh, wrap, "zero-shift", form="scalar")
                    add([0.0, 10.0, 179.0, 180.0, 181.0, 270.0, 359.5], sh, wrap, "zero-shift", form="array")
            for sh in (90, -90, 180.0, -180.0, 360, -360.0, 720.0, 270.0, -270):
                add([0.0, 90.0, 180.0, 270.0, 359.5, 45.25], sh, r.random() < 0.5, "special-shift", form="array")
            for lon in (0.0, 90.0, 180.0, 270.0, 45.25):
                add([lon], lon, True, "special-shift:shift=lon", form="scalar")
                add([lon], -(360.0 - lon), False, "special-shift:shift=lon-360", form="scalar")
            add([200.0, 359.0], 0.0, True, "zero-shift", form="array", shift_type="np.float64")
            add([200.0, 359.0], 0, True, "zero-shift", form="array", shift_type="np.int64")
            add([200.0, 359.0], 0.0, True, "zero-shift", form="array", shift_type="0d")
            add([], 10.0, True, "forms", form="array")
            add([], None, True, "forms", form="array")
            # container forms and dtypes of the longitudes, types of the shift, keywords omitted / given as their defaults
            for form in ("list", "tuple", "0d", "u1", "i2", "i4", "i8", "u2", "f4", ">f8", "strided", "reversed", "readonly", "int-scalar", "np-scalar"):
                for sh in (r.choice([-10, 10, 350, -350, 725]), None):
                    if form in INT_FORMS or form == "int-scalar":
                        lons = [float(r.randrange(0, 256 if form == "u1" else 360)) for _ in range(4)] + [250.0, 10.0, 0.0]
                        if sh is not None and form == "u1":
                            sh = r.choice([-10, 10, 250, -110])
                    elif form == "f4":
                        lons = [float(__import__("numpy").float32(r.uniform(0, 359))) for _ in range(4)] + [350.0, 10.0]
                    else:
                        lons = [r.uniform(0, 359.9) for _ in range(4)] + [350.0, 10.0, 190.0]
                    if form in ("0d", "int-scalar", "np-scalar"):
                        lons = [r.choice(lons)]
                    add(lons, sh, r.random() < 0.7, "forms", form=form, shift_type=r.choice(["py", "np.float64", "np.int64", "0d"]),
                        kw=r.choice(["omit", "explicit"]), wrap_form=r.choice(FLAG_FORMS))
            # long arrays (beyond any plausible block size): a few distinct longitudes tiled
            for n in ([4097] if ctx.quick() else [4097, 65537, 100001]):
                add([r.randrange(0, 360 * 64) / 64.0 for _ in range(9)] + [350.0, 10.0, 190.0], r.choice([-10.0, 10.0, 350.0]), True,
                    "long-array", form="long", n=n)
                add([r.randrange(0, 360 * 64) / 64.0 for _ in range(9)] + [350.0, 10.0, 190.0], None, True, "long-array", form="long", n=n)
            # boundaries: results landing exactly on 0 / 360 / 180, shifts that are multiples of 360
            for lon, sh in [(350.0, -10.0), (350, -10), (10.0, 10.0), (0.0, 360.0), (0.0, -360.0), (0.0, 0.0), (359.5, -0.5),
                            (180.0, 180.0), (180.0, -180.0), (0.0, -720.0), (1.0, 721.0), (270.0, -90.0), (90.0, -270.0),
                            (359.99999999999994, -5.684341886080802e-14), (0.25, 0.25), (0.25, 360.25)]:
                for wrap in (True, False):
                    add([lon], sh, wrap, "boundary")
            # tiny shifts: lon - shift is a tiny negative / a value just below 360
            for sh in (1e-20, 1e-300, 5e-324, 2.0 ** -60, 1e-14, -1e-20, -1e-14, 360.0 + 1e-13, 720.0 - 1e-13):
                add([0.0], sh, True, "tiny-shift")
                add([0.0, 1e-20, 359.99999999999994], sh, True, "tiny-shift", form="array")
            for lon in (0.0, 1e-300, 180.0, 180.00000000000003, 179.99999999999997, 359.99999999999994, 90.0, 270.0):
                add([lon], None, True, "wrap")
                add([lon], None, False, "nowrap")
            add([0.0, 90.0, 180.0, 270.0, 359.75], None, True, "wrap", form="array")
        n = ctx.n(120, 1500) if round == 0 else 60
        for _ in range(n):
            k = r.choice(["exact", "exact", "float", "float", "big", "none"])
            nl = r.choice([1, 1, 2, 5])
            if k == "exact":
                lons = [r.randrange(0, 360 * 1024) / 1024.0 for _ in range(nl)]
                sh = r.randrange(-2000 * 1024, 2000 * 1024) / 1024.0
                if r.random() < 0.3:
                    sh = float(r.choice([-1, 1]) * (r.choice(lons) + 360 * r.randrange(0, 3)))   # lands on a boundary
                    sh = r.choice([sh, -(360.0 - abs(sh) % 360.0)])
                add(lons, sh, r.random() < 0.5, "random-exact")
            elif k == "float":
                lons = [r.uniform(0.0, 360.0) for _ in range(nl)]
                lons = [x for x in lons if x < 360.0]
                add(lons or [1.5], r.uniform(-800.0, 800.0), r.random() < 0.5, "random-float")
            elif k == "big":
                lons = [r.uniform(0.0, 359.999) for _ in range(nl)]
                add(lons, r.choice([-1.0, 1.0]) * 10.0 ** r.uniform(3, 18), True, "random-big-shift")
            else:
                lons = [r.uniform(0.0, 359.999) for _ in range(nl)]
                add(lons, None, r.random() < 0.7, "random-wrap")
        return cs

    def impl(self, c):
        import numpy as np
        co = _coords()
        fn = getattr(co, c["fn"])

        def f():
            form = c["form"]
            lons = c["lons"]
            order = None
            if form == "scalar":
                arg = lons[0]
            elif form == "int-scalar":
                arg = int(lons[0])
            elif form == "np-scalar":
                arg = np.float64(lons[0])
            elif form == "array":
                arg = np.array(lons, dtype="f8")
            elif form == "long":
                rr = __import__("random").Random(len(lons) * 7919 + c["n"])
                order = [rr.randrange(len(lons)) for _ in range(c["n"])]
                order[:len(lons)] = range(len(lons))
                arg = np.array([lons[i] for i in order], dtype="f8")
            else:
                arg = as_form(lons, form)
            sh = c["shift"]
            st = c.get("shift_type", "py")
            if sh is not None and st != "py":
                sh = {"np.float64": np.float64, "np.int64": lambda v: np.int64(int(v)), "0d": lambda v: np.array(float(v))}[st](sh)
            kw = {}
            if sh is not None or c.get("kw") == "explicit":
                kw["shift"] = sh
            if not (c.get("kw") == "omit" and c["wrap"] is True):
                kw["wrap"] = flagv(c["wrap"], c.get("wrap_form"))
            keep = snapshot(arg)
            out = fn(arg, **kw)
            out = [jf(x) for x in np.asarray(out, dtype="f8").ravel()]
            if not unchanged(arg, keep):
                raise AssertionError("input modified")
            if order is not None:
                # every occurrence of a longitude must give the same number: report the distinct outputs per longitude
                if len(out) != len(order):
                    raise AssertionError("output length %d for %d inputs" % (len(out), len(order)))
                seen = {}
                for i, o in zip(order, out):
                    seen.setdefault(i, [])
                    if not any(o == q or (o is None and q is None) for q in seen[i]):
                        seen[i].append(o)
                if any(len(v) != 1 for v in seen.values()):
                    raise AssertionError("equal inputs at different positions of a long array give different outputs")
                return [seen[i][0] for i in range(len(lons))]
            if len(out) != len(lons):
                raise AssertionError("output length %d for %d inputs" % (len(out), len(lons)))
            return out
        return core.guarded(f)

    def term(self, c, out):
        if out[0] != "ok":
            return "3%Z"
        sh = "None" if c["shift"] is None else "(Some %s)" % cQ(c["shift"])
        ts = []
        for lon, o in zip(c["lons"], out[1]):
            ex = shift_exact(lon, c["shift"])
            ts.append("shift_verdict %s %s %s %s %s %s" % (cbool(ex), cQ(TOL_SHIFT), cQ(lon), sh, cbool(c["wrap"]), oq(o)))
        return "zmax_list [%s]" % "; ".join(ts)

    def nontrivial(self, c, out):
        return (c["shift"] is not None and c["shift"] != 0) or (c["wrap"] and any(x > 180 for x in c["lons"]))

    def show(self, c):
        sh = "None" if c["shift"] is None else "(Some %s)" % cQ(c["shift"])
        return "map (fun l => shiftlon l %s %s) [%s]" % (sh, cbool(c["wrap"]), "; ".join(cQ(x) for x in c["lons"]))

    def classify(self, c, out, v):
        return "C09.shiftlon:%s" % c.get("family")


FLAG_FORMS = ("bool", "np.bool_", "int", "np.int64", "0d", "np.float64")


def flagv(v, form):
    """the boolean keyword value v in another truthy / falsy spelling"""
    import numpy as np
    v = bool(v)
    if form in (None, "bool"):
        return v
    if form == "np.bool_":
        return np.bool_(v)
    if form == "int":
        return int(v)
    if form == "np.int64":
        return np.int64(int(v))
    if form == "0d":
        return np.array(v)
    if form == "np.float64":
        return np.float64(1.0 if v else 0.0)
    raise AssertionError("unknown flag form %r" % form)


def call_conv(c, pts, scalar):
    """run one conversion of the REAL code on the points (one array call, or one scalar call per point);
    returns a list of output tuples of python floats (nan/inf kept)"""
    import numpy as np
    co = _coords()
    fn = c["fn"]

    kwm = c.get("kw")           # None: as the harness always did; "omit": defaults left out; "explicit": every keyword given

    def ekw():
        k = {}
        if not (kwm == "omit" and not c["b1950"]):
            k["b1950"] = flagv(c["b1950"], c.get("flag_form"))
        if kwm == "explicit" or c.get("dtype"):
            k["dtype"] = c.get("dtype") or "f8"
            if k["dtype"] == "np.float64":
                k["dtype"] = np.float64
        return k

    def ukw():
        k = {}
        if not (kwm == "omit" and c["units"] == "deg"):
            k["units"] = c["units"]
        if not (kwm == "omit" and not c["stomp"]):
            k["stomp"] = flagv(c["stomp"], c.get("flag_form"))
        return k

    def one(a, d, form=None):
        if fn == "euler":
            return quiet(co.euler, a, d, c["sel"], **ekw())
        if fn in WRAPPER.values():
            return quiet(getattr(co, fn), a, d, **ekw())
        if fn == "eq2sdss":
            return quiet(co.eq2sdss, a, d, **({"dtype": "f8"} if kwm == "explicit" else {}))
        if fn == "sdss2eq":
            return quiet(co.sdss2eq, a, d, **({"dtype": "f8"} if kwm == "explicit" else {}))
        if fn == "eq2xyz":
            return quiet(co.eq2xyz, a, d, **dict(ukw(), **({"dtype": "f8"} if kwm == "explicit" else {})))
        if fn == "xyz2eq":
            x, y, z = quiet(co.eq2xyz, a, d, **ukw())
            if form in ("list", "tuple"):
                x, y, z = ([float(v) for v in np.ravel(t)] for t in (x, y, z))
                if form == "tuple":
                    x, y, z = tuple(x), tuple(y), tuple(z)
            elif form == "readonly":
                for t in (x, y, z):
                    t.flags.writeable = False
            elif form == "reversed":
                x, y, z = (np.array(t[::-1])[::-1] for t in (x, y, z))
            elif form == ">f8":
                x, y, z = (t.astype(">f8") for t in (x, y, z))
            return quiet(co.xyz2eq, x, y, z, **ukw())
        if fn == "rotate":
            ang = [c["phi"], c["theta"], c["psi"]]
            if c.get("angle_type") == "int":
                # integer spelling only of integer-valued angles (-0.0 stays a float: its sign is part of the case)
                ang = [int(v) if float(v).is_integer() and not (v == 0 and math.copysign(1.0, v) < 0) else v for v in ang]
            elif c.get("angle_type") == "np.float64":
                ang = [np.float64(v) for v in ang]
            return quiet(co.rotate, ang[0], ang[1], ang[2], a, d)
        raise AssertionError("unknown fn " + fn)
    if scalar:
        res = []
        for a, d in pts:
            o = one(float(a), float(d))
            res.append(tuple(float(np.asarray(v, dtype="f8").ravel()[0]) for v in o))
        return res
    form = c.get("form")
    if c.get("_arrays") is not None:
        a, d = c["_arrays"]
    else:
        a = as_form([p[0] for p in pts], form)
        d = as_form([p[1] for p in pts], form)
    ka, kd = snapshot(a), snapshot(d)
    o = one(a, d, form)
    if c.get("_raw") is not None:
        c["_raw"].extend(list(o) if isinstance(o, (tuple, list)) else [o])
    if not (unchanged(a, ka) and unchanged(d, kd)):
        raise AssertionError("input arrays modified")
    cols = [np.asarray(v, dtype="f8").ravel() for v in o]
    npt = 1 if form == "0d" else len(pts)
    if any(len(col) != npt for col in cols):
        raise AssertionError("output length differs from input length")
    return [tuple(float(col[i]) for col in cols) for i in range(npt)]


class Forms(Entry):
    """finite outputs in the documented ranges, for array and scalar calls, identical in both forms"""
    name = "ranges"

    def cases(self, ctx, round=0):
        r = ctx.rng
        cs = []
        reps = ctx.n(1, 6) if round == 0 else 2
        for _ in range(reps):
            for b in (False, True):
                for sel in range(1, 7):
                    pts = [p for p, _ in euler_points(r, sel, b, 3)]
                    cs.append({"fn": r.choice(["euler", WRAPPER[sel]]), "sel": sel, "b1950": b, "pts": pts, "family": "euler-family"})
            for fn in ("eq2sdss", "sdss2eq"):
                pts = [sphere_pt(r) for _ in range(4)]
                if fn == "eq2sdss":
                    pts += [(95.0, 0.0), (275.0, 0.0), (95.0 + small(r), small(r)), (0.0, 0.0), (360.0, 0.0), (185.0, 32.5),
                            (5.0, -32.5), (r.uniform(0, 360), 90.0), (r.uniform(0, 360), -90.0)]
                else:
                    pts = [(d, a - 180.0) for a, d in pts] + [(90.0, 0.0), (-90.0, 10.0), (0.0, 57.5), (0.0, -122.5), (0.0, 57.5 + small(r)),
                                                              (0.0, 180.0), (0.0, -180.0), (90.0 - abs(small(r)), 20.0)]
                cs.append({"fn": fn, "pts": pts, "family": "sdss"})
            for units in ("deg", "rad"):
                for stomp in (False, True):
                    pts = [sphere_pt(r) for _ in range(4)] + [(0.0, 0.0), (360.0, 0.0), (95.0, 0.0), (94.0, 1.0), (r.uniform(0, 360), 90.0),
                                                              (r.uniform(0, 360), -90.0), (10.0, 90.0 - abs(small(r))), (r.uniform(0, 95), r.uniform(-80, 80))]
                    if units == "rad":
                        pts = [(math.radians(a), math.radians(d)) for a, d in pts]
                    for fn in ("eq2xyz", "xyz2eq"):
                        cs.append({"fn": fn, "units": units, "stomp": stomp, "pts": pts, "family": "unit-vectors"})
            for _k in range(3):
                ang = [r.choice([r.uniform(-360, 360), float(r.randrange(-4, 5) * 90), 0.0]) for _ in range(3)]
                pts = [sphere_pt(r) for _ in range(4)] + [(0.0, 90.0), (0.0, -90.0), (360.0, 0.0), (0.0, 0.0)]
                # pre-images of the new poles
                co = _coords()
                for s in (90.0, -90.0):
                    a, d = quiet(co.rotate, ang[2], -ang[1], ang[0], 0.0, s)
                    if _fin(_f(a)) and _fin(_f(d)):
                        pts.append(clamp_pt(_f(a), _f(d)))
                cs.append({"fn": "rotate", "phi": ang[0], "theta": ang[1], "psi": ang[2], "pts": pts, "family": "rotate"})
        if round == 0:
            cs += self.form_cases(ctx)
        return cs

    def form_cases(self, ctx):
        """input-form audit: every entry point with lists, tuples, 0-d and length-1 arrays, integer / float32 / big-endian
        dtypes, strided / reversed / read-only views, long arrays, keywords omitted or given explicitly as their defaults"""
        r = ctx.rng
        cs = []
        forms = ["list", "tuple", "len1", "0d", "u1", "i2", "i4", "i8", "u2", "f4", ">f8", "strided", "reversed", "readonly", "long"]
        fns = [("euler", {}), ("wrapper", {}), ("eq2sdss", {}), ("sdss2eq", {}), ("eq2xyz", {}), ("xyz2eq", {}), ("rotate", {})]
        k = 0
        for form in forms:
            # every form with every entry point (the cases are cheap: one call and one exact-rational term each)
            sel_fns = fns
            for fn, _ in sel_fns:
                c = {"form": form, "family": "form:" + form, "kw": r.choice(["omit", "explicit", None]),
                     "flag_form": r.choice(FLAG_FORMS)}
                if c["kw"] == "explicit" and fn in ("euler", "wrapper"):
                    c["dtype"] = r.choice(["f8", "float64", "<f8", "np.float64", "d", ">f8"])     # spellings of binary64 (and big-endian)
                lo1, hi1, lo2, hi2 = 0.0, 360.0, -90.0, 90.0
                if fn in ("euler", "wrapper"):
                    sel = r.randrange(1, 7)
                    c.update({"fn": "euler" if fn == "euler" else WRAPPER[sel], "sel": sel, "b1950": r.random() < 0.5})
                elif fn == "sdss2eq":
                    c["fn"] = fn
                    lo1, hi1, lo2, hi2 = -90.0, 90.0, -180.0, 180.0
                elif fn in ("eq2xyz", "xyz2eq"):
                    c.update({"fn": fn, "units": "deg" if form in INT_FORMS else r.choice(["deg", "rad"]), "stomp": r.random() < 0.5})
                    if c["units"] == "rad":
                        lo1, hi1, lo2, hi2 = 0.0, 6.25, -1.5, 1.5
                elif fn == "rotate":
                    c.update({"fn": fn, "angle_type": r.choice(["py", "int", "np.float64"])})
                    ang = [float(r.randrange(-360, 361)) for _ in range(3)]
                    c.update({"phi": ang[0], "theta": ang[1], "psi": ang[2]})
                else:
                    c["fn"] = fn
                npt = 1 if form in ("len1", "0d") else (12 if form == "long" else 5)
                c["pts"] = pts_for_form(r, form, npt, lo2, hi2, lo1, hi1)
                if form == "long":
                    c["n"] = 4097 if ctx.quick() else r.choice([65537, 100001])
                cs.append(c)
        # empty arrays (no point to convert: nothing may be raised or invented; eq2sdss/sdss2eq are left out -- their
        # range check takes min() of the array and raises ValueError on an empty one, see the report)
        cs.append({"fn": "euler", "sel": 1, "b1950": False, "pts": [], "family": "form:empty"})
        cs.append({"fn": "gal2ec", "sel": 6, "b1950": True, "pts": [], "family": "form:empty"})
        cs.append({"fn": "eq2xyz", "units": "deg", "stomp": False, "pts": [], "family": "form:empty"})
        cs.append({"fn": "xyz2eq", "units": "rad", "stomp": True, "pts": [], "family": "form:empty"})
        cs.append({"fn": "rotate", "phi": 10.0, "theta": 20.0, "psi": 30.0, "pts": [], "family": "form:empty"})
        return cs

    def impl(self, c):
        def f():
            pts = [tuple(p) for p in c["pts"]]
            sca = call_conv(dict(c, form=None), pts, True)
            if c.get("form") == "long":
                # a long array made of the case's points in pseudo-random order: every occurrence of a point must give
                # the same numbers; the distinct outputs per point are what Coq compares with the scalar calls
                rr = __import__("random").Random(c["n"])
                order = [rr.randrange(len(pts)) for _ in range(c["n"])]
                order[:len(pts)] = range(len(pts))
                big = call_conv(c, [pts[i] for i in order], False)
                seen = {}
                for i, o in zip(order, big):
                    o = tuple(jf(x) for x in o)
                    seen.setdefault(i, [])
                    if o not in seen[i]:
                        seen[i].append(o)
                arr, sca2 = [], []
                for i in range(len(pts)):
                    for o in seen[i]:           # usually one; the vector body and the scalar tail of a numpy loop may differ
                        arr.append(o)
                        sca2.append(sca[i])
                sca = sca2
            else:
                arr = call_conv(c, pts, False)
            return {"arr": [[jf(x) for x in t] for t in arr], "sca": [[jf(x) for x in t] for t in sca]}
        return core.guarded(f)

    def term(self, c, out):
        if out[0] != "ok":
            return "3%Z"
        arr, sca = out[1]["arr"], out[1]["sca"]
        # every output in range (exactly); the container form and the scalar calls agree to FORM_TOL (another numpy inner
        # loop may differ in the last bits; a longitude may then also land on the other side of the 0/360 seam)
        if c["fn"] == "eq2xyz":
            return "verdict true (xyz_forms_close %s [%s] [%s])" % (cQ(FORM_TOL_RAD), "; ".join(oqtriple(t) for t in arr),
                                                                     "; ".join(oqtriple(t) for t in sca))
        chk, tol, per1, per2 = "lonlat_ok", FORM_TOL, "360", "0"
        if c["fn"] == "eq2sdss":
            chk, per1, per2 = "sdss_ok", "0", "360"
        elif c["fn"] == "xyz2eq" and c["units"] == "rad":
            chk, tol, per1 = "lonlat_rad_ok", FORM_TOL_RAD, "(2 * pi_hi)"
        return "verdict true (forms_close %s %s %s %s [%s] [%s])" % (chk, cQ(tol), per1, per2, "; ".join(oqpair(t) for t in arr),
                                                                      "; ".join(oqpair(t) for t in sca))

    def classify(self, c, out, v):
        return "C09.ranges:%s%s" % (c["fn"], (":" + c["form"]) if c.get("form") else "")


class Reuse(Entry):
    """several calls in ONE process arranged so that a cache keyed too coarsely would collide: the same array objects
    passed again after their contents were changed in place, other arrays of the same length, dtype, first and last
    elements, equal contents in new objects -- every call must give what the scalar calls of its own values give"""
    name = "reuse"

    def cases(self, ctx, round=0):
        r = ctx.rng
        cs = []
        fns = ["euler", "wrapper", "eq2sdss", "sdss2eq", "eq2xyz", "xyz2eq", "rotate"]
        for fn in (fns if not ctx.quick() or round else fns):
            c = {"family": "reuse:" + fn, "flag_form": r.choice(FLAG_FORMS)}
            lo1, hi1, lo2, hi2 = 0.0, 360.0, -90.0, 90.0
            if fn in ("euler", "wrapper"):
                sel = r.randrange(1, 7)
                c.update({"fn": "euler" if fn == "euler" else WRAPPER[sel], "sel": sel, "b1950": r.random() < 0.5})
            elif fn == "sdss2eq":
                c["fn"] = fn
                lo1, hi1, lo2, hi2 = -90.0, 90.0, -180.0, 180.0
            elif fn in ("eq2xyz", "xyz2eq"):
                c.update({"fn": fn, "units": r.choice(["deg", "rad"]), "stomp": r.random() < 0.5})
                if c["units"] == "rad":
                    lo1, hi1, lo2, hi2 = 0.0, 6.25, -1.5, 1.5
            elif fn == "rotate":
                ang = [r.choice([0.0, r.uniform(-180, 180)]) for _ in range(3)]
                c.update({"fn": fn, "phi": ang[0], "theta": ang[1], "psi": ang[2]})
            else:
                c["fn"] = fn
            n = r.choice([3, 5, 8])
            first = pts_for_form(r, "f8", n, lo2, hi2, lo1, hi1)
            second = pts_for_form(r, "f8", n, lo2, hi2, lo1, hi1)
            second[0], second[-1] = first[0], first[-1]          # same length, same first and last elements
            c["pts"], c["pts2"] = first, second
            lo, hi = max(lo1, lo2), min(hi1, hi2)
            c["pts3"] = [(v, v) for v in (r.uniform(lo, hi) for _ in range(3))]      # same value (and object) for both arguments
            cs.append(c)
        return cs

    def impl(self, c):
        import numpy as np

        def f():
            p1 = [tuple(p) for p in c["pts"]]
            p2 = [tuple(p) for p in c["pts2"]]
            co = dict(c, form=None)

            def arr_call(a, d):
                # call_conv's array path on given array OBJECTS
                return call_conv(dict(co, _arrays=(a, d)), p1, False)
            a = np.array([p[0] for p in p1], dtype="f8")
            d = np.array([p[1] for p in p1], dtype="f8")
            o1 = arr_call(a, d)
            a[:] = [p[0] for p in p2]                           # same objects, contents changed in place
            d[:] = [p[1] for p in p2]
            o2 = arr_call(a, d)
            o3 = arr_call(np.array([p[0] for p in p1], dtype="f8"), np.array([p[1] for p in p1], dtype="f8"))   # new objects, first contents
            o4 = arr_call(a, d)                                  # same objects again, unchanged
            # ownership: the caller scribbles over the RETURNED arrays; the arguments must not change with them and the
            # next call must not see the scribble
            raw = []
            o5 = call_conv(dict(co, _arrays=(a, d), _raw=raw), p1, False)
            ka, kd = a.copy(), d.copy()
            for out_arr in raw:
                if isinstance(out_arr, np.ndarray) and out_arr.flags.writeable and out_arr.ndim > 0:
                    if np.shares_memory(out_arr, a) or np.shares_memory(out_arr, d):
                        raise AssertionError("a returned array shares memory with an argument")
                    out_arr[...] = 777.25
            if not (np.array_equal(a, ka) and np.array_equal(d, kd)):
                raise AssertionError("writing into a returned array changed an argument")
            o6 = arr_call(a, d)
            # aliasing: the SAME array object as both arguments
            p3 = [tuple(p) for p in c.get("pts3", [])]
            o7, s3 = [], []
            if p3:
                both = np.array([p[0] for p in p3], dtype="f8")
                o7 = call_conv(dict(co, _arrays=(both, both)), p3, False)
                s3 = call_conv(co, p3, True)
            s1 = call_conv(co, p1, True)
            s2 = call_conv(co, p2, True)
            j = lambda l: [[jf(x) for x in t] for t in l]
            return {"arr": j(o1) + j(o2) + j(o3) + j(o4) + j(o5) + j(o6) + j(o7),
                    "sca": j(s1) + j(s2) + j(s1) + j(s2) + j(s2) + j(s2) + j(s3)}
        return core.guarded(f)

    def term(self, c, out):
        return Forms.term(self, c, out)

    def classify(self, c, out, v):
        return "C09.reuse:%s" % c["fn"]


_FRESH_SCRIPT = ("import sys, json; sys.path.insert(0, %r); from harness.props import C09 as H; ops = json.load(sys.stdin); out = []; prev = None\n"
                 "for o in ops:\n"
                 "    pt = prev if o['pt'] == 'prev' else tuple(o['pt'])\n"
                 "    prev = H.call_conv(o['conv'], [pt], True)[0]\n"
                 "    out.append([H.jf(x) for x in prev])\n"
                 "print('@@' + json.dumps(out))\n") % core.VERIF
_FRESH_CACHE = {}


def fresh_process(ops):
    """run the calls, in order, in ONE newly started python process (same build under test); -> list of outputs"""
    key = json.dumps(ops, sort_keys=True)
    if key not in _FRESH_CACHE:
        r = subprocess.run([sys.executable, "-c", _FRESH_SCRIPT], input=key, stdout=subprocess.PIPE, stderr=subprocess.PIPE,
                           text=True, timeout=300, env=dict(os.environ))
        line = [ln for ln in r.stdout.splitlines() if ln.startswith("@@")]
        if r.returncode != 0 or not line:
            raise RuntimeError("fresh process failed: %s" % (r.stderr[-300:]))
        _FRESH_CACHE[key] = json.loads(line[-1][2:])
    return _FRESH_CACHE[key]


class History(Entry):
    """a conversion is a function of its arguments: what a call returns after other calls in the same process (other epoch,
    other selector, other dtype, opposite Euler angles) is what it returns as the only call of a newly started process --
    and is finite and in range"""
    name = "history"

    def cases(self, ctx, round=0):
        r = ctx.rng
        cs = []

        def ecall(sel, b, via_euler=False, dtype=None):
            c = {"fn": "euler" if via_euler else WRAPPER[sel], "sel": sel, "b1950": b, "flag_form": r.choice(FLAG_FORMS)}
            if dtype:
                c["dtype"] = dtype
            return {"conv": c, "pt": list(sphere_pt(r))}

        def rcall(ang):
            return {"conv": {"fn": "rotate", "phi": ang[0], "theta": ang[1], "psi": ang[2]}, "pt": list(sphere_pt(r))}
        sels = [1, 5] if ctx.quick() else [1, 2, 3, 4, 5, 6]
        if round > 0:
            sels = [r.randrange(1, 7)]
        for sel in sels:
            cs.append({"ops": [ecall(sel, True), ecall(sel, False)], "family": "epoch:B1950-then-J2000"})
            if not ctx.quick() or sel == 1:
                cs.append({"ops": [ecall(sel, False, True), ecall(sel, True, True), ecall(sel, False)], "family": "epoch:J2000-B1950-J2000"})
        cs.append({"ops": [ecall(1, True, dtype="f4"), ecall(1, False, dtype="f4"), ecall(1, False)], "family": "dtype:f4-then-f8"})
        if not ctx.quick():
            cs.append({"ops": [ecall(2, False), ecall(6, False), ecall(2, False, True)], "family": "selector-mix"})
        ang = [r.uniform(-180, 180) for _ in range(3)]
        cs.append({"ops": [rcall(ang), rcall([ang[0], -ang[1], ang[2]]), rcall([ang[2], ang[1], ang[0]]), rcall([ang[0], 0.0, ang[2]]),
                           rcall([ang[0], ang[1], ang[2]])], "family": "rotate-angles"})

        def ocall(fn, **kw):
            pt = sphere_pt(r)
            if fn == "sdss2eq":
                pt = (pt[1], pt[0] - 180.0)
            if kw.get("units") == "rad":
                pt = (math.radians(pt[0]), math.radians(pt[1]))
            return {"conv": dict({"fn": fn}, **kw), "pt": list(pt)}
        # unit vectors and survey coordinates: option values changing between calls of one process
        cs.append({"ops": [ocall("xyz2eq", units="deg", stomp=True), ocall("xyz2eq", units="rad", stomp=False), ocall("xyz2eq", units="deg", stomp=False),
                           ocall("xyz2eq", units="rad", stomp=True)], "family": "units-stomp-mix"})
        cs.append({"ops": [ocall("eq2sdss"), ocall("sdss2eq"), ocall("eq2sdss"), ocall("sdss2eq")], "family": "sdss-mix"})
        return cs

    def impl(self, c):
        def f():
            seq = fresh_process(c["ops"])
            alone = [fresh_process([o])[0] for o in c["ops"]]
            return {"seq": seq, "alone": alone}
        return core.guarded(f)

    def term(self, c, out):
        if out[0] != "ok":
            return "3%Z"
        # per call: output of the sequence identical to the output of the call alone in a new process, and in range
        ts = []
        for o, a, b in zip(c["ops"], out[1]["seq"], out[1]["alone"]):
            fn = o["conv"]["fn"]
            chk = "sdss_ok" if fn == "eq2sdss" else ("lonlat_rad_ok" if fn == "xyz2eq" and o["conv"].get("units") == "rad" else "lonlat_ok")
            ts.append("forms_ok %s [%s] [%s]" % (chk, oqpair(a), oqpair(b)))
        return "verdict true (forallb (fun b : bool => b) [%s])" % "; ".join(ts)

    def classify(self, c, out, v):
        return "C09.history:%s" % c.get("family")


class SdssReject(Entry):
    """eq2sdss / sdss2eq accept exactly the inputs inside their documented ranges (model: Err EValue outside)"""
    name = "sdss_ranges"

    def cases(self, ctx, round=0):
        r = ctx.rng
        cs = []
        for _ in range(ctx.n(12, 80)):
            fn = r.choice(["eq2sdss", "sdss2eq"])
            lo1, hi1, lo2, hi2 = (0.0, 360.0, -90.0, 90.0) if fn == "eq2sdss" else (-90.0, 90.0, -180.0, 180.0)
            pts = [(r.uniform(lo1, hi1), r.uniform(lo2, hi2)) for _ in range(r.choice([1, 3]))]
            k = r.choice(["in", "edge", "out1", "out2"])
            if k == "edge":
                pts.append((r.choice([lo1, hi1]), r.choice([lo2, hi2])))
            elif k == "out1":
                pts.append((r.choice([lo1 - abs(small(r)), hi1 + abs(small(r)), hi1 + 1e-13]), r.uniform(lo2, hi2)))
            elif k == "out2":
                pts.append((r.uniform(lo1, hi1), r.choice([lo2 - abs(small(r)), hi2 + abs(small(r)), hi2 + 1e-13])))
            r.shuffle(pts)
            cs.append({"fn": fn, "pts": pts, "family": "range-" + k})
        return cs

    def impl(self, c):
        def f():
            call_conv(c, [tuple(p) for p in c["pts"]], False)
            return True
        return core.guarded(f)

    def term(self, c, out):
        acc = "eq2sdss_accepts" if c["fn"] == "eq2sdss" else "sdss2eq_accepts"
        model = "all_accept %s [%s]" % (acc, "; ".join("(%s, %s)" % (cQ(a), cQ(d)) for a, d in c["pts"]))
        if out[0] == "ok":
            return "verdict (%s) true" % model
        # rejected: fine when the model rejects too (with ValueError); a rejected valid input violates the property
        return "verdict (negb (%s) && %s) (negb (%s))" % (model, cbool(out[1] == "EValue"), model)

    def nontrivial(self, c, out):
        return c["family"] != "range-in"


# ----------------------------------------------------------------------------------------------
# (R) certificates
# ----------------------------------------------------------------------------------------------

def ud(p):
    return "(unit_deg %s %s)" % (cR(p[0]), cR(p[1]))


def uof(deg, p):
    return "(unit_of %s %s %s)" % (cbool(deg), cR(p[0]), cR(p[1]))


def xv(p):
    return "(xyzv %s %s %s)" % (cR(p[0]), cR(p[1]), cR(p[2]))


def sd(p):
    return "(sdss_dir %s %s)" % (cR(p[0]), cR(p[1]))


def rowt(c):
    if c["fn"] == "rotate":
        return "(rotate_row %s %s %s)" % (cR(c["phi"]), cR(c["theta"]), cR(c["psi"]))
    return "(euler_row %s %d)" % (cbool(c["b1950"]), c["sel"])


def unitvec(p, deg=True):
    a, d = (math.radians(p[0]), math.radians(p[1])) if deg else p
    return (math.cos(d) * math.cos(a), math.cos(d) * math.sin(a), math.sin(d))


def is_far(p, q, deg=True):
    u, v = unitvec(p, deg), unitvec(q, deg)
    return sum(x * y for x, y in zip(u, v)) < 0.0


def conv_of(it):
    """the `call_conv` description of the conversion of a certificate item and of its inverse"""
    k = it["kind"]
    if k in ("euler", "euler_pair"):
        fwd = {"fn": it.get("via", WRAPPER[it["sel"]]), "sel": it["sel"], "b1950": it["b1950"], "flag_form": it.get("flag_form")}
        bwd = {"fn": WRAPPER[INV[it["sel"]]], "sel": INV[it["sel"]], "b1950": it["b1950"], "flag_form": it.get("flag_form_inv")}
        return fwd, bwd
    if k in ("rotate", "rotate_pair"):
        fwd = {"fn": "rotate", "phi": it["phi"], "theta": it["theta"], "psi": it["psi"], "angle_type": it.get("angle_type")}
        bwd = {"fn": "rotate", "phi": it["psi"], "theta": -it["theta"], "psi": it["phi"], "angle_type": it.get("angle_type")}
        return fwd, bwd
    if k in ("sdss", "sdss_pair"):
        return {"fn": "eq2sdss"}, {"fn": "sdss2eq"}
    if k == "sdss_rev":
        return {"fn": "sdss2eq"}, {"fn": "eq2sdss"}
    raise AssertionError(k)


def evaluate(it):
    """run the real code for one certificate item -> (outputs dict, [(name, kind, statement)]) ;
    kind 'ok' = part of the property as stated, 'tie' = model <-> implementation"""
    co = _coords()
    k = it["kind"]
    out, lem = {}, []

    def need_finite(name, vals):
        out[name] = [jf(x) for x in vals]
        if not all(math.isfinite(x) for x in vals):
            raise NonFinite(name)
    if k in ("euler", "rotate"):
        fwd, bwd = conv_of(it)
        p = tuple(it["pt"])
        if it.get("pre"):
            # the calls of "pre" (e.g. the other epoch) come first, everything in one newly started process
            res = fresh_process(list(it["pre"]) + [{"conv": fwd, "pt": list(p)}, {"conv": bwd, "pt": "prev"}])
            o = tuple(float("nan") if x is None else x for x in res[-2])
            rt = tuple(float("nan") if x is None else x for x in res[-1])
            need_finite("out", o)
        else:
            o = call_conv(dict(fwd, form=it.get("form")), [p], it.get("scalar", True) and not it.get("form"))[0]
            need_finite("out", o)
            rt = call_conv(bwd, [o], it.get("scalar", True))[0]
        need_finite("roundtrip", rt)
        lem.append(("tie", "tie", "tie %s (euler_dir %s %s %s)" % (ud(o), rowt(fwd), cR(p[0]), cR(p[1]))))
        lem.append(("inverse", "ok", "within_sky tol5 %s %s" % (ud(rt), ud(p))))
        if k == "euler" and not it["b1950"]:
            lem.append(("documented", "ok", "within_sky tol5 %s (euler_lin (doc_row %d) %s)" % (ud(o), it["sel"], ud(p))))
    elif k in ("euler_pair", "rotate_pair", "sdss_pair"):
        fwd, _ = conv_of(it)
        p, q = tuple(it["pt"]), tuple(it["pt2"])
        o = call_conv(fwd, [p, q], False)
        need_finite("out", o[0] + o[1])
        far = is_far(p, q)
        tol = "tol9" if k == "sdss_pair" else "tol5"
        w = sd if k == "sdss_pair" else ud
        lem.append(("separation", "ok", "sep_kept %s %s %s %s %s %s" % (cbool(far), tol, w(o[0]), w(o[1]), ud(p), ud(q))))
    elif k == "chain":
        p = tuple(it["pt"])
        b = it["b1950"]
        f3 = it.get("flag_forms") or [None, None, None]
        if it["dir"] == "ec2gal":
            direct = call_conv({"fn": "ec2gal", "b1950": b, "flag_form": f3[0]}, [p], True)[0]
            mid = call_conv({"fn": "ec2eq", "b1950": b, "flag_form": f3[1]}, [p], True)[0]
            need_finite("mid", mid)
            ch = call_conv({"fn": "eq2gal", "b1950": b, "flag_form": f3[2]}, [mid], True)[0]
        else:
            direct = call_conv({"fn": "gal2ec", "b1950": b, "flag_form": f3[0]}, [p], True)[0]
            mid = call_conv({"fn": "gal2eq", "b1950": b, "flag_form": f3[1]}, [p], True)[0]
            need_finite("mid", mid)
            ch = call_conv({"fn": "eq2ec", "b1950": b, "flag_form": f3[2]}, [mid], True)[0]
        need_finite("direct", direct)
        need_finite("chained", ch)
        lem.append(("chain", "ok", "within_sky tol5 %s %s" % (ud(direct), ud(ch))))
    elif k == "sdss":
        p = tuple(it["pt"])
        o = call_conv({"fn": "eq2sdss"}, [p], it.get("scalar", True))[0]
        need_finite("out", o)
        rt = call_conv({"fn": "sdss2eq"}, [o], it.get("scalar", True))[0]
        need_finite("roundtrip", rt)
        lem.append(("tie", "tie", "tie %s (eq_in_sdss_frame %s %s)" % (sd(o), cR(p[0]), cR(p[1]))))
        lem.append(("inverse", "ok", "within_sky tol9 %s %s" % (ud(rt), ud(p))))
    elif k == "sdss_rev":
        p = tuple(it["pt"])
        o = call_conv({"fn": "sdss2eq"}, [p], it.get("scalar", True))[0]
        need_finite("out", o)
        rt = call_conv({"fn": "eq2sdss"}, [o], it.get("scalar", True))[0]
        need_finite("roundtrip", rt)
        lem.append(("tie", "tie", "tie %s (Rz sdss_node %s)" % (ud(o), sd(p))))
        lem.append(("inverse", "ok", "within_sky tol9 %s %s" % (sd(rt), sd(p))))
    elif k == "xyz":
        p = tuple(it["pt"])
        deg = it["units"] == "deg"
        c = {"fn": "eq2xyz", "units": it["units"], "stomp": it["stomp"]}
        v = call_conv(c, [p], it.get("scalar", True))[0]
        need_finite("out", v)
        rt = call_conv(dict(c, fn="xyz2eq"), [p], it.get("scalar", True))[0]
        need_finite("roundtrip", rt)
        lem.append(("tie-eq2xyz", "tie", "tie %s (xyz_model %s %s %s %s)" % (xv(v), cbool(deg), cbool(it["stomp"]), cR(p[0]), cR(p[1]))))
        lem.append(("tie-xyz2eq", "tie", "tie (xyz_model %s %s %s %s) %s" % (cbool(deg), cbool(it["stomp"]), cR(rt[0]), cR(rt[1]), xv(v))))
        lem.append(("inverse", "ok", "within_sky tol9 %s %s" % (uof(deg, rt), uof(deg, p))))
    elif k == "xyz_pair":
        p, q = tuple(it["pt"]), tuple(it["pt2"])
        deg = it["units"] == "deg"
        c = {"fn": "eq2xyz", "units": it["units"], "stomp": it["stomp"]}
        o = call_conv(c, [p, q], False)
        need_finite("out", o[0] + o[1])
        far = is_far(p, q, deg)
        lem.append(("separation", "ok", "sep_kept %s tol9 %s %s %s %s" % (cbool(far), xv(o[0]), xv(o[1]), uof(deg, p), uof(deg, q))))
    else:
        raise AssertionError("unknown certificate kind %r" % k)
    return out, lem


class NonFinite(Exception):
    pass


def pair_near(r, p):
    """a second point: anywhere, close by (1e-9..1 degree), or nearly antipodal"""
    k = r.choice(["any", "close", "close", "antipodal"])
    if k == "any":
        return sphere_pt(r), "pair-any"
    if k == "close":
        s = 10.0 ** r.uniform(-9, 0)
        a, d = p[0] + r.uniform(-1, 1) * s / max(math.cos(math.radians(p[1])), 1e-3), p[1] + r.uniform(-1, 1) * s
        a, d = clamp_pt(a, d)
        if (a, d) == tuple(p):
            d = d - 1e-6 if d > 0 else d + 1e-6
        return (a, d), "pair-close"
    s = 10.0 ** r.uniform(-9, 0)
    a, d = clamp_pt(p[0] + 180.0 + r.uniform(-1, 1) * s, -p[1] + r.uniform(-1, 1) * s)
    return (a, d), "pair-antipodal"


def cert_items(ctx):
    r = ctx.rng
    items = []
    scale = ctx.n(1, 4)
    # euler family: every selector and epoch
    for b in (False, True):
        for sel in range(1, 7):
            pts = euler_points(r, sel, b, scale)
            if ctx.quick():
                # one uniform point and one special point per row; the special families rotate over the 12 rows
                spec = [x for x in pts if x[1] not in ("uniform", "exact-grid")]
                grid = [x for x in pts if x[1] == "exact-grid"]
                # one uniform point per row plus, alternating over the 12 rows, a pole-family point or an exact-grid point
                keep = [x for x in pts if x[1] == "uniform"][:1] + \
                    ([spec[(sel + (6 if b else 0)) % len(spec)]] if (sel + b) % 2 == 0 else [grid[sel % 2]])
            else:
                keep = pts
            for p, fam in keep:
                # the epoch flag in every truthy / falsy spelling, differently in the conversion and in its inverse
                ff = FLAG_FORMS[(sel + len(items)) % len(FLAG_FORMS)]
                items.append({"kind": "euler", "sel": sel, "b1950": b, "pt": list(p), "family": "euler:" + fam,
                              "via": r.choice(["euler", WRAPPER[sel]]), "scalar": r.random() < 0.5,
                              "flag_form": ff, "flag_form_inv": r.choice([f for f in FLAG_FORMS if f != ff])})
            for _ in range(scale if not (ctx.quick() and (sel + b) % 2) else 0):
                p = r.choice(pts)[0]
                q, fam = pair_near(r, p)
                items.append({"kind": "euler_pair", "sel": sel, "b1950": b, "pt": list(p), "pt2": list(q), "family": "euler:" + fam})
        if not b:
            for sel in ([r.choice([1, 2]), r.choice([3, 4, 5, 6])] if ctx.quick() else range(1, 7)):
                items.append({"kind": "euler", "sel": sel, "b1950": False, "pt": list(sphere_pt(r)), "family": "euler:after-B1950-call",
                              "pre": [{"conv": {"fn": r.choice(["euler", WRAPPER[sel]]), "sel": sel, "b1950": True}, "pt": list(sphere_pt(r))}]})
        for d in ("ec2gal", "gal2ec"):
            for _ in range(ctx.n(1, 2 * scale)):
                sel = 5 if d == "ec2gal" else 6
                p, fam = r.choice(euler_points(r, sel, b, 2))
                items.append({"kind": "chain", "dir": d, "b1950": b, "pt": list(p), "family": "chain:" + fam,
                              "flag_forms": [r.choice(FLAG_FORMS) for _ in range(3)]})
    # SDSS
    node = [(95.0, 0.0), (275.0, 0.0), (95.0 + small(r), small(r)), (275.0 + small(r), small(r)), (185.0, 32.5), (5.0, -32.5),
            (0.0, 10.0), (360.0, -10.0), (r.uniform(0, 360), 90.0), (r.uniform(0, 360), -(90.0 - abs(small(r))))]
    for p in (node if not ctx.quick() else r.sample(node, 4)) + [sphere_pt(r) for _ in range(ctx.n(1, 3 * scale))]:
        items.append({"kind": "sdss", "pt": list(clamp_pt(*p)) if p[0] != 360.0 else list(p), "family": "sdss:fwd", "scalar": r.random() < 0.5})
    rev = [(90.0, 0.0), (-90.0, 30.0), (90.0 - abs(small(r)), -40.0), (0.0, 57.5), (0.0, 57.5 + small(r)), (0.0, -122.5), (10.0, 180.0), (10.0, -180.0)]
    for p in (rev if not ctx.quick() else r.sample(rev, 3)) + [(sphere_pt(r)[1], r.uniform(-180, 180)) for _ in range(ctx.n(1, 2 * scale))]:
        items.append({"kind": "sdss_rev", "pt": list(p), "family": "sdss:rev", "scalar": r.random() < 0.5})
    for _ in range(ctx.n(2, 3 * scale)):
        p = r.choice(node + [sphere_pt(r)])
        p = clamp_pt(*p) if p[0] != 360.0 else p
        q, fam = pair_near(r, p)
        items.append({"kind": "sdss_pair", "pt": list(p), "pt2": list(q), "family": "sdss:" + fam})
    # unit vectors
    for units in ("deg", "rad"):
        for stomp in (False, True):
            base = [(0.0, 0.0), (360.0, 0.0), (95.0, 0.0), (r.uniform(0, 360), 90.0), (r.uniform(0, 360), -90.0), (10.0, 90.0 - abs(small(r))),
                    (r.uniform(0, 94.9), r.uniform(-80, 80)), (r.uniform(0, 360), -(90.0 - abs(small(r))))]
            pts = (r.sample(base, 1) if ctx.quick() else base) + [sphere_pt(r) for _ in range(scale)]
            for p in pts:
                pp = p if units == "deg" else (math.radians(p[0]), math.radians(p[1]))
                items.append({"kind": "xyz", "units": units, "stomp": stomp, "pt": list(pp), "family": "xyz:%s:%s" % (units, "stomp" if stomp else "plain"),
                              "scalar": r.random() < 0.5})
            for _ in range(scale if not (ctx.quick() and stomp) else 0):
                p = r.choice(base + [sphere_pt(r)])
                q, fam = pair_near(r, clamp_pt(*p))
                if units == "rad":
                    p, q = (math.radians(p[0]), math.radians(p[1])), (math.radians(q[0]), math.radians(q[1]))
                items.append({"kind": "xyz_pair", "units": units, "stomp": stomp, "pt": list(p), "pt2": list(q), "family": "xyz:" + fam})
    # dtypes whose ufuncs numpy evaluates in single/half precision: the outputs must still meet the tolerances
    for _ in range(ctx.n(4, 16)):
        form = r.choice(["u1", "i2", "u2", "f4"])
        p = pts_for_form(r, form, 1, -90.0, 90.0, 0.0, 360.0)[0]
        if r.random() < 0.5:
            ang = [float(r.randrange(-360, 361)) for _ in range(3)]
            items.append({"kind": "rotate", "phi": ang[0], "theta": ang[1], "psi": ang[2], "pt": list(p), "form": form, "family": "dtype:" + form})
        else:
            sel = r.randrange(1, 7)
            items.append({"kind": "euler", "sel": sel, "b1950": r.random() < 0.5, "pt": list(p), "form": form, "family": "dtype:" + form,
                          "via": r.choice(["euler", WRAPPER[sel]])})
    # rotate: every Euler angle at exact special values (0, -0.0, +-90, +-180, 360, equal angles) while the others are not
    # zero -- shortcuts for "no tilt", "quarter turn", "same angle" are where a second, unmodelled formula would hide
    spec = [0.0, -0.0, 90.0, -90.0, 180.0, -180.0, 360.0]
    triples = []
    for pos in range(3):
        for v in spec:
            t = [r.choice([-1, 1]) * r.uniform(5.0, 175.0) for _ in range(3)]
            t[pos] = v
            triples.append((t, "special:%s=%g" % (("phi", "theta", "psi")[pos], v)))
    for v in (0.0, 90.0, 180.0):
        w = r.choice([-1, 1]) * r.uniform(5.0, 175.0)
        triples += [([v, w, v], "special:phi=psi=%g" % v), ([v, v, w], "special:phi=theta=%g" % v), ([w, v, v], "special:theta=psi=%g" % v)]
    e = r.uniform(5.0, 175.0)
    triples += [([e, e, e], "special:all-equal"), ([e, -e, e], "special:phi=psi=-theta"), ([0.0, 0.0, 0.0], "special:all-zero"),
                ([e, 0.0, -e], "special:theta=0,psi=-phi"), ([e, 0.0, e], "special:theta=0,psi=phi")]
    if ctx.quick():
        # theta = 0 with non-zero phi and psi always; the rest rotates with the seed
        must = [t for t in triples if t[1] in ("special:theta=0", "special:phi=0", "special:psi=0", "special:theta=0,psi=phi")]
        rest = [t for t in triples if t not in must]
        triples = must + r.sample(rest, 3)
    for ang, fam in triples:
        items.append({"kind": "rotate", "phi": ang[0], "theta": ang[1], "psi": ang[2], "pt": list(sphere_pt(r)), "family": "rotate:" + fam,
                      "scalar": r.random() < 0.5, "angle_type": r.choice(["py", "py", "np.float64", "int"])})
    # rotate: random and special Euler angles
    co = _coords()
    for _ in range(ctx.n(2, 4 * scale)):
        ang = [r.choice([r.uniform(-360, 360), r.uniform(-360, 360), float(r.randrange(-4, 5) * 90), 0.0]) for _ in range(3)]
        pts = [(sphere_pt(r), "uniform"), ((r.uniform(0, 360), r.choice([90.0, -90.0])), "source-pole")]
        for s in (90.0, -90.0):
            a, d = quiet(co.rotate, ang[2], -ang[1], ang[0], 0.0, s)
            if _fin(_f(a)) and _fin(_f(d)):
                pts.append((clamp_pt(_f(a), _f(d)), "target-pole"))
                pts.append((clamp_pt(_f(a) + small(r), _f(d) + small(r)), "near-target-pole"))
        for p, fam in (r.sample(pts, 2) if ctx.quick() else pts):
            items.append({"kind": "rotate", "phi": ang[0], "theta": ang[1], "psi": ang[2], "pt": list(p), "family": "rotate:" + fam,
                          "scalar": r.random() < 0.5})
        p = r.choice(pts)[0]
        q, fam = pair_near(r, p)
        items.append({"kind": "rotate_pair", "phi": ang[0], "theta": ang[1], "psi": ang[2], "pt": list(p), "pt2": list(q), "family": "rotate:" + fam})
    return items


def certify(ctx, items, tag):
    """evaluate the items on the real code, state and check the certificates, report"""
    lemmas, owner = [], []
    evald = []
    for i, it in enumerate(items):
        try:
            out, lem = evaluate(it)
            err = None
        except NonFinite as e:
            out, lem, err = {}, [], "non-finite output (%s)" % e
        except Exception as e:  # noqa -- a valid input must not raise
            out, lem, err = {}, [], "%s: %s" % (type(e).__name__, str(e)[:200])
        evald.append((it, out, lem, err))
        for name, kind, st in lem:
            lemmas.append((st, "c09_cert."))
            owner.append((i, name, kind, st))
    res = core.coq_lemmas(ctx.work + "/" + tag, PRE_R, lemmas, shard=10, tag=tag) if lemmas else []
    failed = [j for j, (ok, _) in enumerate(res) if not ok]
    if failed:
        # second attempt, one lemma per process (a coqc process killed by the OOM killer looks like a failed lemma)
        again = core.coq_lemmas(ctx.work + "/" + tag + "_again", PRE_R, [lemmas[j] for j in failed], shard=1, tag=tag + "a")
        for j, (ok, msg) in zip(failed, again):
            if ok:
                res[j] = (True, "")
                ctx.count("retries:certificate-proved-on-second-attempt")
        failed = [j for j in failed if not res[j][0]]
    refuted = {}
    if failed:
        neg = [("~ (%s)" % owner[j][3], "c09_refute.") for j in failed]
        rr = core.coq_lemmas(ctx.work + "/" + tag + "_neg", PRE_R, neg, shard=4, tag=tag + "n")
        for j, (ok, _) in zip(failed, rr):
            refuted[j] = ok
    per_item = {}
    for j, (i, name, kind, st) in enumerate(owner):
        ok = res[j][0]
        ctx.obligation("cert:%s:%s#%d" % (items[i]["kind"], name, i), ok, "" if ok else ("refuted" if refuted.get(j) else "undecided") + " " + st[:300])
        per_item.setdefault(i, []).append((name, kind, st, ok, refuted.get(j, False), "" if ok else res[j][1][-400:]))
        ctx.count("cert:%s:%s" % (items[i]["kind"], name))
    for i, (it, out, lem, err) in enumerate(evald):
        fam = it.get("family", it["kind"])
        ctx.case(["cert", it], True, fam, sample={"entry": "cert", "input": it, "impl_output": out})
        if err is not None:
            ctx.obligation("cert:%s:finite#%d" % (it["kind"], i), False, err)
            ctx.violation("cert %s: valid input gives %s" % (it["kind"], err),
                          {"kind": "failing-input", "entry": "cert", "case": it, "impl_output": out, "error": err,
                           "class": "C09.%s:nonfinite-or-raises" % it["kind"]}, found_input=True)
            continue
        rows = per_item.get(i, [])
        bad_ok = [x for x in rows if x[1] == "ok" and not x[3]]
        bad_tie = [x for x in rows if x[1] == "tie" and not x[3]]
        for name, kind, st, ok, ref, msg in bad_ok:
            if ref:
                ctx.violation("cert %s: '%s' is refuted on the implementation's output (property as stated)" % (it["kind"], name),
                              {"kind": "failing-input", "entry": "cert", "case": it, "impl_output": out, "statement": st,
                               "class": "C09.%s:%s" % (it["kind"], name)}, found_input=True)
            else:
                ctx.count("undecided-certificates")
                ctx.violation("cert %s: '%s' could be neither proved nor refuted by interval arithmetic" % (it["kind"], name),
                              {"kind": "certificate-undecided", "entry": "cert", "case": it, "impl_output": out, "statement": st,
                               "coq": msg, "class": "C09.%s:%s:undecided" % (it["kind"], name),
                               "no_longer_checks": "certificate %s of %s" % (name, it["kind"])}, found_input=False)
        if bad_tie and not bad_ok:
            name, kind, st, ok, ref, msg = bad_tie[0]
            ctx.violation("cert %s: model <-> implementation tie '%s' broken (%s); the property certificates of this case hold"
                          % (it["kind"], name, "refuted" if ref else "undecided"),
                          {"kind": "correspondence", "entry": "cert", "case": it, "impl_output": out, "statement": st, "coq": msg,
                           "class": "C09.%s:%s" % (it["kind"], name),
                           "no_longer_checks": "correspondence C09.%s (Model.v = esutil.coords)" % it["kind"]}, found_input=False)


# ----------------------------------------------------------------------------------------------

TRUSTED = [
    "Coq 8.16.1 kernel (coqc, vm_compute; no native_compute); theorems of C09/Properties.v depend only on the standard library's "
    "real-number axioms (ClassicalDedekindReals.sig_forall_dec, sig_not_dec, FunctionalExtensionality.functional_extensionality_dep, "
    "Classical_Prop.classic) and, where closed by Interval (the 12 rows, documented constants, chains, every per-case certificate), "
    "on the stdlib specification axioms of primitive floats/ints (FloatAxioms.*, Uint63.*)",
    "hand-written real-number model C09/Model.v of euler + six wrappers, rotate, eq2xyz/xyz2eq, eq2sdss/sdss2eq, atbound/atbound2 (one array "
    "element) and exact-rational model of shiftlon/shiftra; ALL numeric constants (rotation tables, documented pole/node constants, SDSS "
    "parameters, range bounds, periods, comparison operators) and the shape flags (arctan2 vs arcsin latitude per routine, radian wrap of "
    "xyz2eq, second wrap of shiftlon) are regenerated from the esutil/coords.py under test on every run "
    "(harness/translate/c09_consts.py -> C09/Gen.v, fail-closed) and the theorems re-proved against them",
    "NOT proved: IEEE rounding of the formula chains and numpy/libm sin, cos, arctan2, sqrt, fmod -- measured instead: every sampled output "
    "of the real code is certified by a kernel-checked interval enclosure (tie: within 1e-12 rad of the real-number model; property: the "
    "statement's tolerance on the sky) -- partial w.r.t. rounding (DESIGN 3.3-R); real PI stands for math.pi and np.deg2rad/rad2deg",
    "numpy array layer (ndmin=1 copies, masks, in-place ufuncs) is not modelled; checked per run on exact values: array call = scalar calls, "
    "inputs not modified, output lengths",
    "python harness (harness/props/C09.py, harness/translate/c09_consts.py), binary64 -> exact rational printers core.cR/core.cQ, coqc "
    "evaluating Exec.v verdict terms; TOL_SHIFT = 1e-9 degree is used for shiftlon only where its binary64 sums are inexact "
    "(exactly representable cases are checked with tolerance 0)",
]


def proof_step_retry(ctx, attempts=3):
    """core.proof_step, repeated when (and only when) the Print-Assumptions coqc process did not run to completion
    (`<compile>`: on a loaded machine without swap the kernel's OOM killer takes coqc processes at random); a genuine
    compile error or a forbidden axiom recurs and is reported after the last attempt"""
    for k in range(attempts):
        marks = (len(ctx.violations), len(ctx.obligations), len(ctx.assumptions_txt), len(ctx.checker_cmds), len(ctx.notes))
        if core.proof_step(ctx, "C09", core.ALLOW_INTERVAL, extra_targets=["theories/C09/DeepProperties.vo"]):
            return True
        new = ctx.violations[marks[0]:]
        infra = len(new) == 1 and "outside the allow-list" in new[0]["what"] and "'<compile>'" in new[0]["what"]
        if not infra or k == attempts - 1:
            return False
        del ctx.violations[marks[0]:]
        del ctx.obligations[marks[1]:]
        del ctx.assumptions_txt[marks[2]:]
        del ctx.checker_cmds[marks[3]:]
        del ctx.notes[marks[4]:]
        ctx.count("retries:print-assumptions-process-did-not-complete")
        time.sleep(5)
    return False


GEN_V = os.path.join(core.COQDIR, "theories", "C09", "Gen.v")
GEN_GOOD = GEN_V + ".good"


def restore_good_gen(ctx, why):
    """put the last good Gen.v back (-> True when Gen.v changed)"""
    if not os.path.exists(GEN_GOOD):
        ctx.count("gen-good:missing")
        return False
    good = open(GEN_GOOD).read()
    cur = open(GEN_V).read() if os.path.exists(GEN_V) else None
    ctx.count("gen-good:restored (%s)" % why)
    if cur == good:
        return False
    tmp = GEN_V + ".tmp.%d" % os.getpid()
    with open(tmp, "w") as f:
        f.write(good)
    os.replace(tmp, GEN_V)
    return True


def remember_good_gen(ctx):
    """after a completely green run on /repo itself: this Gen.v is the last good one"""
    if core.REPO != "/repo" or ctx.violations or any(not ok for _, ok in ctx.obligations):
        return
    cur = open(GEN_V).read()
    if not os.path.exists(GEN_GOOD) or open(GEN_GOOD).read() != cur:
        tmp = GEN_GOOD + ".tmp.%d" % os.getpid()
        with open(tmp, "w") as f:
            f.write(cur)
        os.replace(tmp, GEN_GOOD)


def deep_step_start(ctx):
    """Print Assumptions over the theorems of C09/DeepProperties.v (proof-deepening round; built by the proof step as an
    extra target), run in a thread next to the case evaluation: -> (theorem names, future)"""
    from concurrent.futures import ThreadPoolExecutor
    path = os.path.join(core.COQDIR, "theories", "C09", "DeepProperties.v")
    thms = core.theorems_in(path)
    ex = ThreadPoolExecutor(1)
    fut = ex.submit(core.assumptions, os.path.join(ctx.work, "deep"), "C09.DeepProperties", thms, core.ALLOW_INTERVAL)
    ex.shutdown(wait=False)
    return thms, fut


def deep_step_finish(ctx, thms, fut):
    res, bad, raw = fut.result()
    for _attempt in range(2):
        if not any(t == "<compile>" for t, _ in bad):
            break
        # the coqc process did not run to completion (killed or timed out on an overloaded machine): once more, alone
        ctx.count("retries:print-assumptions-process-did-not-complete")
        time.sleep(5)
        res, bad, raw = core.assumptions(os.path.join(ctx.work, "deep%d" % _attempt), "C09.DeepProperties", thms,
                                         core.ALLOW_INTERVAL, timeout=1500)
    ctx.checker_cmds.append("coqc Print Assumptions <each theorem of C09/DeepProperties.v>")
    badthm = set(t for t, _ in bad)
    axs = set()
    for t in thms:
        ctx.obligation("C09.DeepProperties.%s" % t, t not in badthm and "<compile>" not in badthm)
        for a in (res or {}).get(t, []):
            axs.add(a)
    ctx.assumptions_txt.append("Print Assumptions over %d theorems of C09/DeepProperties.v: %s" % (
        len(thms), ("axioms used: " + ", ".join(sorted(axs))) if axs else "all closed under the global context"))
    if bad:
        ctx.violation("theorem of C09/DeepProperties.v depends on an axiom outside the allow-list (or Print Assumptions did not run): %s" % bad[:3],
                      {"kind": "assumptions", "bad": [list(b) for b in bad][:10]}, found_input=False)


def run(ctx, replay=None):
    ctx.rule = ("points of the sphere from the families of the quantifier (uniform; poles of the source system; pre-images of the target "
                "system's poles and points 1e-10..1e-2 deg from them; lon in {0,360}; the SDSS node (95,0)/(275,0) and survey poles) for all "
                "6 selectors x {J2000,B1950} through euler and the named wrappers, random/special Euler angles for rotate, deg/rad x "
                "stomp for unit vectors, scalar and array calls; pairs (any / 1e-9..1 deg apart / nearly antipodal) for separations; "
                "shifts: boundaries, tiny, huge, exactly representable and generic, wrap on/off.  Every call: exact-rational checks in Coq "
                "(finite, ranges, unit length, forms identical); sampled points: interval certificates (tie, inverse, separation, "
                "documented constants, chains).  non-trivial: shift != 0 or wrapping applies / range-rejection case not plainly inside / "
                "every certificate item; distinct by canonical JSON; families counted separately.")
    ctx.trusted = TRUSTED
    # 1. constants and shape flags from the source of the tree under check
    gen_ok = True
    try:
        consts, changed = c09_consts.regenerate(ctx.impl, core.COQDIR)
        ctx.obligation("Gen.v regenerated from esutil/coords.py%s" % (" [changed]" if changed else ""), True)
        flags = dict(consts["lat_atan2"], xyz2eq_rad_wrap=consts["xyz2eq_rad_wrap_2pi"])
        for k, v in sorted(flags.items()):
            ctx.count("shape:%s=%s" % (k, v))
        for k, v in sorted(consts["formulas"].items()):
            ctx.obligation("formulas of %s translated from the source (x, y, z as real-number terms)" % k, v is not None,
                           "" if v is not None else "the code does not form x, y, z (as-found shape): C09_source_formula_%s cannot hold" % k)
    except c09_consts.TranslateError as e:
        gen_ok = False
        ctx.obligation("Gen.v regenerated from esutil/coords.py", False, str(e))
        ctx.violation("translation of the constants/shape of esutil/coords.py failed: %s" % e,
                      {"kind": "translation", "error": str(e), "no_longer_checks": "tie of C09/Gen.v to esutil/coords.py"}, found_input=False)
        # no masking: the search for a failing input goes on against the LAST GOOD model (Gen.v.good, written by the last
        # green run on /repo), not against whatever an earlier run left in Gen.v
        restore_good_gen(ctx, "the translator failed closed")
    # 2. theorems (re-proved against the regenerated constants)
    proofs_ok = proof_step_retry(ctx)
    if not proofs_ok:
        # Exec.v depends on Gen/Model/Spec only: keep looking for a failing input
        ok, log = core.coq_make(["theories/C09/Exec.vo"])
        if not ok and restore_good_gen(ctx, "Exec.vo does not build on the regenerated Gen.v"):
            ok, log = core.coq_make(["theories/C09/Exec.vo"])
        if not ok:
            ctx.violation("the case evaluator C09/Exec.vo does not build even on the last good Gen.v: no case could be run",
                          {"kind": "proof-build", "log_tail": log[-2000:]}, found_input=False)
            return
    entries = [Shift(), Forms(), Reuse(), History(), SdssReject()]
    if replay is not None and replay.get("entry") == "cert":
        certify(ctx, [dict(replay["case"])], "replay")
        return
    # 3. exact-rational checks (the assumptions of the second theorem file are printed meanwhile)
    deep = deep_step_start(ctx) if (replay is None and proofs_ok) else None
    differential(ctx, PRE_Q, entries, replay)
    if replay is not None:
        return
    # 4. certificates: corpus first, then generated
    t0 = time.time()
    items = [dict((k, v) for k, v in c.items() if k != "entry") for c in corpus_cases("C09", "cert")]
    items += cert_items(ctx)
    certify(ctx, items, "cert")
    ctx.count("wall_s:certificates", round(time.time() - t0, 1))
    if deep is not None:
        deep_step_finish(ctx, *deep)
    if gen_ok and proofs_ok:
        remember_good_gen(ctx)

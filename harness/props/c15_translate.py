"""
C15 — source-tied inventory of the quantifier ("for every public array-taking function in the listed
families ... for every option combination ...").  Regenerated from the sources of the scratch build on
every run, FAIL CLOSED:

  inventory(root)        every public function / public method of a public class (plus __init__) of the
                         anchored python modules, with its parameter names, read from the `ast`
  covered(drivers)       the public callables each driver text actually calls (resolved from the driver's ast:
                         `module.fn(...)`, `module.sub.fn(...)`, `obj.method(...)` where obj was bound to
                         `module.Class(...)` / `Class(...)`, also through `with ... as obj`)
  check(root, drivers)   -> list of problems:
       * a public callable of an anchored module that is neither called by a driver nor listed in OUT_OF_SCOPE
         (somebody added a function: the driver list no longer covers the quantifier)
       * a callable whose parameter list differs from SIGNATURES (an option was added / removed / renamed: the
         option valuations of its drivers must be reviewed)
       * an entry of OUT_OF_SCOPE / SIGNATURES that no longer exists (renamed or removed)
Also a fail-closed scan of the C-entry-point table against the SWIG / C sources (ctable_problems): every
entry point named in the extractor's C_TABLE must exist in the wrapped sources, and every method of the
wrapped classes must be in the table.
"""
import ast
import os
import re

MODULES = {          # alias used in the drivers -> source file (relative to the build root)
    "numpy_util": "esutil/numpy_util.py",
    "stat": "esutil/stat/util.py",
    "coords": "esutil/coords.py",
    "wcsutil": "esutil/wcsutil.py",
    "cosmology": "esutil/cosmology/cosmology.py",
    "htm": "esutil/htm/htm.py",
    "recfile": "esutil/recfile/Util.py",
    "sfile": "esutil/sfile.py",
    "integrate": "esutil/integrate/util.py",
    "random": "esutil/random.py",
}
SUBMODULE_ATTRS = {("recfile", "Util"): "recfile", ("htm", "htm"): "htm", ("stat", "util"): "stat", ("cosmology", "cosmology"): "cosmology"}
CLASS_ALIASES = {"SFile": ("sfile", "SFile"), "Recfile": ("recfile", "Recfile")}     # names imported directly by the driver prelude
NOT_ANCHORED_MODULES = {"io", "np", "numpy", "esutil"}


def inventory(root):
    """{"alias:qualname": [parameter names without self]}"""
    inv = {}
    for alias, rel in MODULES.items():
        tree = ast.parse(open(os.path.join(root, rel)).read())
        for n in tree.body:
            if isinstance(n, ast.FunctionDef) and not n.name.startswith("_"):
                inv["%s:%s" % (alias, n.name)] = params(n, False)
            elif isinstance(n, ast.ClassDef) and not n.name.startswith("_"):
                for k in n.body:
                    if isinstance(k, ast.FunctionDef) and (not k.name.startswith("_") or k.name == "__init__"):
                        inv["%s:%s.%s" % (alias, n.name, k.name)] = params(k, True)
                    elif isinstance(k, ast.Assign) and isinstance(k.value, ast.Name):      # alias `Write = write`
                        for t in k.targets:
                            if isinstance(t, ast.Name) and not t.id.startswith("_"):
                                inv["%s:%s.%s" % (alias, n.name, t.id)] = ["=" + k.value.id]
    return inv


def params(fn, method):
    a = fn.args
    names = [x.arg for x in a.posonlyargs + a.args]
    if method:
        names = names[1:]
    if a.vararg:
        names.append("*" + a.vararg.arg)
    names += [x.arg for x in a.kwonlyargs]
    if a.kwarg:
        names.append("**" + a.kwarg.arg)
    return names


def classes_of(inv):
    out = {}
    for k in inv:
        alias, q = k.split(":")
        if "." in q:
            out.setdefault((alias, q.split(".")[0]), set()).add(q.split(".")[1])
    return out


def covered(driver_src, inv):
    """set of "alias:qualname" called by one driver"""
    cls = classes_of(inv)
    tree = ast.parse(driver_src)
    objtype = {}       # local name -> (alias, Class)
    out = set()

    def resolve(node):
        """dotted name -> ('fn', alias, name) | ('class', alias, Class) | ('meth', alias, Class, name) | None"""
        if isinstance(node, ast.Name):
            if node.id in CLASS_ALIASES:
                return ("class",) + CLASS_ALIASES[node.id]
            return None
        if isinstance(node, ast.Attribute):
            v = node.value
            if isinstance(v, ast.Name):
                if v.id in objtype:
                    return ("meth",) + objtype[v.id] + (node.attr,)
                if v.id in MODULES:
                    if (v.id, node.attr) in cls:
                        return ("class", v.id, node.attr)
                    return ("fn", v.id, node.attr)
            if isinstance(v, ast.Attribute) and isinstance(v.value, ast.Name) and (v.value.id, v.attr) in SUBMODULE_ATTRS:
                alias = SUBMODULE_ATTRS[(v.value.id, v.attr)]
                if (alias, node.attr) in cls:
                    return ("class", alias, node.attr)
                return ("fn", alias, node.attr)
        return None

    def bind(target, value):
        if isinstance(target, ast.Name) and isinstance(value, ast.Call):
            r = resolve(value.func)
            if r and r[0] == "class":
                objtype[target.id] = (r[1], r[2])

    for n in ast.walk(tree):           # bindings first (drivers are straight-line code)
        if isinstance(n, ast.Assign) and len(n.targets) == 1:
            bind(n.targets[0], n.value)
        elif isinstance(n, ast.With):
            for it in n.items:
                if it.optional_vars is not None:
                    bind(it.optional_vars, it.context_expr)
    for n in ast.walk(tree):
        if isinstance(n, ast.Call):
            r = resolve(n.func)
            if not r:
                continue
            if r[0] == "fn":
                out.add("%s:%s" % (r[1], r[2]))
            elif r[0] == "class":
                out.add("%s:%s.__init__" % (r[1], r[2]))
            else:
                out.add("%s:%s.%s" % (r[1], r[2], r[3]))
    return out


# ------------------------------------------------------------------------------------------------------
# public callables of the anchored modules that are NOT driven, each with the reason (reviewed by hand)
# ------------------------------------------------------------------------------------------------------
_NOARR = "takes no array argument (scalars / strings / dicts / file names only)"
_PRINT = "array printing / formatting helper, not in the families listed by the statement"
_READ = "reads a file into NEW arrays (C02/C03); its array-like arguments are row/column selectors documented as inputs only; not a listed family"
_INTERNAL = "internal step of WCS construction / inversion working on the object's own header copy; reached through the driven public methods"
_STATE = "accessor of object state, no array argument"
OUT_OF_SCOPE = {
    "numpy_util:ahelp": _PRINT, "numpy_util:aprint": _PRINT, "numpy_util:arr2str": _PRINT,
    "numpy_util:ArrayStringifier.__init__": _PRINT, "numpy_util:ArrayStringifier.stringify": _PRINT,
    **{"numpy_util:ArrayWriter." + m: _PRINT for m in ("__init__", "set_defaults", "set_keywords", "open", "write", "simple_write",
                                                      "latex_write", "fancy_write", "write_array", "close")},
    "numpy_util:make_xy_grid": _NOARR, "numpy_util:replicate": _NOARR,
    "numpy_util:dict2array": "takes a dict (builds a new array)", "numpy_util:dictlist2array": "takes a list of dicts (builds a new array)",
    "coords:dec_parse": _NOARR, "coords:ra_parse": _NOARR, "coords:fitsheader2dict": _NOARR, "coords:randsphere": _NOARR,
    "wcsutil:make_xy_grid": _NOARR, "wcsutil:Ncoeff": _NOARR,
    "wcsutil:pack_coeffs": "helper of Invert2DPolynomial (driven with pack=True)",
    **{"wcsutil:WCS." + m: _INTERNAL for m in ("ExtractProjection", "CreateRotationMatrix", "InvertDistortion", "InvertPVDistortion",
                                               "InvertSipDistortion", "GetPole", "ConvertWCS", "SetAngles", "ExtractUnits",
                                               "ExtractDistortCoeffs", "ExtractPVCoeffs", "ExtractSIPCoeffs", "ExtractDistortionModel",
                                               "ExtractFromWCS")},
    "wcsutil:WCS.keys": _STATE, "wcsutil:WCS.get_naxis": _STATE,
    **{"cosmology:Cosmo." + m: _STATE for m in ("H0", "DH", "flat", "omega_m", "omega_l", "omega_k", "copy", "extract_parms")},
    "cosmology:Cosmo.test": "self-test, no argument", "cosmology:Cosmo.test_vs_purepy": "self-test, no array argument",
    "htm:HTM.get_depth": _STATE, "htm:HTM.get_area": _STATE, "htm:HTM.get_ntriangles": _STATE, "htm:Matcher.get_depth": _STATE,
    "htm:HTM.intersect": "scalar arguments only (the SWIG wrapper rejects arrays, including 0-d arrays, with TypeError)",
    "htm:HTM.match_prepare": "deprecated: raises RuntimeError on entry",
    "htm:HTM.read": _NOARR, "htm:read_pairs": _NOARR, "htm:log_bins": _NOARR, "htm:check_filename": _NOARR,
    "recfile:read": _READ, "recfile:Open": _NOARR, "recfile:Recfile.open": _NOARR, "recfile:Recfile.close": _STATE,
    "recfile:Recfile.get_colnum": _NOARR, "recfile:Recfile.get_colnums": _NOARR, "recfile:Recfile.read": _READ,
    "recfile:Recfile.get_memmap": _STATE, "recfile:Recfile.get_subset": _READ,
    "recfile:RecfileSubset.__init__": _READ, "recfile:RecfileSubset.read": _READ, "recfile:RecfileSubset.get_subset": _READ,
    "recfile:RecfileColumnSubset.__init__": _READ, "recfile:RecfileColumnSubset.read": _READ,
    "recfile:isstring": _NOARR, "recfile:remove_dtype_byteorder": "takes a dtype", "recfile:is_little_endian": "takes a dtype",
    "sfile:SFile.open": _NOARR, "sfile:SFile.close": _STATE, "sfile:SFile.get_nrows": _STATE, "sfile:SFile.nrows": _STATE,
    "sfile:SFile.dtype": _STATE, "sfile:SFile.get_header": _STATE, "sfile:SFile.get_mode": _STATE, "sfile:SFile.get_filename": _STATE,
    "sfile:SFile.read": _READ, "sfile:SFile.read_header": _STATE, "sfile:read": _READ, "sfile:read_header": _NOARR,
    "sfile:isstring": _NOARR, "sfile:Open": _NOARR,
    # integrate / random generators (added in the follow-up round on the coordinator's list of families)
    "integrate:QGauss.setup": _NOARR, "integrate:QGauss.test_gauss_data": "self-test", "integrate:QGauss.test_gauss_func": "self-test",
    "integrate:QGauss2.__init__": _NOARR, "integrate:QGauss2.gaussfunc": "test integrand of the self-test",
    "integrate:QGauss2.integrate_func": "takes two (lo, hi) ranges and a function; builds its own grids", "integrate:QGauss2.test_gauss_func": "self-test",
    "integrate:gauleg": _NOARR,
    "random:CutGenerator.__init__": "takes a function and a range", "random:CutGenerator.generate_cut_values": _NOARR,
    "random:CutGenerator.genrand": _NOARR, "random:CutGenerator.test": "self-test",
    "random:Generator.generate_cut_values": _NOARR, "random:Generator.initialize_func": _STATE, "random:Generator.initialize_points": _STATE,
    "random:Generator.test": "self-test",
    **{"random:%s.%s" % (c, m): _STATE for c in ("Normal", "LogNormal")
       for m in ("get_dist_name", "get_max", "get_max_lnprob", "get_mean", "get_mode", "get_sigma")},
    "random:Normal.sample": _NOARR, "random:LogNormal.sample": _NOARR,
    "random:get_dist": "takes a type name and a parameter list", "random:randind": _NOARR, "random:random_indices": _NOARR, "random:srandu": _NOARR,
}

# parameter lists of the DRIVEN callables at the time the option valuations of the drivers were chosen
SIGNATURES = {}      # filled from _SIG_TEXT below


_SIG_TEXT = """
coords:atbound = longitude,minval,maxval
coords:atbound2 = theta,phi
coords:ec2eq = lam,beta,b1950,dtype
coords:ec2gal = lam,beta,b1950,dtype
coords:eq2ec = ra,dec,b1950,dtype
coords:eq2gal = ra,dec,b1950,dtype
coords:eq2sdss = ra_in,dec_in,dtype
coords:eq2xyz = ra,dec,dtype,units,stomp
coords:euler = ai,bi,select,b1950,dtype
coords:gal2ec = gal_l,gal_b,b1950,dtype
coords:gal2eq = gal_l,gal_b,b1950,dtype
coords:gcirc = ra1deg,dec1deg,ra2deg,dec2deg,getangle
coords:radec2aitoff = ra,dec
coords:randcap = nrand,ra,dec,rad,get_radius,dorot,rng
coords:randcap_brute = nrand,ra,dec,rad,get_radius
coords:rect_area = lon_min,lon_max,lat_min,lat_max
coords:rotate = phi,theta,psi,ra,dec
coords:sdss2eq = clambda_in,ceta_in,dtype
coords:shiftlon = lon_input,shift,wrap
coords:shiftra = ra,shift,wrap
coords:sphdist = ra1,dec1,ra2,dec2,units
coords:xyz2eq = xin,yin,zin,units,stomp
cosmology:Cosmo.Da = zmin,zmax
cosmology:Cosmo.Dc = zmin,zmax
cosmology:Cosmo.Dl = zmin,zmax
cosmology:Cosmo.Dm = zmin,zmax
cosmology:Cosmo.Ez_inverse = z
cosmology:Cosmo.Ezinv_integral = zmin,zmax
cosmology:Cosmo.V = zmin,zmax
cosmology:Cosmo.__init__ = H0,h,flat,omega_m,omega_l,omega_k
cosmology:Cosmo.dV = z
cosmology:Cosmo.distmod = z
cosmology:Cosmo.sigmacritinv = zl,zs
htm:HTM.bincount = rmin,rmax,nbin,ra1,dec1,ra2,dec2,scale,htmid2,htmrev2,minid,maxid,getbins,verbose
htm:HTM.cylmatch = ra1,dec1,z1,ra2,dec2,z2,radius,dz,maxmatch,unique,nkeep,**kw
htm:HTM.lookup_id = ra,dec
htm:HTM.match = ra1,dec1,ra2,dec2,radius,maxmatch,htmid2,htmrev2,minid,maxid,file,verbose
htm:Matcher.__init__ = depth,ra,dec
htm:Matcher.match = ra,dec,radius,maxmatch,file
htm:gmean = r1,r2,dim
integrate:QGauss.__init__ = npts
integrate:QGauss.gaussfunc = xvals
integrate:QGauss.integrate = xvals,yvals_or_func,npts
integrate:QGauss.integrate_data = xvals,yvals,npts
integrate:QGauss.integrate_func = xvals,func,npts
integrate:qgauss = x,y,npts
numpy_util:add_fields = arr,add_dtype_or_descr,defaults
numpy_util:arrscl = arr,minval,maxval,arrmin,arrmax,dtype
numpy_util:between = arr,lowval,highval,type
numpy_util:byteswap = array,inplace,keep_dtype
numpy_util:combine_arrlist = arrlist,keep
numpy_util:combine_fields = arrlist
numpy_util:compare_arrays = arr1,arr2,verbose,ignore_missing
numpy_util:copy_fields = arr1,arr2
numpy_util:copy_fields_by_name = arr,names,vals
numpy_util:descr_to_native = descr
numpy_util:extract_fields = arr,keepnames,strict
numpy_util:is_big_endian = array
numpy_util:is_little_endian = array
numpy_util:match = arr1input,arr2input,presorted
numpy_util:match_multi = arr1input,arr2input,presorted
numpy_util:outside = arr,lowval,highval,type
numpy_util:rem_dup = arr,flag,values
numpy_util:remove_fields = arr,rmnames
numpy_util:reorder_fields = arr,ordered_names,strict
numpy_util:select_percentile = x,perc,get_ranges,**keys
numpy_util:split_fields = data,fields,getnames
numpy_util:splitarray = nper,var_input
numpy_util:strmatch = arr,regex
numpy_util:to_big_endian = array,inplace,keep_dtype
numpy_util:to_little_endian = array,inplace,keep_dtype
numpy_util:to_native = array,inplace,keep_dtype
numpy_util:unique = arr,values
numpy_util:where1 = conditional_expression
random:CholeskySampler.__init__ = mean,cov,dist
random:CholeskySampler.sample = n
random:Generator.__init__ = pofx,x,xrange,nx,method,cumulative,seed,rng
random:Generator.sample = numrand,**kw
random:LogNormal.__init__ = mean,sigma
random:LogNormal.lnprob = x
random:LogNormal.prob = x
random:Normal.__init__ = mean,sigma
random:Normal.lnprob = x
random:Normal.prob = x
random:NormalND.__init__ = mean,sigma
random:NormalND.get_max = 
random:NormalND.lnprob = pos
random:NormalND.sample = n
random:cholesky_sample = cov,n,means,dist
recfile:Recfile.__init__ = filename,mode,**keys
recfile:Recfile.close = 
recfile:Recfile.write = data
recfile:split_fields = data,fields,getnames
recfile:to_native = array
recfile:to_native_inplace = array
recfile:write = filename,data,mode,**keys
sfile:SFile.__init__ = filename,mode,delim,padnull,ignorenull,**keys
sfile:SFile.close = 
sfile:SFile.write = data,header
sfile:reduce_array = data
sfile:split_fields = data,fields,getnames
sfile:write = outfile,data,**keys
stat:Binner.__init__ = x,y,weights
stat:Binner.calc_stats = 
stat:Binner.dohist = binsize,nbin,nperbin,min,max,rev,mergelast,calc_stats
stat:boxcar_average = x,N
stat:cor2cov = cor,diagerr
stat:cov2cor = cov
stat:get_stats = arr_in,weights,doprint,**kw
stat:histogram = data,weights,binsize,nbin,nperbin,mergelast,min,max,rev,more,**keys
stat:histogram2d = x,y,z,weights,nx,ny,xbin,ybin,xmin,xmax,ymin,ymax,rev,more,**kw
stat:interplin = vin,xin,uin
stat:print_stats = arr,nsigma,**kw
stat:sigma_clip = arrin,weights,niter,nsig,get_err,get_indices,extra,verbose,silent,**ignored_kw
stat:wmedian = arr_in,weights_in
stat:wmom = arrin,weights_in,inputmean,calcerr,sdev,**ignored_kw
wcsutil:Apply2DPolynomial = a,x,y
wcsutil:Invert2DPolynomial = u,v,x,y,porder,pack,constant
wcsutil:WCS.ApplyCDMatrix = x,y,inverse
wcsutil:WCS.Distort = x,y,inverse
wcsutil:WCS.Rotate = lon,lat,reverse,origin
wcsutil:WCS.__init__ = wcs,longpole,latpole,theta0
wcsutil:WCS.get_jacobian = x,y,distort,step
wcsutil:WCS.image2sky = x,y,distort
wcsutil:WCS.image2sph = x,y
wcsutil:WCS.sky2image = longitude,latitude,distort,find,xtol
wcsutil:WCS.sph2image = longitude,latitude
wcsutil:arrscl = arr,minval,maxval,arrmin,arrmax
wcsutil:invert_for_coeffs = amatrix,x,y,lsolve
wcsutil:make_amatrix = u,v,order,constant
wcsutil:wrap_ra_diff = dra
"""


def load_signatures():
    if not SIGNATURES:
        for line in _SIG_TEXT.strip().splitlines():
            k, _, v = line.partition(" = ")
            SIGNATURES[k.strip()] = [x for x in v.strip().split(",") if x]
    return SIGNATURES


def check(root, drivers):
    """-> (problems: list of str, stats: dict)"""
    inv = inventory(root)
    cov = {}
    for d in drivers:
        if d.get("needs") and d["needs"] not in inv:
            continue                                           # skipped driver (helper of a later fix: commit)
        for k in covered(d["src"], inv):
            cov.setdefault(k, []).append(d["name"])
    sig = load_signatures()
    problems = []
    def status(k):
        if inv[k][:1] and inv[k][0].startswith("="):       # class-level alias `Write = write`: same status as its target
            tgt = k.rsplit(".", 1)[0] + "." + inv[k][0][1:]
            return k in cov or k in OUT_OF_SCOPE or (tgt in inv and (tgt in cov or tgt in OUT_OF_SCOPE))
        return k in cov or k in OUT_OF_SCOPE

    clsnames = {"%s:%s" % c for c in classes_of(inv)}
    for k in sorted(inv):
        if not status(k):
            problems.append("public callable %s(%s) of %s is neither driven nor listed as out of scope" % (k, ", ".join(inv[k]), MODULES[k.split(":")[0]]))
    for k in sorted(cov):
        if k.endswith(".__init__") and k[:-9] in clsnames and k not in inv:
            continue                                           # constructor inherited (HTM <- SWIG class HTMC)
        if k.split(":")[0] in MODULES and k not in inv:
            problems.append("driver(s) %s call %s, which is not a public callable of the sources" % (cov[k][:3], k))
        elif k in inv and sig.get(k) != inv[k]:
            problems.append("parameter list of driven callable %s changed: recorded (%s), source (%s): review the option valuations of %s"
                            % (k, ", ".join(sig.get(k) or ["<not recorded>"]), ", ".join(inv[k]), cov[k][:4]))
    for k in sorted(OUT_OF_SCOPE):
        if k not in inv:
            problems.append("OUT_OF_SCOPE names %s, which no longer exists in the sources" % k)
    return problems, {"public_callables": len(inv), "driven": len([k for k in cov if k in inv]),
                      "out_of_scope": len([k for k in OUT_OF_SCOPE if k in inv and k not in cov])}


def dump_signatures(root, drivers):
    """text for _SIG_TEXT (run by hand when the drivers are reviewed)"""
    inv = inventory(root)
    keys = set()
    for d in drivers:
        keys |= covered(d["src"], inv)
    return "\n".join("%s = %s" % (k, ",".join(inv[k])) for k in sorted(keys) if k in inv)


# ------------------------------------------------------------------------------------------------------
# C entry points: the table of the extractor against the wrapped sources
# ------------------------------------------------------------------------------------------------------
SWIG_CLASSES = {     # C_TABLE prefix -> (header / interface file, class name)
    "htmc.HTMC": ("esutil/htm/htmc.h", "HTMC"),
    "htmc.Matcher": ("esutil/htm/htmc.h", "Matcher"),
    "records.Records": ("esutil/recfile/records.hpp", "Records"),
}


def swig_methods(root, rel, cls):
    """public method names of a C++ class declared in a header (very small parser, fail closed: returns None when the class
    body cannot be delimited)"""
    p = os.path.join(root, rel)
    if not os.path.exists(p):
        return None
    txt = open(p).read()
    txt = re.sub(r"/\*.*?\*/", "", txt, flags=re.S)
    txt = re.sub(r"//[^\n]*", "", txt)
    m = re.search(r"\bclass\s+%s\b[^;{]*\{" % re.escape(cls), txt)
    if not m:
        return None
    i, depth = m.end(), 1
    while i < len(txt) and depth:
        depth += {"{": 1, "}": -1}.get(txt[i], 0)
        i += 1
    if depth:
        return None
    body = txt[m.end():i - 1]
    # drop nested braces (inline bodies)
    flat, depth = [], 0
    for ch in body:
        if ch == "{":
            depth += 1
        elif ch == "}":
            depth -= 1
        elif depth == 0:
            flat.append(ch)
    body = "".join(flat)
    public, names = False, set()
    for seg in re.split(r"\b(public|private|protected)\s*:", body):
        if seg in ("public", "private", "protected"):
            public = seg == "public"
            continue
        if public:
            for mm in re.finditer(r"([~\w]+)\s*\(", seg):
                names.add(mm.group(1))
    return names


def ctable_problems(root, c_table):
    problems = []
    for prefix, (rel, cls) in SWIG_CLASSES.items():
        meths = swig_methods(root, rel, cls)
        if meths is None:
            problems.append("cannot find class %s in %s (C entry-point table cannot be compared with the sources)" % (cls, rel))
            continue
        meths = {m for m in meths if not m.startswith("~") and m != cls and m not in ("throw", "if", "while", "for", "switch", "return", "sizeof", "operator")}
        listed = {k[len(prefix) + 1:] for k in c_table if k.startswith(prefix + ".")}
        for m in sorted(meths - listed):
            problems.append("C++ method %s::%s (%s) is not in the C entry-point table of the extractor" % (cls, m, rel))
    return problems


# ------------------------------------------------------------------------------------------------------
# C / C++ entry points: which ARRAY ARGUMENTS does each entry point write?  (fail-closed source scan)
#
# The extractor's C_TABLE says, per entry point, which positional arguments are written; everything else is
# assumed to be read "through const-style accessors only" (property anchors: htmc.cc, cosmolib_pywrap.c,
# chist_pywrap.c).  This scanner re-derives that table from the C sources of the scratch build:
#   * objects  = PyObject* parameters (C++ methods) / the &obj arguments of PyArg_ParseTuple (C wrappers), by position;
#   * pointers = variables assigned from PyArray_DATA(obj) / PyArray_GETPTR1..4(obj, ..) (casts ignored);
#   * a WRITE  = `p[..] op=`, `*p op=`, `(*p)++`, `*(T*)PyArray_GETPTRn(obj, ..) op=`, `((T*)PyArray_DATA(obj))[..] op=`,
#                or p / PyArray_DATA(obj) passed to memcpy/memset/memmove/fread/sscanf/fscanf/qsort;
#   * an ESCAPE = a pointer or an array object handed to any other function that is not in READ_ONLY_CALLEES, or stored
#                in a member / global: reported as a problem (the scanner does not follow it).
# It is a syntactic scan (no preprocessor, no aliasing through structs): listed as trusted, validated by the dynamic
# run, which observes the real memory.
# ------------------------------------------------------------------------------------------------------
C_SOURCES = {
    # file -> (style, mapping of C function / method name -> C_TABLE key or None to use the PyMethodDef table)
    "esutil/stat/chist_pywrap.c": ("pywrap", "_chist"),
    "esutil/cosmology/cosmolib_pywrap.c": ("pywrap", "_cosmolib.cosmo"),
    "esutil/htm/htmc.cc": ("cxx", "htmc"),
    "esutil/integrate/cgauleg_pywrap.c": ("pywrap", "_cgauleg"),
}
WRITERS = {"memcpy", "memset", "memmove", "fread", "sscanf", "fscanf", "qsort", "strcpy", "strncpy", "sprintf", "snprintf"}
READ_ONLY_CALLEES = {
    # numpy C-API accessors / queries that do not write the array's data
    "PyArray_SIZE", "PyArray_DATA", "PyArray_GETPTR1", "PyArray_GETPTR2", "PyArray_GETPTR3", "PyArray_GETPTR4", "PyArray_NDIM", "PyArray_DIM",
    "PyArray_DIMS", "PyArray_STRIDES", "PyArray_STRIDE", "PyArray_TYPE", "PyArray_ITEMSIZE", "PyArray_NBYTES", "PyArray_Check",
    "PyArray_ISCONTIGUOUS", "PyArray_DESCR", "PyArray_ISCARRAY", "PyArray_ISCARRAY_RO", "PyArray_FLAGS", "Py_INCREF", "Py_XINCREF",
    "Py_DECREF", "Py_XDECREF", "PyArg_ParseTuple", "Py_BuildValue", "PyTuple_SetItem", "PyTuple_SET_ITEM", "PyList_Append",
    "PyObject_Print", "sizeof", "if", "while", "for", "switch", "return",
}
ALLOCATORS = ("PyArray_ZEROS", "PyArray_EMPTY", "PyArray_SimpleNew", "PyArray_NewLikeArray", "PyArray_New", "PyArray_FROM_OTF",
              "PyArray_Zeros", "PyArray_Empty", "PyArray_NewCopy", "PyArray_FromAny", "PyArray_ContiguousFromAny")


def _strip_c(txt):
    txt = re.sub(r"/\*.*?\*/", " ", txt, flags=re.S)
    txt = re.sub(r"//[^\n]*", " ", txt)
    txt = re.sub(r'"(\\.|[^"\\])*"', '""', txt)
    txt = re.sub(r"'(\\.|[^'\\])'", "' '", txt)
    return txt


def _functions(txt):
    """[(name, params_text, body_text)] of every function DEFINITION at brace depth 0"""
    out, i, n = [], 0, len(txt)
    depth = 0
    pos = 0
    while pos < n:
        ch = txt[pos]
        if ch == "{":
            if depth == 0:
                # look back for `name ( params ) [throw (...)] [const]` directly before this brace
                head = txt[max(0, pos - 1500):pos]
                m = re.search(r"([A-Za-z_][\w:~]*)\s*\(([^()]*(?:\([^()]*\)[^()]*)*)\)\s*(?:const\s*)?(?:throw\s*\([^)]*\)\s*)?$", head, re.S)
                j, d = pos + 1, 1
                while j < n and d:
                    d += {"{": 1, "}": -1}.get(txt[j], 0)
                    j += 1
                if m and m.group(1) not in ("if", "while", "for", "switch", "catch"):
                    out.append((m.group(1), m.group(2), txt[pos + 1:j - 1]))
                pos = j
                continue
        pos += 1
    return out


_ACC = r"PyArray_(?:DATA|GETPTR[1-4])\s*\(\s*(?:\(\s*PyArrayObject\s*\*\s*\)\s*)?(?:this\s*->\s*)?([A-Za-z_]\w*)"
_ASSIGN_OP = r"(?:=(?!=)|\+=|-=|\*=|/=|%=|\|=|&=|\^=|<<=|>>=|\+\+|--)"


def scan_function(params, body, style):
    """-> (objs: {name: position or None}, writes: set of obj names, escapes: set of text)"""
    objs = {}
    if style == "cxx":
        k = 0
        for prm in [x.strip() for x in params.split(",") if x.strip()]:
            m = re.match(r"(?:const\s+)?PyObject\s*\*\s*(\w+)$", prm)
            if m:
                objs[m.group(1)] = k
            k += 1
    else:
        m = re.search(r"PyArg_ParseTuple\s*\(\s*args\s*,\s*(?:\(\s*char\s*\*\s*\)\s*)?\"\"((?:\s*,\s*&\s*\w+)*)\s*\)", body)
        if m:
            names = re.findall(r"&\s*(\w+)", m.group(1))
            decl = set(re.findall(r"PyObject\s*\*\s*(\w+)", body))
            decl |= set(re.findall(r",\s*\*\s*(\w+)\s*(?:=\s*NULL)?", " ".join(re.findall(r"PyObject\s*\*[^;]*;", body))))
            for k, nm in enumerate(names):
                if nm in decl:
                    objs[nm] = k
    # objects allocated here are outputs (fresh memory)
    fresh = set()
    for m in re.finditer(r"(\w+)\s*=\s*(?:\([^()]*\)\s*)?(%s)\s*\(" % "|".join(ALLOCATORS), body):
        fresh.add(m.group(1))
    # pointer variables derived from an object
    ptr = {}
    for m in re.finditer(r"(\w+)\s*=\s*(?:\([^()]*\)\s*)*" + _ACC, body):
        ptr.setdefault(m.group(1), set()).add(m.group(2))
    writes, escapes = set(), set()
    for p_, os_ in ptr.items():
        for o in os_:
            if o not in objs and o not in fresh and style == "pywrap":
                escapes.add("pointer %s is derived from %s, which is neither a parsed argument nor allocated here" % (p_, o))

    def hit(obj, what):
        if obj in fresh:
            return
        if obj in objs:
            writes.add(obj)
        elif obj in ("self",):
            return
        else:
            # a member (this->ra) or a local that holds an argument object: resolve one level
            escapes.add("write through %s (%s), which is not a parsed argument" % (obj, what))

    for p, os_ in ptr.items():
        pat = r"(?:\*\s*%s\b|\(\s*\*\s*%s\s*\)|\b%s\s*\[[^\]]*\])\s*%s" % (p, p, p, _ASSIGN_OP)
        # exclude declarations `T *p = ...` : a `*p =` directly preceded by a type name is the initialisation of p itself
        for m in re.finditer(pat, body):
            pre = body[max(0, m.start() - 40):m.start()]
            if re.search(r"[\w>]\s*$", pre) and m.group(0).lstrip().startswith("*") and not re.search(r"[;{}(,=]\s*$", pre):
                continue
            for o in os_:
                hit(o, "pointer %s" % p)
        if re.search(r"(?:\+\+|--)\s*\*\s*%s\b" % p, body):
            for o in os_:
                hit(o, "pointer %s" % p)
    for m in re.finditer(r"\*\s*\(\s*[\w\s]+\*\s*\)\s*" + _ACC + r"[^;=]*?\)\s*" + _ASSIGN_OP, body):
        hit(m.group(1), "direct GETPTR store")
    for m in re.finditer(r"\(\s*\(\s*[\w\s]+\*\s*\)\s*" + _ACC + r"\s*\)\s*\)\s*\[[^\]]*\]\s*" + _ASSIGN_OP, body):
        hit(m.group(1), "direct DATA store")
    # calls that receive a pointer / an array object
    for m in re.finditer(r"\b([A-Za-z_][\w:.>-]*)\s*\(([^;{}]*)\)", body):
        callee, argtxt = m.group(1).split("::")[-1].split(".")[-1].split("->")[-1], m.group(2)
        toks = set(re.findall(r"(?<![\w.>\[*])([A-Za-z_]\w*)(?!\s*[\[(\w])", re.sub(r"\*\s+", "*", argtxt)))   # `*p` passes a value
        for t in toks:
            tgt = None
            if t in ptr:
                tgt = ptr[t]
            elif t in objs:
                tgt = {t}
            if not tgt:
                continue
            if callee in WRITERS:
                first = argtxt.split(",")[0]
                if re.search(r"\b%s\b" % t, first) or callee in ("sscanf", "fscanf"):
                    for o in tgt:
                        hit(o, "passed to %s" % callee)
            elif callee not in READ_ONLY_CALLEES and not callee.startswith("PyArray_") and callee not in ALLOCATORS:
                escapes.add("%s passed to %s(...)" % (t, callee))
    # an argument object stored in a member / global
    for o in objs:
        if re.search(r"(?:this\s*->\s*\w+|self\s*->\s*\w+|\bm[A-Z]\w*)\s*=\s*(?:\([^()]*\)\s*)*%s\b" % o, body):
            escapes.add("argument %s stored in a member" % o)
    return objs, writes, escapes


def c_scan(root):
    """-> ({table key: sorted positions written}, problems)"""
    found, problems = {}, []
    for rel, (style, prefix) in C_SOURCES.items():
        p = os.path.join(root, rel)
        if not os.path.exists(p):
            problems.append("C source %s not found" % rel)
            continue
        txt = _strip_c(open(p).read())
        funcs = _functions(txt)
        if style == "pywrap":
            raw = open(p).read()
            table = {c: py for py, c in re.findall(r"\{\s*\"(\w+)\"\s*,\s*\(PyCFunction\)\s*(\w+)", raw)}
            if not table:
                problems.append("no PyMethodDef table found in %s" % rel)
            for name, params, body in funcs:
                if name not in table:
                    continue
                objs, writes, esc = scan_function(params, body, style)
                key = "%s.%s" % (prefix, table[name])
                found[key] = sorted(objs[o] for o in writes)
                for e in sorted(esc):
                    problems.append("%s (%s): %s" % (key, rel, e))
            missing = set(table) - {n for n, _, _ in funcs}
            for c in sorted(missing):
                problems.append("%s: C function %s of the method table has no definition the scanner can find" % (rel, c))
        else:
            for name, params, body in funcs:
                if "::" not in name:
                    continue
                cls, meth = name.split("::")[-2:]
                key = "%s.%s" % (prefix, cls) if meth == cls else "%s.%s.%s" % (prefix, cls, meth)
                if meth.startswith("~"):
                    continue
                objs, writes, esc = scan_function(params, body, style)
                found[key] = sorted(objs[o] for o in writes)
                for e in sorted(esc):
                    problems.append("%s (%s): %s" % (key, rel, e))
    return found, problems


# escapes reviewed by hand: the Matcher keeps references to the (ra, dec) arrays it was constructed with; every method of the
# class is scanned, and a store through such a member (`this->ra`) would be reported ("not a parsed argument")
ACCEPTED_ESCAPES = ("htmc.Matcher (esutil/htm/htmc.cc): argument ra_input stored in a member",
                    "htmc.Matcher (esutil/htm/htmc.cc): argument dec_input stored in a member")


def ctable_write_problems(root, c_table, accepted_escapes=ACCEPTED_ESCAPES):
    found, problems = c_scan(root)
    problems = [p for p in problems if not any(a in p for a in accepted_escapes)]
    for key, pos in sorted(found.items()):
        if key in c_table:
            exp = c_table[key]
        else:
            star = key.rsplit(".", 1)[0] + ".*"
            if star in c_table:
                exp = c_table[star]
            else:
                problems.append("C entry point %s (found in the sources) is not in the C entry-point table" % key)
                continue
        extra = [k for k in pos if k not in exp]
        if extra:
            problems.append("C entry point %s WRITES its positional argument(s) %s; the C entry-point table allows only %s" % (key, extra, list(exp)))
    return problems, found


# ------------------------------------------------------------------------------------------------------
# records.cpp: the WRITE path of the record-file writer must not store through the caller's data pointer
#
# Records::Write(obj) sets  mData = PyArray_DATA(obj)  and walks the rows through mData in the Write* methods.  The scan
# (syntactic, fail closed) takes the call-graph closure of Records::Write inside records.cpp and, in every function of it,
# treats as TAINTED: the member mData, every pointer parameter (char* / void* / T*), and every local assigned from a tainted
# name (to a fixpoint).  Problems: a store through a tainted pointer (`p[..] op=`, `*p op=`, `*(T*)p op=`, `(*p)++`), a
# tainted pointer handed to a writing libc function (memcpy/memset/fread/sscanf/strcpy/sprintf... as destination) or to any
# function that is neither in the closure nor in READ_ONLY_IO.  Pointer arithmetic (`mData += elsize`) is not a store.
# ------------------------------------------------------------------------------------------------------
RECORDS_SRC = "esutil/recfile/records.cpp"
RECORDS_ROOTS = ("Write",)
READ_ONLY_IO = {"fwrite", "fputc", "fputs", "fprintf", "printf", "putc", "strlen", "strcmp", "strncmp", "memcmp", "debugout", "fflush",
                "c_str", "size", "str", "runtime_error", "ensure_writable", "fseek", "ftell", "feof", "ferror"}


def records_write_scan(root):
    """-> (closure: sorted function names, problems)"""
    p = os.path.join(root, RECORDS_SRC)
    if not os.path.exists(p):
        return [], ["%s not found" % RECORDS_SRC]
    txt = _strip_c(open(p).read())
    funcs = {}
    for name, params, body in _functions(txt):
        if name.startswith("Records::"):
            funcs.setdefault(name.split("::", 1)[1], []).append((params, body))
    problems = []
    for r in RECORDS_ROOTS:
        if r not in funcs:
            problems.append("Records::%s not found in %s" % (r, RECORDS_SRC))
    # call-graph closure
    closure, todo = set(), [r for r in RECORDS_ROOTS if r in funcs]
    while todo:
        f = todo.pop()
        if f in closure:
            continue
        closure.add(f)
        for params, body in funcs[f]:
            for m in re.finditer(r"(?<![\w.>])(?:this\s*->\s*)?([A-Za-z_]\w*)\s*\(", body):
                if m.group(1) in funcs and m.group(1) not in closure:
                    todo.append(m.group(1))
    if "mData" not in txt:
        problems.append("member mData not found in %s (the scan no longer knows how the input buffer is reached)" % RECORDS_SRC)
    for f in sorted(closure):
        for params, body in funcs[f]:
            tainted = {"mData"}
            for prm in [x.strip() for x in params.split(",") if x.strip()]:
                m = re.match(r"(?:const\s+)?[\w:]+(?:\s+[\w:]+)*\s*\*+\s*(\w+)$", prm)
                if m and not re.match(r"(?:const\s+)?(?:struct\s+)?Py\w+\b", prm):       # PyObject* / PyArray_Descr* are not data buffers
                    tainted.add(m.group(1))
            # PyArray_DATA(...) / GETPTR of anything is the input buffer too
            changed = True
            while changed:
                changed = False
                for m in re.finditer(r"(?<![\w.>])(\w+)\s*=(?!=)\s*([^;]*);", body):
                    lhs, rhs = m.group(1), m.group(2)
                    if lhs in tainted:
                        continue
                    rhs_names = set(re.findall(r"[A-Za-z_]\w*", rhs))
                    deref = re.match(r"\s*\*", rhs) or re.search(r"\[[^\]]*\]\s*$", rhs.strip())
                    if (rhs_names & tainted or re.search(r"PyArray_(DATA|GETPTR[1-4]|BYTES)\b", rhs)) and not deref:
                        # only pointer-valued copies: `char* buffer = mData`, `buffer = mData + k`, `(T*) buffer`
                        if re.search(r"\*\s*%s\s*=(?!=)" % lhs, body) or re.search(r"\*\s*%s\s*;" % lhs, body) or re.search(r"\*\s*%s\s*[=,;)]" % lhs, params + body):
                            tainted.add(lhs)
                            changed = True
            for t in sorted(tainted):
                pats = [r"(?<![\w.>])%s\s*\[[^\]]*\]\s*%s" % (t, _ASSIGN_OP),                         # p[i] = ...
                        r"\*\s*(?:\(\s*[\w\s:]+\*\s*\)\s*)?%s\b\s*%s" % (t, _ASSIGN_OP),              # *p = , *(T*)p =
                        r"\(\s*\*\s*(?:\(\s*[\w\s:]+\*\s*\)\s*)?%s\s*\)\s*%s" % (t, _ASSIGN_OP),      # (*p)++ , (*(T*)p) =
                        r"\(\s*\(\s*[\w\s:]+\*\s*\)\s*%s\s*\)\s*\[[^\]]*\]\s*%s" % (t, _ASSIGN_OP),   # ((T*)p)[i] =
                        r"(?:\+\+|--)\s*\*\s*%s\b" % t, r"(?:\+\+|--)\s*%s\s*\[" % t]
                for k, pat in enumerate(pats):
                    for m in re.finditer(pat, body):
                        if k == 1:
                            pre = body[max(0, m.start() - 30):m.start()]
                            # `char* buffer = mData;` / `T *p = ...` is a declaration, not a store through p
                            if re.search(r"[\w>]\s*$", pre) and not re.search(r"[;{}(,=]\s*$", pre):
                                continue
                        problems.append("Records::%s stores through %s (the caller's data buffer): `%s`" % (f, t, " ".join(m.group(0).split())))
                for m in re.finditer(r"(?<![\w.>])([A-Za-z_]\w*)\s*\(([^;{}]*)\)", body):
                    callee, argtxt = m.group(1), m.group(2)
                    if not re.search(r"(?<![\w.>\[*])%s\b(?!\s*[\[(])" % t, re.sub(r"\*\s*(\(\s*[\w\s:]+\*\s*\)\s*)?", "*", argtxt)):
                        continue
                    if callee in WRITERS:
                        first = argtxt.split(",")[0]
                        if re.search(r"\b%s\b" % t, first) or callee in ("sscanf", "fscanf"):
                            problems.append("Records::%s passes %s (the caller's data buffer) to %s as destination" % (f, t, callee))
                    elif callee in closure or callee in READ_ONLY_IO or callee in ("if", "while", "for", "switch", "return", "sizeof"):
                        continue
                    else:
                        problems.append("Records::%s hands %s (the caller's data buffer) to %s(...), which the scan does not follow" % (f, t, callee))
    return sorted(closure), sorted(set(problems))

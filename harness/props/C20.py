"""C20 — sorting, chunking, progress and parallel wrappers (DESIGN.md section 7, C20)."""
import functools
import io
import itertools
import json
import os
import re

from .. import core
from ..core import cz, clist, copt, cbool
from ..runner import Entry, differential
from . import c20_translate
from . import c20_seq

PRE = "From EsVerif.Common Require Import Base.\nFrom EsVerif.C20 Require Import Model Model2 Spec Meter Shape Exec.\n"


def cpairs(l):
    return "[" + "; ".join("(%s, %s)" % (cz(a), cz(b)) for a, b in l) + "]"


NUMFORMS = ("int", "float", "np.int64", "np.float64", "np.float32", "bool")


def num(form, value):
    """a number in one of the forms a caller may pass for a numeric keyword"""
    if form == "int":
        return int(value)
    if form == "float":
        return float(value)
    if form == "bool":
        return bool(value)
    import numpy as np
    return getattr(np, form[3:])(value)


def total_model(x):
    """the model's integer total for a finite numeric total: the wrappers' items depend on it only through None / zero /
    non-zero (theorem C20_pbar_total_only_zeroness), so a non-integral or small non-zero value is mapped to a non-zero integer"""
    if x is None:
        return None
    x = float(x)
    if x == 0:
        return 0
    return int(x) if abs(x) >= 1 else (1 if x > 0 else -1)


def total_forms(r, n):
    """(form, value) pairs for total= around the item count n: integral and non-integral floats, numpy scalars, bool"""
    return [("float", float(n)), ("float", n / 2 + 0.25), ("float", n + 5.5), ("np.int64", n), ("np.float64", float(max(n, 1))),
            ("np.float32", n + 0.5), ("bool", True), ("bool", False), ("float", 0.0), ("float", 0.5), ("float", -1.5),
            ("np.float64", r.choice([1e4, 3.0, float(n) / 3 + 0.1]))]


def cbig(xs, f=clist, piece=2000):
    """a long list literal as a concatenation of pieces (coqc's parser overflows its stack on one very long literal)"""
    xs = list(xs)
    if len(xs) <= piece:
        return f(xs)
    return "(concat [%s])" % "; ".join(f(xs[i:i + piece]) for i in range(0, len(xs), piece))


def cres(out, f):
    return "(Ok %s)" % f(out[1]) if out[0] == "ok" else "(Err %s)" % out[1]


class ISplit(Entry):
    name = "isplit"

    def cases(self, ctx, round=0):
        r = ctx.rng
        cs = []
        if round == 0:
            if ctx.quick():
                for num in list(range(0, 13)) + [59, 60, 61, 199, 200]:
                    for n in (1, 2, 3, 7, 12, 13, 60):
                        cs.append({"num": num, "nchunks": n, "family": "grid"})
            else:
                ctx.exhaustive = True
                for num in range(0, 201):
                    for n in range(1, 61):
                        cs.append({"num": num, "nchunks": n, "family": "exhaustive-200x60"})
            for n in (0, -1, -5):
                cs.append({"num": 10, "nchunks": n, "family": "rejected"})
        for _ in range(ctx.n(150, 1500)):
            num = r.choice([r.randrange(0, 50), r.randrange(0, 5000), r.randrange(0, 10**12)])
            cs.append({"num": num, "nchunks": r.choice([r.randrange(1, 10), r.randrange(1, 300)]), "family": "random"})
        return cs

    def impl(self, c):
        import esutil.algorithm as alg

        def f():
            # the result must be a function of (num, nchunks) only: call, scribble over the returned array the way a
            # caller shifting the ranges would, call again and report the SECOND answer (catches results that are
            # shared between calls, e.g. a memoised mutable array)
            first = alg.isplit(c["num"], c["nchunks"])
            first["start"] += 1000
            first["end"] -= 7
            s = alg.isplit(c["num"], c["nchunks"])
            return [(int(a), int(b)) for a, b in zip(s["start"], s["end"])]
        return core.guarded(f)

    def term(self, c, out):
        return "v_isplit %s %s %s" % (cz(c["num"]), cz(c["nchunks"]), cres(out, cpairs))

    def nontrivial(self, c, out):
        return c["nchunks"] >= 1 and c["num"] % c["nchunks"] != 0

    def show(self, c):
        return "isplit %s %s" % (cz(c["num"]), cz(c["nchunks"]))


class SplitArray(Entry):
    name = "splitarray"

    def cases(self, ctx, round=0):
        r = ctx.rng
        cs = []
        if round == 0:
            for n in range(0, 12):
                for nper in range(1, 8):
                    cs.append({"nper": nper, "var": [r.randrange(-50, 50) for _ in range(n)], "family": "grid"})
            # requested size outside the property's domain: 0 divides by zero, a negative size gives no chunks
            for nper in (0, -1, -3):
                for n in (0, 1, 6):
                    cs.append({"nper": nper, "var": list(range(n)), "family": "non-positive nper"})
            cs.append({"nper": 10**6, "var": [4, 5, 6], "family": "grid"})
            # more than 2^16 elements, blocked with a remainder
            nbig = 32771 if ctx.quick() else 65539
            cs.append({"nper": 4096, "var": [(7 * i) % 1000 for i in range(nbig)], "family": "scale > 2^15 (quick) / 2^16 (thorough)"})
            if not ctx.quick():
                for n in range(0, 31):
                    for nper in range(1, 13):
                        cs.append({"nper": nper, "var": list(range(7, 7 + n)), "family": "exhaustive-30x12"})
        for _ in range(ctx.n(100, 1500)):
            n = r.randrange(0, 120)
            cs.append({"nper": r.choice([1, 2, 3, 5, n, n + 1, max(1, n - 1), r.randrange(1, 40)]) or 1,
                       "var": [r.randrange(-10**6, 10**6) for _ in range(n)], "family": "random"})
        return cs

    def impl(self, c):
        import numpy as np
        import esutil.numpy_util as nu

        def f():
            return [[int(x) for x in ch] for ch in nu.splitarray(c["nper"], np.array(c["var"], dtype="i8"))]
        return core.guarded(f)

    def term(self, c, out):
        return "v_splitarray %s %s %s" % (cz(c["nper"]), cbig(c["var"]),
                                          cres(out, lambda l: "[" + "; ".join(cbig(x) for x in l) + "]"))

    def nontrivial(self, c, out):
        return c["nper"] >= 1 and len(c["var"]) >= 3 and len(c["var"]) % c["nper"] != 0 and c["nper"] < len(c["var"])

    def show(self, c):
        return "splitarray %s %s" % (cz(c["nper"]), clist(c["var"]))


def _arrays(ctx, round):
    r = ctx.rng
    out = []
    if round == 0:
        out += [([], "empty"), ([5], "single"), ([2, 1], "pair"), ([1, 1, 1, 1], "constant"),
                (list(range(40)), "sorted"), (list(range(40, 0, -1)), "reversed"), ([3, 1, 3, 1, 0, 3, 1], "ties")]
        if not ctx.quick():
            # every list over {0,1,2} of length <= 6 (ties, sorted and reversed runs included)
            for k in range(0, 7):
                for t in itertools.product((0, 1, 2), repeat=k):
                    out.append((list(t), "exhaustive-3^k,k<=6"))
    for _ in range(ctx.n(120, 2000)):
        n = r.randrange(0, 60)
        kind = r.choice(["ties", "wide", "sorted", "reversed", "nearly"])
        if kind == "ties":
            a = [r.randrange(0, 4) for _ in range(n)]
        elif kind == "wide":
            a = [r.randrange(-10**9, 10**9) for _ in range(n)]
        elif kind == "sorted":
            a = sorted(r.randrange(0, 30) for _ in range(n))
        elif kind == "reversed":
            a = sorted((r.randrange(0, 30) for _ in range(n)), reverse=True)
        else:
            a = list(range(n))
            if n > 1:
                i, j = r.randrange(n), r.randrange(n)
                a[i], a[j] = a[j], a[i]
        out.append((a, kind))
    return out


def _unsorted(a):
    return len(a) >= 3 and a != sorted(a) and a != sorted(a, reverse=True)


class QuickSort(Entry):
    name = "quicksort"

    def cases(self, ctx, round=0):
        return [{"d": a, "family": k, "container": ctx.rng.choice(["list", "ndarray"])} for a, k in _arrays(ctx, round)]

    def impl(self, c):
        import numpy as np
        import esutil.algorithm as alg

        def f():
            d = list(c["d"]) if c["container"] == "list" else np.array(c["d"], dtype="i8")
            alg.quicksort(d)
            return [int(x) for x in d]
        return core.guarded(f)

    def term(self, c, out):
        return "v_quicksort %s %s" % (clist(c["d"]), cres(out, clist))

    def nontrivial(self, c, out):
        return _unsorted(c["d"])

    def show(self, c):
        return "quicksort %s" % clist(c["d"])


PAYLOADS = ("dict", "complex", "str_bytes_none", "object", "nan", "ndarray2", "set")


class _Opaque:
    """a value without any ordering (object has no __lt__)"""
    __slots__ = ("tag",)

    def __init__(self, tag):
        self.tag = tag


def make_payload(kind, i):
    """the i-th VALUE of a key-value sort: an opaque payload.  None of these can be ordered (comparison raises
    TypeError, is ambiguous, or is always False), so a sort that ever compares two values shows"""
    if kind == "dict":
        return {"row": i}
    if kind == "complex":
        return complex(i % 3, -i)
    if kind == "str_bytes_none":
        return None if i == 0 else ("s%d" % i if i % 2 else b"b%d" % i)
    if kind == "object":
        return _Opaque(i)
    if kind == "nan":
        return float("nan")
    if kind == "set":
        return {i, -1 - i} if i % 2 else frozenset((i,))
    import numpy as np
    return np.array([i, -i])


class QuickSortKV(Entry):
    name = "quicksort_keyvalue"

    def cases(self, ctx, round=0):
        r = ctx.rng
        cs = [{"k": a, "v": list(range(100, 100 + len(a))), "family": k} for a, k in _arrays(ctx, round)]
        # aliasing: the SAME object passed as keys and as values
        for n in ([0, 1, 2, 7, 15] if round == 0 else [r.randrange(0, 30)]):
            a = [r.randrange(0, 5) for _ in range(n)]
            cs.append({"k": a, "v": list(a), "aliased": True, "container": r.choice(["list", "ndarray"]), "family": "aliased keys is values"})
        # values are opaque payloads ("values only need the [] operator"): tied keys with values that cannot be ordered
        for kind in PAYLOADS:
            for n in ([2, 5, 8, 9, 23] if round == 0 else [r.randrange(2, 40)]):
                cs.append({"k": [r.randrange(0, 3) for _ in range(n)], "v": list(range(100, 100 + n)), "payload": kind,
                           "container": r.choice(["list", "ndarray"]), "family": "opaque values/" + kind})
            if round == 0:
                cs.append({"k": [1, 1], "v": [100, 101], "payload": kind, "container": "list", "family": "opaque values/" + kind})
                cs.append({"k": [2, 1, 2, 0, 1], "v": [100, 101, 102, 103, 104], "payload": kind, "container": "ndarray",
                           "family": "opaque values/" + kind})
        return cs

    def impl(self, c):
        import esutil.algorithm as alg

        def f():
            if c.get("aliased"):
                import numpy as np
                k = list(c["k"]) if c["container"] == "list" else np.array(c["k"], dtype="i8")
                alg.quicksort_keyvalue(k, k)
                return [(int(a), int(a)) for a in k]
            if not c.get("payload"):
                k, v = list(c["k"]), list(c["v"])
                alg.quicksort_keyvalue(k, v)
                return list(zip(k, v))
            import numpy as np
            objs = [make_payload(c["payload"], i) for i in range(len(c["k"]))]
            ident = {id(o): 100 + i for i, o in enumerate(objs)}        # payloads are recognised by identity
            if c["container"] == "ndarray":
                k = np.array(c["k"], dtype="i8")
                v = np.empty(len(objs), dtype=object)
                for i, o in enumerate(objs):
                    v[i] = o
            else:
                k, v = list(c["k"]), list(objs)
            alg.quicksort_keyvalue(k, v)
            return [(int(a), ident.get(id(b), -1)) for a, b in zip(k, v)]
        return core.guarded(f)

    def term(self, c, out):
        return "v_quicksort_kv %s %s" % (cpairs(zip(c["k"], c["v"])), cres(out, cpairs))

    def nontrivial(self, c, out):
        return _unsorted(c["k"])

    def show(self, c):
        return "quicksort_keyvalue %s" % cpairs(zip(c["k"], c["v"]))


class PBar(Entry):
    name = "pbar"

    def cases(self, ctx, round=0):
        r = ctx.rng
        cs = []
        if round == 0:
            # every keyword left at its default (only file= is given, to keep stderr quiet)
            for kind in ("list", "range", "generator", "prange"):
                for n in (0, 1, 5):
                    cs.append({"kind": kind, "n": n, "simple": False, "total": "none", "defaults": True, "desc": "", "leave": True,
                               "mininterval": 0.5, "miniters": 1, "n_bars": 20, "family": "defaults/" + kind})
            if not ctx.quick():
                for kind, simple in (("list", False), ("generator", False), ("range", True)):
                    cs.append({"kind": kind, "n": 40000, "simple": simple, "total": "none" if kind != "generator" else "exact",
                               "desc": "", "leave": True, "mininterval": 0.5, "miniters": 1000, "n_bars": 20, "family": "scale > 2^15"})
        # numeric keywords in every numeric FORM (int, integral / non-integral float, numpy scalars, bool), sized and unsized
        for kind in ("list", "generator", "prange"):
            for n in ([0, 3, 8] if round == 0 else [r.randrange(0, 30)]):
                for simple in (False, True):
                    for tf in total_forms(r, n):
                        forms = {"total": list(tf)}
                        if r.random() < 0.5:
                            forms["mininterval"] = list(r.choice([("float", 0.0), ("np.float64", 0.0), ("bool", False), ("np.int64", 0), ("float", 0.25)]))
                        if r.random() < 0.5:
                            forms["miniters"] = list(r.choice([("float", 1.0), ("float", 2.5), ("np.int64", 2), ("np.float64", 1.0), ("bool", True)]))
                        if r.random() < 0.5:
                            forms["n_bars"] = list(r.choice([("np.int64", 5), ("bool", True), ("int", 0), ("np.int64", 20)]))
                        cs.append({"kind": kind, "n": n, "simple": simple, "total": "form", "forms": forms, "desc": r.choice(["", "lbl"]),
                                   "leave": r.random() < 0.5, "mininterval": 0, "miniters": 1, "n_bars": 20,
                                   "family": "numeric forms/%s/%s/total=%s" % (kind, "simple" if simple else "full", tf[0])})
        kinds = ["list", "range", "generator", "prange"]
        for kind in kinds:
            for n in ([0, 1, 3, 12] if round == 0 else [r.randrange(0, 30)]):
                for simple in (False, True):
                    for tot in ("none", "exact", "less", "more", "zero", "negative"):
                        cs.append({"kind": kind, "n": n, "simple": simple, "total": tot,
                                   "desc": r.choice(["", "lbl"]), "leave": r.random() < 0.5,
                                   "mininterval": r.choice([0, 0.5]), "miniters": r.choice([1, 3]),
                                   "n_bars": r.choice([20, 5, 1]),
                                   "family": "%s/%s/total=%s" % (kind, "simple" if simple else "full", tot)})
        return cs

    @staticmethod
    def _total(c):
        n = c["n"]
        if c.get("forms") and "total" in c["forms"]:
            return total_model(num(*c["forms"]["total"]))
        return {"none": None, "exact": n, "less": max(n - 2, 1), "more": n + 5, "zero": 0, "negative": -3}[c["total"]]

    def impl(self, c):
        import esutil.pbar as pb
        n = c["n"]
        items = [10 + 3 * i for i in range(n)]
        pulled = [0]

        class Src(list):
            def __iter__(self_):
                for x in list.__iter__(self_):
                    pulled[0] += 1
                    yield x

        def gen():
            for x in items:
                pulled[0] += 1
                yield x
        buf = io.StringIO()
        kw = dict(desc=c["desc"], total=self._total(c), leave=c["leave"], file=buf,
                  mininterval=c["mininterval"], miniters=c["miniters"], n_bars=c["n_bars"], simple=c["simple"])
        if c.get("defaults"):
            kw = dict(file=buf)
        for k_, fv in (c.get("forms") or {}).items():
            kw[k_] = num(*fv)
        got, end = [], None
        try:
            if c["kind"] == "prange":
                it = pb.prange(10, 10 + 3 * n, 3, **kw)
                for x in it:
                    got.append((int(x), len(got) + 1))     # range has no observable pulls
            else:
                src = Src(items) if c["kind"] == "list" else (gen() if c["kind"] == "generator" else _CountRange(items, pulled))
                for x in pb.pbar(src, **kw):
                    got.append((int(x), pulled[0]))
        except Exception as e:  # noqa
            end = "EOther" if isinstance(e, ZeroDivisionError) else core.errclass(e)
        return {"yielded": got, "end": end, "prints": None if c["simple"] else parse_meters(buf.getvalue(), c["desc"])}

    def _cfg(self, c):
        has_len = c["kind"] != "generator"
        return "{| simple := %s; has_len := %s; total := %s |}" % (cbool(c["simple"]), cbool(has_len), copt(self._total(c)))

    def term(self, c, out):
        items = [10 + 3 * i for i in range(c["n"])]
        o = "(%s, %s)" % (cbig(out["yielded"], cpairs), "None" if out["end"] is None else "Some " + out["end"])
        if c["simple"] or out["end"] is not None or c.get("forms"):
            return "v_pbar %s %s %s" % (self._cfg(c), cbig(items), o)
        # the full bar: the meters written to file= as well (deterministic schedule when mininterval = 0)
        return "v_pbar_prints %s %s %s %s %s %s %s" % (self._cfg(c), cz(c["miniters"]), cbool(c["leave"]),
                                                      cbool(c["mininterval"] == 0), cbig(items), o, cprints(out["prints"]))

    def nontrivial(self, c, out):
        return c["n"] >= 3

    def show(self, c):
        return "pbar %s %s" % (self._cfg(c), clist([10 + 3 * i for i in range(c["n"])]))

    def classify(self, c, out, v):
        return None


def parse_meters(text, desc):
    """the meters written by the full bar: [(count shown, total shown or None)], in order; [(-1, None)] when a
    piece of the text is not a meter"""
    out = []
    pre = desc + ": " if desc else ""
    for seg in text.replace("\n", "").split("\r"):
        seg = seg.rstrip(" ")
        if not seg:
            continue
        if pre and not seg.startswith(pre):
            return [(-1, None)]
        seg = seg[len(pre):]
        m = re.match(r"^\|[#-]*\|\s*(\d+)/(\d+) ", seg)
        if m:
            out.append((int(m.group(1)), int(m.group(2))))
            continue
        m = re.match(r"^(-?\d+) \[elapsed: ", seg)
        if m:
            out.append((int(m.group(1)), None))
            continue
        return [(-1, None)]
    return out


def cprints(ps):
    return "[" + "; ".join("(%s, %s)" % (cz(a), copt(b)) for a, b in ps) + "]"


class _CountRange:
    """range-like: has __len__, yields lazily"""
    def __init__(self, items, pulled):
        self.items, self.pulled = items, pulled

    def __len__(self):
        return len(self.items)

    def __iter__(self):
        for x in self.items:
            self.pulled[0] += 1
            yield x


class PMap(Entry):
    name = "pmap"

    def cases(self, ctx, round=0):
        r = ctx.rng
        cs = []
        if round == 0:
            base = {"a": 2, "b": -1, "lat": 3, "total": "absent"}
            for items in ([], [4], [3, 1, 2, 5, 4, 0, 7]):
                cs.append(dict(base, items=items, chunksize=1, nproc=1, defaults=True, family="defaults (chunksize, nproc omitted)"))
            # progress-bar keywords forwarded through pmap (each fine alone): simple x total
            for simple in (False, True):
                for tot in ("absent", "exact", "less", "more", "zero"):
                    n = r.randrange(3, 9)
                    cs.append({"a": r.randrange(-3, 4), "b": r.randrange(-9, 10), "lat": r.randrange(1, 50),
                               "items": [r.randrange(-20, 20) for _ in range(n)], "chunksize": r.choice([1, 2, n + 1]),
                               "nproc": r.choice([1, 3]), "bar": {"simple": simple, "total": tot},
                               "family": "bar keywords/%s/total=%s" % ("simple" if simple else "full", tot)})
            # numeric forms: chunksize / nproc as numpy integers or bool (floats are rejected by the executor), total= as floats
            for cf, nf, tf in (("np.int64", "np.int64", ("float", 6.0)), ("bool", "int", ("np.float64", 2.5)), ("int", "bool", ("float", 3.5)),
                               ("np.int64", "int", ("np.float32", 6.0)), ("int", "np.int64", ("bool", True))):
                items = [r.randrange(-20, 20) for _ in range(6)]
                cs.append({"a": r.randrange(-3, 4), "b": r.randrange(-9, 10), "lat": r.randrange(1, 50), "items": items,
                           "chunksize": 1 if cf == "bool" else 2, "nproc": 1 if nf == "bool" else 3,
                           "bar": {"simple": False, "total": "form"}, "forms": {"chunksize": cf, "nproc": nf, "total": list(tf)},
                           "family": "numeric forms/chunksize=%s nproc=%s total=%s" % (cf, nf, tf[0])})
            # blocked processing with a remainder, more items than a few chunks
            cs.append(dict(base, items=[(13 * i) % 41 - 20 for i in range(300)], chunksize=7, nproc=3, family="scale 300 items / chunks of 7"))
        for nproc in ([1, 2, 4, 8] if round == 0 else [3, 5]):
            for _ in range(ctx.n(4, 12)):
                n = r.randrange(0, 14)
                cs.append({"a": r.randrange(-3, 4), "b": r.randrange(-9, 10), "lat": r.randrange(1, 100),
                           "items": [r.randrange(-20, 20) for _ in range(n)],
                           "chunksize": r.choice([1, 2, 3, max(n, 1), n + 1]), "nproc": nproc,
                           "total": r.choice(["given", "absent"]), "family": "nproc=%d" % nproc})
        return cs

    def impl(self, c):
        import esutil.pbar as pb
        from . import c20_tasks
        fn = functools.partial(c20_tasks.task, c["a"], c["b"], c["lat"])
        kw = {"file": io.StringIO()}
        if c.get("total") == "given":
            kw["total"] = len(c["items"])
        if c.get("defaults"):
            return core.guarded(lambda: [int(x) for x in pb.pmap(fn, c["items"], **kw)])
        if c.get("bar"):
            kw["simple"] = c["bar"]["simple"]
            t = self._bar_total(c)
            if t is not None:
                kw["total"] = t
            csz, npr = c["chunksize"], c["nproc"]
            if c.get("forms"):
                kw["total"] = num(*c["forms"]["total"])
                csz, npr = num(c["forms"]["chunksize"], csz), num(c["forms"]["nproc"], npr)

            def f():
                try:
                    return {"end": None, "res": [int(x) for x in pb.pmap(fn, c["items"], chunksize=csz, nproc=npr, **kw)]}
                except Exception as e:  # noqa
                    return {"end": core.errclass(e), "res": []}
            return ("ok", f())
        return core.guarded(lambda: [int(x) for x in pb.pmap(fn, c["items"], chunksize=c["chunksize"], nproc=c["nproc"], **kw)])

    @staticmethod
    def _bar_total(c):
        n = len(c["items"])
        if c.get("forms"):
            return total_model(num(*c["forms"]["total"]))
        return {"absent": None, "exact": n, "less": max(n - 2, 1), "more": n + 5, "zero": 0}[c["bar"]["total"]]

    def term(self, c, out):
        if c.get("bar"):
            o = out[1]
            cfg = "{| simple := %s; has_len := false; total := %s |}" % (cbool(c["bar"]["simple"]), copt(self._bar_total(c)))
            return "v_pmap_kw %s %s %s %s %s %s %s" % (cfg, cz(c["a"]), cz(c["b"]), clist(c["items"]), cz(c["chunksize"]),
                                                     "None" if o["end"] is None else "(Some %s)" % o["end"], clist(o["res"]))
        return "v_pmap %s %s %s %s %s" % (cz(c["a"]), cz(c["b"]), clist(c["items"]), cz(c["chunksize"]), cres(out, clist))

    def nontrivial(self, c, out):
        return c["nproc"] >= 2 and len(c["items"]) > c["chunksize"]

    def show(self, c):
        return "map (fun x => %s * x * x + %s) %s" % (cz(c["a"]), cz(c["b"]), clist(c["items"]))


class FormatInterval(Entry):
    """pbar.format_interval / format_meter: the integer fields of the text and which total is displayed"""
    name = "format"

    def cases(self, ctx, round=0):
        r = ctx.rng
        cs = []
        if round == 0:
            for t in (0, 1, 59, 60, 61, 3599, 3600, 3601, 86399, 86400, 359999, 360000, 59.999, 3599.5):
                cs.append({"what": "interval", "t": t, "family": "interval/boundaries"})
            for n in (0, 1, 5, 6):
                for tot in (None, 0, 1, 5, 6, -2):
                    cs.append({"what": "meter", "n": n, "total": tot, "family": "meter/grid"})
                    for el in (-1.5, 0.0, 1e-9, 2.5, 7200.0):
                        cs.append({"what": "meter_raises", "n": n, "total": tot, "elapsed": el, "family": "meter/elapsed grid"})
            for strs in (["abcd", "xy", "", "pqrstu", "z"], ["", ""], ["same", "same", "sam"], ["a" * 30, "b", "c" * 31, ""]):
                cs.append({"what": "status", "strings": strs, "family": "status/fixed"})
        for _ in range(ctx.n(40, 400)):
            cs.append({"what": "interval", "t": r.choice([r.randrange(0, 4000), r.randrange(0, 10**6), r.uniform(0, 5000)]),
                       "family": "interval/random"})
            cs.append({"what": "meter", "n": r.randrange(0, 50), "total": r.choice([None, r.randrange(-5, 60)]),
                       "family": "meter/random"})
            cs.append({"what": "meter_raises", "n": r.choice([0, 0, r.randrange(0, 50)]), "total": r.choice([None, r.randrange(-5, 60)]),
                       "elapsed": r.choice([0.0, -r.random(), r.random() * 100, 1e-300]), "family": "meter/elapsed random"})
            cs.append({"what": "status", "strings": ["".join(r.choice("abc#-| 0123/%") for _ in range(r.randrange(0, 25)))
                                                     for _ in range(r.randrange(1, 7))], "family": "status/random"})
        return cs

    def impl(self, c):
        import esutil.pbar as pb
        if c["what"] == "interval":
            return core.guarded(lambda: [int(x) for x in pb.format_interval(c["t"]).split(":")])
        if c["what"] == "meter_raises":
            try:
                pb.format_meter(c["n"], c["total"], c["elapsed"], n_bars=5)
                return ("ok", None)
            except ZeroDivisionError:
                return ("err", "ZeroDivisionError")
            except Exception as e:  # noqa
                return ("err", type(e).__name__)
        if c["what"] == "status":
            def f():
                buf = io.StringIO()
                sp = pb.StatusPrinter(buf)
                for s_ in c["strings"]:
                    sp.print_status(s_)
                return buf.getvalue()
            return core.guarded(f)
        return core.guarded(lambda: parse_meters(pb.format_meter(c["n"], c["total"], 0, n_bars=7), ""))

    def term(self, c, out):
        if c["what"] == "meter_raises":
            el = "SZero" if c["elapsed"] == 0 else ("SPos" if c["elapsed"] > 0 else "SNeg")
            raised = "0" if out[0] == "ok" else ("1" if out[1] == "ZeroDivisionError" else "2")
            return "v_meter_raises %s %s %s %s" % (cz(c["n"]), copt(c["total"]), el, raised)
        if c["what"] == "status":
            codes = lambda t: clist([ord(ch) for ch in t])    # noqa
            if out[0] != "ok" or not out[1].startswith("\r") and c["strings"]:
                return "v_status [] [[0]]"
            segs = out[1].split("\r")[1:]
            return "v_status [%s] [%s]" % ("; ".join(codes(t) for t in c["strings"]), "; ".join(codes(t) for t in segs))
        if c["what"] == "interval":
            return "v_format_interval %s %s" % (cz(int(c["t"])), clist(out[1]) if out[0] == "ok" else "[(-1)%Z]")
        shown = out[1][0][1] if out[0] == "ok" and len(out[1]) == 1 and out[1][0][0] == c["n"] else -99
        return "v_meter_total %s %s %s" % (cz(c["n"]), copt(c["total"]), copt(shown))

    def nontrivial(self, c, out):
        return (c["what"] == "interval" and c["t"] >= 60) or (c["what"] in ("meter", "meter_raises") and c["total"] is not None) \
            or (c["what"] == "status" and len(c["strings"]) >= 2)


class Nested(Entry):
    """pbar(pbar(source, inner options), outer options)"""
    name = "nested"

    def cases(self, ctx, round=0):
        r = ctx.rng
        cs = []
        for kind in ("list", "generator"):
            for n in ([0, 1, 4] if round == 0 else [r.randrange(0, 20)]):
                for si in (False, True):
                    for so in (False, True):
                        for ti, to in (("none", "none"), ("exact", "exact"), ("none", "exact"), ("zero", "more"), ("less", "zero")):
                            cs.append({"kind": kind, "n": n, "simple_i": si, "simple_o": so, "total_i": ti, "total_o": to,
                                       "miniters": r.choice([1, 2]), "family": "%s/inner=%s/outer=%s" % (
                                           kind, "simple" if si else "full", "simple" if so else "full")})
        return cs

    @staticmethod
    def _tot(c, which):
        return PBar._total({"n": c["n"], "total": c[which]})

    def impl(self, c):
        import esutil.pbar as pb
        items = [10 + 3 * i for i in range(c["n"])]
        pulled = [0]

        def gen():
            for x in items:
                pulled[0] += 1
                yield x
        src = gen() if c["kind"] == "generator" else _CountRange(items, pulled)
        got, end = [], None
        try:
            inner = pb.pbar(src, total=self._tot(c, "total_i"), simple=c["simple_i"], file=io.StringIO(), mininterval=0,
                            miniters=c["miniters"])
            for x in pb.pbar(inner, total=self._tot(c, "total_o"), simple=c["simple_o"], file=io.StringIO(), mininterval=0,
                             desc="outer"):
                got.append((int(x), pulled[0]))
        except Exception as e:  # noqa
            end = "EOther" if isinstance(e, ZeroDivisionError) else core.errclass(e)
        return {"yielded": got, "end": end}

    def _cfgs(self, c):
        f = "{| simple := %s; has_len := %s; total := %s |}"
        return (f % (cbool(c["simple_o"]), "false", copt(self._tot(c, "total_o"))),
                f % (cbool(c["simple_i"]), cbool(c["kind"] != "generator"), copt(self._tot(c, "total_i"))))

    def term(self, c, out):
        co, ci = self._cfgs(c)
        return "v_pbar_nested %s %s %s (%s, %s)" % (co, ci, clist([10 + 3 * i for i in range(c["n"])]), cpairs(out["yielded"]),
                                                  "None" if out["end"] is None else "Some " + out["end"])

    def nontrivial(self, c, out):
        return c["n"] >= 3

    def show(self, c):
        co, ci = self._cfgs(c)
        return "pbar_nested %s %s %s" % (co, ci, clist([10 + 3 * i for i in range(c["n"])]))


class PRange(Entry):
    """prange(stop) / prange(start, stop) / prange(start, stop, step) and the argument errors of range()"""
    name = "prange"

    def cases(self, ctx, round=0):
        r = ctx.rng
        cs = []
        argsets = []
        if round == 0:
            argsets += [[], [0], [5], [-3], [2, 9], [9, 2], [4, 4], [0, 10, 3], [0, 10, 10], [0, 10, 11], [10, 0, -3], [10, 0, -1],
                        [0, 10, -2], [10, 0, 2], [5, 5, -1], [-7, 8, 4], [1, 2, 0], [1, 2, 3, 4], [0, 9, 3], [0, -9, -3], [3, -10, -4]]
        for _ in range(ctx.n(40, 400)):
            k = r.choice([1, 2, 3, 3, 3])
            a = [r.randrange(-20, 21) for _ in range(k)]
            if k == 3 and r.random() < 0.9 and a[2] == 0:
                a[2] = r.choice([-2, 3])
            argsets.append(a)
        for a in argsets:
            cs.append({"args": a, "simple": r.random() < 0.4, "total": r.choice(["none", "none", "exact", "less", "more", "zero"]),
                       "miniters": r.choice([1, 3]), "leave": r.random() < 0.5,
                       "family": "%d args%s" % (len(a), "/step<0" if len(a) == 3 and a[2] < 0 else "")})
        return cs

    @staticmethod
    def _items(c):
        try:
            return list(range(*c["args"]))
        except Exception:  # noqa
            return None

    def _total(self, c):
        it = self._items(c)
        return PBar._total({"n": len(it) if it is not None else 0, "total": c["total"]})

    def impl(self, c):
        import esutil.pbar as pb
        got, end = [], None
        try:
            for x in pb.prange(*c["args"], total=self._total(c), simple=c["simple"], file=io.StringIO(), mininterval=0,
                               miniters=c["miniters"], leave=c["leave"]):
                got.append((int(x), len(got) + 1))
        except Exception as e:  # noqa
            end = "EOther" if isinstance(e, ZeroDivisionError) else core.errclass(e)
        return {"yielded": got, "end": end}

    def _cfg(self, c):
        return "{| simple := %s; has_len := true; total := %s |}" % (cbool(c["simple"]), copt(self._total(c)))

    def term(self, c, out):
        it = self._items(c)
        return "v_prange %s %s %s (%s, %s)" % (self._cfg(c), clist(c["args"]), "None" if it is None else "(Some %s)" % clist(it),
                                               cpairs(out["yielded"]), "None" if out["end"] is None else "Some " + out["end"])

    def nontrivial(self, c, out):
        it = self._items(c)
        return it is not None and len(it) >= 3

    def show(self, c):
        return "prange %s %s" % (self._cfg(c), clist(c["args"]))


class PMapExn(Entry):
    """pmap with a mapped function that raises for some items (ValueError / KeyError), a generator as input (how much of
    it was consumed) and the meters written through file= (how many results went through the bar before the raise)"""
    name = "pmap_exn"

    def cases(self, ctx, round=0):
        r = ctx.rng
        cs = []
        for nproc in ([1, 2, 4] if round == 0 else [3, 8]):
            for _ in range(ctx.n(7, 20)):
                n = r.randrange(0, 14)
                cs.append({"a": r.randrange(-3, 4), "b": r.randrange(-9, 10), "lat": r.randrange(1, 100),
                           "p": r.choice([2, 3, 5, 7, 50]), "r": r.randrange(0, 2), "q": r.choice([3, 4, 6, 50]), "s": r.randrange(0, 3),
                           "items": [r.randrange(-20, 20) for _ in range(n)],
                           "chunksize": r.choice([1, 2, 3, max(n, 1), n + 1, 3 * n + 7]), "nproc": nproc,
                           "total": r.choice(["given", "absent"]), "family": "nproc=%d" % nproc})
        if round == 0:
            base = {"a": 1, "b": 0, "lat": 5, "p": 50, "r": 7, "q": 50, "s": 9, "nproc": 3, "total": "given"}
            # first failing item in the LAST position of a chunk, two failing chunks (the later one finishes first), nothing fails
            cs.append(dict(base, items=[1, 2, 7, 4, 5, 9, 6, 8], chunksize=3, family="raise/end of chunk"))
            cs.append(dict(base, items=[1, 2, 3, 4, 9, 0, 7, 8], chunksize=2, family="raise/two chunks fail"))
            cs.append(dict(base, items=[7], chunksize=1, nproc=1, family="raise/single item"))
            cs.append(dict(base, items=[1, 2, 3, 4, 5], chunksize=9, nproc=1, total="absent", family="raise/none, one chunk, one worker"))
            cs.append(dict(base, items=[], chunksize=2, nproc=2, family="raise/empty"))
        return cs

    def impl(self, c):
        import esutil.pbar as pb
        from . import c20_tasks
        fn = functools.partial(c20_tasks.task_exn, c["a"], c["b"], c["p"], c["r"], c["q"], c["s"], c["lat"])
        buf = io.StringIO()
        kw = {"file": buf, "mininterval": 0, "miniters": 1}
        if c["total"] == "given":
            kw["total"] = len(c["items"])
        pulled = [0]

        def gen():
            for x in c["items"]:
                pulled[0] += 1
                yield x
        end, res = None, []
        try:
            res = [int(x) for x in pb.pmap(fn, gen(), chunksize=c["chunksize"], nproc=c["nproc"], **kw)]
        except Exception as e:  # noqa
            end = core.errclass(e)
        ms = parse_meters(buf.getvalue(), "")
        return {"end": end, "res": res, "yielded": ms[-1][0] if ms else -1, "pulled": pulled[0]}

    def term(self, c, out):
        return "v_pmap_exn %s %s %s %s %s %s %s %s %s %s %s %s" % (
            cz(c["a"]), cz(c["b"]), cz(c["p"]), cz(c["r"]), cz(c["q"]), cz(c["s"]), clist(c["items"]), cz(c["chunksize"]),
            "None" if out["end"] is None else "(Some %s)" % out["end"], clist(out["res"]), cz(out["yielded"]), cz(out["pulled"]))

    def nontrivial(self, c, out):
        return len(c["items"]) > c["chunksize"] and (out["end"] is not None or c["nproc"] >= 2)

    def show(self, c):
        return "pmap_exn (task_exn %s %s %s %s %s %s) %s %s (zseq 0 %d)" % (
            cz(c["a"]), cz(c["b"]), cz(c["p"]), cz(c["r"]), cz(c["q"]), cz(c["s"]), clist(c["items"]), cz(c["chunksize"]),
            len(c["items"]) + 1)


# ----------------------------------------------------------------------------------------------------
# histories: several calls in ONE process (state carried across calls), each also made alone in a fresh process
# ----------------------------------------------------------------------------------------------------
def _same_ends(r, base, lo=-9, hi=9):
    """another list of the same length with the same first and last element"""
    v = [r.randrange(lo, hi) for _ in base]
    if v:
        v[0], v[-1] = base[0], base[-1]
    if v == base and len(v) > 2:
        v[1] = base[1] + 1
    return v


def _same_minmax(r, base):
    """same length, same smallest and largest element (what a sorted array has at its two ends), other contents"""
    if len(base) < 3:
        return list(base)
    lo, hi = min(base), max(base)
    v = [r.randrange(lo, hi + 1) for _ in base]
    i, j = r.sample(range(len(v)), 2)
    v[i], v[j] = lo, hi
    if sorted(v) == sorted(base):
        v[(set(range(len(v))) - {i, j}).pop()] = lo
    return v


def _cfg_kw(r):
    return {"simple": r.random() < 0.4, "total": r.choice(["none", "none", "exact", "less", "more", "zero"]),
            "desc": r.choice(["", "lbl"]), "leave": r.random() < 0.5, "miniters": r.choice([1, 2, 0]), "n_bars": r.choice([20, 3])}


def _pm_kw(r, n, exn=False):
    kw = {"a": r.randrange(-3, 4), "b": r.randrange(-9, 10), "lat": r.randrange(1, 50),
          "chunksize": r.choice([1, 2, 3, max(n, 1), n + 1]), "nproc": r.choice([1, 2, 3]), "total": r.choice(["given", "absent"])}
    if exn:
        kw.update(exn=True, p=r.choice([2, 3, 5]), r=r.randrange(0, 2), q=r.choice([3, 4]), s=r.randrange(0, 3))
    return kw


def h_quicksort(r, kind):
    n = r.randrange(3, 12)
    v1 = [r.randrange(0, 5) for _ in range(n)]
    v2 = _same_ends(r, v1, 0, 5)
    return [{"op": "set", "obj": "A", "kind": kind, "values": v1}, {"op": "quicksort", "obj": "A"},
            {"op": "set", "obj": "A", "kind": kind, "values": v2}, {"op": "quicksort", "obj": "A"},      # same object, new contents
            {"op": "set", "obj": "B", "kind": kind, "values": v2, "fresh": True}, {"op": "quicksort", "obj": "B"},  # other object, equal contents
            {"op": "quicksort", "obj": "A"},                                                              # already sorted
            {"op": "set", "obj": "A", "kind": kind, "values": v1[::-1]}, {"op": "quicksort", "obj": "A"},
            {"op": "set", "obj": "A", "kind": kind, "values": _same_minmax(r, v1)}, {"op": "quicksort", "obj": "A"}]


def h_qskv(r, kind):
    n = r.randrange(3, 10)
    k1 = [r.randrange(0, 4) for _ in range(n)]
    k2 = _same_ends(r, k1, 0, 4)
    v = list(range(100, 100 + n))
    return [{"op": "set", "obj": "K", "kind": kind, "values": k1}, {"op": "set", "obj": "V", "kind": kind, "values": v},
            {"op": "quicksort_keyvalue", "keys": "K", "vals": "V"},
            {"op": "set", "obj": "K", "kind": kind, "values": k2}, {"op": "quicksort_keyvalue", "keys": "K", "vals": "V"},
            {"op": "set", "obj": "K", "kind": kind, "values": k1}, {"op": "set", "obj": "V", "kind": kind, "values": v},
            {"op": "quicksort_keyvalue", "keys": "K", "vals": "V"},
            {"op": "set", "obj": "K2", "kind": kind, "values": k2, "fresh": True},
            {"op": "set", "obj": "V2", "kind": kind, "values": v[::-1], "fresh": True},
            {"op": "quicksort_keyvalue", "keys": "K2", "vals": "V2"},
            {"op": "set", "obj": "K", "kind": kind, "values": _same_minmax(r, k1)}, {"op": "set", "obj": "V", "kind": kind, "values": v},
            {"op": "quicksort_keyvalue", "keys": "K", "vals": "V"}]


def h_isplit(r):
    num, n = r.choice([r.randrange(0, 30), r.randrange(30, 200)]), r.randrange(1, 9)
    t = r.choice(["int64", "int32", "uint8"])
    return [{"op": "isplit", "num": num, "nchunks": n, "scribble": True}, {"op": "isplit", "num": num, "nchunks": n},
            {"op": "isplit", "num": num, "nchunks": n, "numtype": t, "scribble": True},
            {"op": "isplit", "num": num, "nchunks": n, "nchtype": "int64"},
            {"op": "isplit", "num": num + 1, "nchunks": n, "scribble": True}, {"op": "isplit", "num": num, "nchunks": n + 1},
            {"op": "isplit", "num": n, "nchunks": max(num, 1)}, {"op": "isplit", "num": num, "nchunks": n},
            {"op": "isplit", "num": 0, "nchunks": n, "scribble": True}, {"op": "isplit", "num": 0, "nchunks": n, "numtype": t}]


def h_splitarray(r, kind):
    n = r.randrange(2, 14)
    v1 = [r.randrange(-9, 9) for _ in range(n)]
    v2 = _same_ends(r, v1)
    nper = r.randrange(1, n + 2)
    return [{"op": "set", "obj": "A", "kind": kind, "values": v1}, {"op": "splitarray", "obj": "A", "nper": nper, "scribble": True},
            {"op": "set", "obj": "A", "kind": kind, "values": v2}, {"op": "splitarray", "obj": "A", "nper": nper},
            {"op": "splitarray", "obj": "A", "nper": nper + 1, "scribble": True},
            {"op": "splitarray", "obj": "A", "nper": nper, "npertype": "int64"},
            {"op": "set", "obj": "B", "kind": kind, "values": v2, "fresh": True}, {"op": "splitarray", "obj": "B", "nper": nper},
            {"op": "set", "obj": "A", "kind": kind, "values": v1 + [7, 7, 7]}, {"op": "splitarray", "obj": "A", "nper": nper},
            {"op": "splitarray", "obj": "A", "nper": len(v1) + 3}]


def h_pbar(r):
    n = r.randrange(3, 9)
    v1 = [10 + 3 * i for i in range(n)]
    v2 = _same_ends(r, v1, 0, 99)
    c1, c2 = _cfg_kw(r), _cfg_kw(r)
    c2["simple"] = not c1["simple"]
    c3 = dict(c1, total="exact")
    return [{"op": "set", "obj": "L", "kind": "clist", "values": v1}, {"op": "pbar", "obj": "L", "kw": c1, "keep": "W"},
            {"op": "pbar_again", "gen": "W"},
            {"op": "set", "obj": "L", "kind": "clist", "values": v2}, {"op": "pbar", "obj": "L", "kw": c1},
            {"op": "pbar", "obj": "L", "kw": c2}, {"op": "pbar", "obj": "L", "kw": c1, "kind": "gen"},
            {"op": "set", "obj": "L", "kind": "clist", "values": v2 + [1, 2, 3, 4]}, {"op": "pbar", "obj": "L", "kw": c3},
            {"op": "pbar", "obj": "L", "kw": dict(c1, total="none")}, {"op": "pbar", "obj": "L", "kw": dict(c2, total="none")},
            {"op": "set", "obj": "L", "kind": "clist", "values": v2[:2]}, {"op": "pbar", "obj": "L", "kw": dict(c2, total="none")},
            {"op": "set", "obj": "L", "kind": "clist", "values": v2 + [1, 2, 3, 4]},
            {"op": "set", "obj": "Q", "kind": "list", "values": v2[::-1]},
            {"op": "set", "obj": "M", "kind": "clist", "values": v1[:3]},
            {"op": "pbar_resume", "obj": "L", "kw": c3, "take": r.randrange(1, 4),
             "meanwhile": [{"op": "quicksort", "obj": "Q"}, {"op": "pbar", "obj": "M", "kw": c2},
                           {"op": "isplit", "num": n, "nchunks": 2, "scribble": True}]},
            {"op": "pbar", "obj": "L", "kw": c2}]


def h_interleave(r):
    n = r.randrange(2, 8)
    a = [r.randrange(0, 50) for _ in range(n)]
    b = _same_ends(r, a, 50, 99)
    ca, cb = _cfg_kw(r), _cfg_kw(r)
    return [{"op": "set", "obj": "A", "kind": "clist", "values": a}, {"op": "set", "obj": "B", "kind": "clist", "values": b},
            {"op": "interleave", "a": "A", "b": "B", "kwa": ca, "kwb": cb},
            {"op": "interleave", "a": "A", "b": "B", "kwa": ca, "kwb": ca, "kindb": "gen"},
            {"op": "set", "obj": "B", "kind": "clist", "values": b + [5, 6]},
            {"op": "interleave", "a": "B", "b": "A", "kwa": cb, "kwb": dict(cb, simple=not cb["simple"])},
            {"op": "set", "obj": "A2", "kind": "clist", "values": a, "fresh": True},      # another object, equal contents
            {"op": "interleave", "a": "A", "b": "A2", "kwa": ca, "kwb": cb}]


def h_prange(r):
    start, step, k = r.randrange(-5, 6), r.choice([1, 2, 3, -1, -2]), r.randrange(0, 8)
    a1 = [start, start + step * k, step]
    a2 = [start + 1, start + 1 + step * k, step]            # same length, other values
    c1 = _cfg_kw(r)
    return [{"op": "prange", "args": a1, "kw": c1, "keep": "R"}, {"op": "prange_again", "gen": "R"},
            {"op": "prange", "args": a2, "kw": c1}, {"op": "prange", "args": a1, "kw": dict(c1, simple=not c1["simple"])},
            {"op": "prange", "args": [abs(k)], "kw": c1}, {"op": "prange", "args": a1[:2], "kw": c1},
            {"op": "prange", "args": [1, 5, 0], "kw": c1}, {"op": "prange", "args": a1, "kw": c1}]


def h_pmap(r):
    n = r.randrange(3, 9)
    v1 = [r.randrange(-9, 9) for _ in range(n)]
    v2 = _same_ends(r, v1)
    f1, f2 = _pm_kw(r, n), _pm_kw(r, n)
    f2["chunksize"], f2["nproc"] = f1["chunksize"], f1["nproc"]
    return [{"op": "set", "obj": "P", "kind": "list", "values": v1}, {"op": "pmap", "obj": "P", "kw": dict(f1, scribble=True)},
            {"op": "pmap", "obj": "P", "kw": f1},                                                         # after the caller changed the RESULT
            {"op": "set", "obj": "P", "kind": "list", "values": v2}, {"op": "pmap", "obj": "P", "kw": f1},     # same object, modified
            {"op": "pmap", "obj": "P", "kw": f2},                                                         # same items, other function
            {"op": "pmap", "obj": "P", "kw": _pm_kw(r, n, exn=True)},                                     # a call that raises ...
            {"op": "pmap", "obj": "P", "kw": dict(f1, chunksize=n + 1, nproc=1)},                         # ... and the next one
            {"op": "set", "obj": "P2", "kind": "list", "values": v2, "fresh": True}, {"op": "pmap", "obj": "P2", "kw": f1}]


def h_mixed(r):
    hs = [h_quicksort(r, "list"), h_isplit(r), h_splitarray(r, "ndarray"), h_interleave(r), h_prange(r)]
    for j, h in enumerate(hs):           # every sub-history keeps its own objects
        for st in h:
            for key in ("obj", "a", "b", "keys", "vals", "keep", "gen"):
                if key in st:
                    st[key] = "%s%d" % (st[key], j)
    steps, k = [], 0
    while any(hs):
        h = hs[k % len(hs)]
        k += 1
        take = r.randrange(1, 4)
        # keep a `set` together with the call that follows it
        while h and take > 0:
            st = h.pop(0)
            steps.append(st)
            if st["op"] != "set":
                take -= 1
    return steps


def histories(ctx, round):
    r = ctx.rng
    hs = []
    if round == 0:
        hs += [("quicksort/list", h_quicksort(r, "list")), ("quicksort/ndarray", h_quicksort(r, "ndarray")),
               ("quicksort_keyvalue/list", h_qskv(r, "list")), ("quicksort_keyvalue/ndarray", h_qskv(r, "ndarray")),
               ("isplit", h_isplit(r)), ("isplit", h_isplit(r)),
               ("splitarray/ndarray", h_splitarray(r, "ndarray")), ("splitarray/list", h_splitarray(r, "list")),
               ("pbar", h_pbar(r)), ("pbar", h_pbar(r)), ("pbar", h_pbar(r)), ("interleave", h_interleave(r)),
               ("interleave", h_interleave(r)), ("prange", h_prange(r)), ("prange", h_prange(r)),
               ("pmap", h_pmap(r)), ("pmap", h_pmap(r)), ("mixed", h_mixed(r)), ("mixed", h_mixed(r))]
    mk = [("quicksort/list", lambda: h_quicksort(r, "list")), ("quicksort/ndarray", lambda: h_quicksort(r, "ndarray")),
          ("quicksort_keyvalue/list", lambda: h_qskv(r, "list")), ("isplit", lambda: h_isplit(r)),
          ("splitarray/ndarray", lambda: h_splitarray(r, "ndarray")), ("splitarray/list", lambda: h_splitarray(r, "list")),
          ("pbar", lambda: h_pbar(r)), ("interleave", lambda: h_interleave(r)), ("prange", lambda: h_prange(r)),
          ("mixed", lambda: h_mixed(r))]
    for k in range(ctx.n(12, 150)):
        name, f = mk[k % len(mk)]
        hs.append((name, f()))
    for _ in range(ctx.n(0, 10)):
        hs.append(("pmap", h_pmap(r)))
    return [{"steps": st, "family": "history/" + name} for name, st in hs]


_FRESH = []


def _fresh():
    if not _FRESH:
        import atexit
        _FRESH.append(c20_seq.Fresh(core.VERIF))
        atexit.register(_FRESH[0].close)
    return _FRESH[0]


def _cout(o):
    return "(%s, %s)" % (cpairs(o["yielded"]), "None" if o["end"] is None else "Some " + o["end"])


def _ccfg(i):
    return "{| simple := %s; has_len := %s; total := %s |}" % (cbool(i.get("simple", False)), cbool(i.get("kind") != "gen"),
                                                             copt(i.get("total")))


def _lists(l):
    return "[" + "; ".join(clist(x) for x in l) + "]"


def step_term(rec):
    """the verdict term of one call of a history (the same verdict functions as the single-call entries)"""
    op, i, o = rec["op"], rec["in"], rec["out"]
    if op == "results_unchanged":          # theorem C20_results_unchanged_by_later_calls, observed on the real objects
        return "verdict %s true" % cbool(all(o))
    if op == "quicksort":
        return "v_quicksort %s %s" % (clist(i["data"]), cres(o, clist))
    if op == "quicksort_keyvalue":
        return "v_quicksort_kv %s %s" % (cpairs(zip(i["k"], i["v"])), cres(o, cpairs))
    if op == "isplit":
        return "v_isplit %s %s %s" % (cz(i["num"]), cz(i["nchunks"]), cres(o, cpairs))
    if op == "splitarray":
        return "v_splitarray %s %s %s" % (cz(i["nper"]), clist(i["var"]), cres(o, _lists))
    if op == "pbar":
        return "v_pbar %s %s %s" % (_ccfg(i), clist(i["items"]), _cout(o))
    if op in ("pbar_again", "prange_again"):
        return "v_exhausted %s" % _cout(o)
    if op == "pbar_resume":
        first, rest = o["first"], o["rest"]
        whole = first if first["end"] is not None else {"yielded": first["yielded"] + rest["yielded"], "end": rest["end"]}
        return "v_pbar %s %s %s" % (_ccfg(i), clist(i["items"]), _cout(whole))
    if op == "interleave":
        return "vjoin [v_pbar %s %s %s; v_pbar %s %s %s]" % (_ccfg(i["a"]), clist(i["a"]["items"]), _cout(o["a"]),
                                                            _ccfg(i["b"]), clist(i["b"]["items"]), _cout(o["b"]))
    if op == "prange":
        try:
            it = "(Some %s)" % clist(list(range(*i["args"])))
        except Exception:  # noqa
            it = "None"
        return "v_prange %s %s %s %s" % (_ccfg(dict(i, kind="list")), clist(i["args"]), it, _cout(o))
    if op == "pmap":
        if i.get("exn"):
            end = "None" if o[0] == "ok" else "(Some %s)" % o[1]
            return "v_pmap_exn %s %s %s %s %s %s %s %s %s %s (-1)%%Z %s" % (
                cz(i["a"]), cz(i["b"]), cz(i["p"]), cz(i["r"]), cz(i["q"]), cz(i["s"]), clist(i["items"]), cz(i["chunksize"]),
                end, clist(o[1] if o[0] == "ok" else []), cz(len(i["items"])))
        return "v_pmap %s %s %s %s %s" % (cz(i["a"]), cz(i["b"]), clist(i["items"]), cz(i["chunksize"]), cres(o, clist))
    raise ValueError(op)


class Sequence(Entry):
    """histories over every entry point; every call judged by the model and the verified checker AND compared with the same
    call made alone in a fresh process"""
    name = "sequence"

    def cases(self, ctx, round=0):
        return histories(ctx, round)

    def impl(self, c):
        recs = c20_seq.run_history(json.loads(json.dumps(c["steps"])))
        fr = _fresh()
        for rec in recs:
            if rec["op"] == "results_unchanged":
                rec["same_as_alone"] = True
                continue
            rec["alone"] = fr.call(rec["op"], rec["in"])
            rec["same_as_alone"] = c20_seq.canon(rec["alone"]) == c20_seq.canon(json.loads(json.dumps(rec["out"])))
            if rec["same_as_alone"]:
                del rec["alone"]
        return recs

    def term(self, c, out):
        return "vjoin [%s]" % "; ".join("v_hist (%s) %s" % (step_term(rec), cbool(rec["same_as_alone"])) for rec in out)

    def nontrivial(self, c, out):
        return len(out) >= 3

    def classify(self, c, out, v):
        return None


ENTRIES = [ISplit(), SplitArray(), QuickSort(), QuickSortKV(), PBar(), FormatInterval(), Nested(), PRange(), PMap(), PMapExn(),
           Sequence()]

TRUSTED = [
    "Coq 8.16.1 kernel (coqc, vm_compute; no native_compute); all C20 theorems are closed under the global context (no axioms)",
    "translator harness/props/c20_translate.py + harness/translate/tint.py (python ast -> C20/Gen.v, fail closed): trusted to print "
    "what the source says for the holes of its templates (isplit core / section sizes / indices, splitarray chunk count and slice "
    "bounds, every expression of partition / _quicksort and the key-value twins, format_interval, the total shown by format_meter, "
    "dispatch / total fallback / loop-body statement order / counter and update tests of pbar, _pbar_full, sbar) and to reject any "
    "other change of the anchored functions; C20/Tie.v proves Gen = model for all inputs (re-checked on every run); the regenerated "
    "functions are also covered by the correspondence run because the model they are proved equal to is",
    "hand-written models C20/Model.v, Model2.v; tied to /repo by Gen.v/Tie.v where regenerated and by the correspondence run on "
    "every check (differential testing, bounded by the generators)",
    "modelled, not verified: CPython generator semantics (a generator body runs up to its yield; laziness is observed through a "
    "counting iterable), python's range, ProcessPoolExecutor.map (executor model: the input is consumed when map() is called, chunks "
    "complete in any order, one raise loses its whole chunk, results and the first raise are retrieved in submission order), numpy "
    "slicing/cumsum, time.time() (monotone; the meter schedule is compared exactly only for mininterval=0), the float formatting of "
    "the meter (pinned by text, not modelled)",
    "history model C20/History.v (heap of objects; effects computed from argument contents only): the real objects are observed "
    "through the histories of entry `sequence` (each call also made alone in a fresh process; every retained result re-read at the "
    "end of the history); aliasing of splitarray's chunks with an ndarray argument (views) is not modelled",
    "format_meter's float branch: only its divisions (regenerated with their path conditions, elapsed through its sign) are "
    "modelled; string formatting of finite floats is assumed not to raise; numpy fixed-width integer arguments are outside the "
    "statement (python ints): inside their range they are exercised by the histories, isplit(np.uint8(200), 300) raises OverflowError",
    "python harness (harness/props/C20.py, c20_seq.py): generators, drivers, parser of the meter text, literal printers; coqc "
    "evaluating Exec.v verdict terms",
]


def regenerate(ctx):
    """C20/Gen.v from the sources of the tree under check; True when the text could be produced"""
    try:
        text, changed = c20_translate.regenerate(ctx.impl, core.COQDIR)
        ctx.obligation("C20/Gen.v regenerated from esutil/algorithm.py, numpy_util.py, pbar.py (%d definitions)%s" % (
            len(re.findall(r"^\s*(?:Definition|Fixpoint) ", text, re.M)), " [text changed]" if changed else ""), True)
        if changed:
            ctx.notes.append("Gen.v regenerated from the source differs from the text of the last build: C20/Tie.v and "
                             "Properties.v are re-checked against it")
        return True
    except Exception as e:  # noqa  (Untranslatable, SyntaxError, OSError)
        # the text on disk may stem from another (mutated) tree: fall back to the last text whose proofs were checked
        gen = os.path.join(core.COQDIR, c20_translate.GEN_REL)
        if os.path.exists(gen + ".good") and open(gen + ".good").read() != open(gen).read():
            tmp = gen + ".tmp.%d" % os.getpid()
            open(tmp, "w").write(open(gen + ".good").read())
            os.replace(tmp, gen)
        ctx.obligation("C20/Gen.v regenerated from esutil/algorithm.py, numpy_util.py, pbar.py", False, str(e))
        ctx.violation("translation of the anchored functions failed (fail closed): %s" % str(e)[:300],
                      {"kind": "translation", "error": str(e),
                       "no_longer_checks": "tie of C20/Gen.v to esutil/algorithm.py, numpy_util.py, pbar.py; the theorems "
                                           "C20_source_* / C20_*_of_source are about the last text that could be translated"},
                      found_input=False)
        return False


GEN_SEARCH = [
    # (what, Coq term : option <counterexample>) evaluated against Gen.v when the tie theorems no longer hold
    ("gen_isplit violates isplit_ok",
     "find (fun p => match gen_isplit (fst p) (snd p) with Ok l => negb (isplit_check (fst p) (snd p) l) | Err _ => true end) "
     "(flat_map (fun a => map (fun b => (a, b)) (zseq 1 12)) (zseq 0 40))"),
    ("gen_splitarray violates splitarray_ok",
     "find (fun p => match gen_splitarray (snd p) (zseq 7 (Z.to_nat (fst p))) with Ok cs => negb (splitarray_check (snd p) (zseq 7 (Z.to_nat (fst p))) cs) "
     "| Err _ => true end) (flat_map (fun a => map (fun b => (a, b)) (zseq 1 8)) (zseq 0 25))"),
    ("gen_quicksort does not sort",
     "find (fun l => match gen_quicksort (fun x => x) 0 l with Some o => negb (sort_check l o) | None => true end) "
     "(flat_map all_lists (seq 0 7))"),
    ("gen_quicksort_kv does not sort / keep pairs",
     "find (fun l => match gen_quicksort_kv fst (0, 0) (with_values l) with Some o => negb (sortkv_check (with_values l) o) | None => true end) "
     "(flat_map all_lists (seq 0 7))"),
]


def search_in_gen(ctx):
    """DESIGN 5.2: the tie theorems failed -- evaluate the NEW regenerated definitions against the verified checkers on small
    scopes inside Coq; a counterexample is a failing input of the source as translated"""
    ok, log = core.coq_make(["theories/C20/Gen.vo", "theories/C20/Exec.vo"])
    if not ok:
        ctx.notes.append("regenerated Gen.v does not compile: " + log[-400:])
        return
    pre = PRE + "From EsVerif.C20 Require Import Model2 Gen.\n"
    for what, term in GEN_SEARCH:
        try:
            txt = core.coq_show(os.path.join(ctx.work, "gensearch"), pre, term)
        except Exception as e:  # noqa
            ctx.notes.append("search in Gen.v (%s): %s" % (what, str(e)[:200]))
            continue
        m = re.search(r"=\s*(Some .*?)\s*:\s*option", txt, re.S)
        if m:
            ctx.violation("regenerated source: %s" % what,
                          {"kind": "failing-input", "entry": "Gen.v", "counterexample": " ".join(m.group(1).split()),
                           "term": term, "class": None}, found_input=True)


SWEEPS = {
    # name -> (quick term, thorough term): exhaustive model-vs-checker sweeps inside Coq
    "sorts: every list over {0,1,2}, both variants": ("sort_sweep 5", "sort_sweep 8"),
    "splitarray: every (length, nper)": ("splitarray_sweep 15 6", "splitarray_sweep 60 20"),
    "pmap / pmap_exn: every permutation of the chunk completions (+ one repeated)": ("pmap_sweep 4", "pmap_sweep 6"),
    "pbar: every configuration x total in None, 0..n+2; skeleton interpreter = model": ("pbar_sweep 4", "pbar_sweep 7"),
}


def run(ctx, replay=None):
    ctx.rule = ("corpus + adversarial families + seeded random cases per entry point; every case is run on the real esutil "
                "(scratch build of the working tree) and inside Coq (model = implementation?  verified checker on the "
                "implementation's output).  non-trivial: isplit num mod nchunks <> 0; splitarray ragged last chunk; sorts: >= 3 "
                "items, neither sorted nor reverse-sorted; pbar / nested / prange >= 3 items; pmap nproc >= 2 with >= 2 chunks; "
                "pmap_exn >= 2 chunks and (a raise or nproc >= 2); format: t >= 60 or a total given.  distinct by canonical JSON.  "
                "thorough: isplit 201x60, sorts over {0,1,2}^k k<=6, splitarray 31x12 on the real code; model sweeps inside Coq.")
    ctx.trusted = TRUSTED
    regenerated = regenerate(ctx)
    built = core.proof_step(ctx, "C20", core.ALLOW_DISCRETE)
    if built and regenerated:
        gen = os.path.join(core.COQDIR, c20_translate.GEN_REL)
        if not os.path.exists(gen + ".good") or open(gen + ".good").read() != open(gen).read():
            open(gen + ".good", "w").write(open(gen).read())
    if not built:
        # Tie.v / Properties.v no longer hold for this source text.  Model, Spec and Exec do not depend on Gen.v: keep
        # looking for a failing input, in the regenerated text (inside Coq) and on the real code (differential)
        if regenerated:
            search_in_gen(ctx)
        ok, log = core.coq_make(["theories/C20/Exec.vo"])
        if not ok:
            return
    if replay is None:
        names = list(SWEEPS)
        terms = ["if %s then 0 else 1" % SWEEPS[k][0 if ctx.quick() else 1] for k in names]
        if not ctx.quick():
            names.append("isplit: 0..200 x 1..60")
            terms.append("if isplit_sweep 201 60 then 0 else 1")
        try:
            vals = core.coq_eval(ctx.work + "/sweep", PRE, terms, tag="sweep", shard=1)
        except core.CoqEvalError as e:
            vals = [None] * len(terms)
            ctx.notes.append("sweeps: " + str(e)[-400:])
        for k, t, v in zip(names, terms, vals):
            ctx.obligation("exhaustive sweep in Coq (vm_compute): %s [%s]" % (k, t[3:-14]), v == "0")
            if v != "0":
                ctx.violation("model sweep fails: %s" % k, {"kind": "sweep", "term": t, "value": v,
                                                            "no_longer_checks": "model vs checker on the small scope " + k},
                              found_input=False)
    differential(ctx, PRE, ENTRIES, replay)

"""C20 — sorting, chunking, progress and parallel wrappers (DESIGN.md section 7, C20)."""
import functools
import io

from .. import core
from ..core import cz, clist, copt, cbool
from ..runner import Entry, differential

PRE = "From EsVerif.Common Require Import Base.\nFrom EsVerif.C20 Require Import Model Spec Exec.\n"


def cpairs(l):
    return "[" + "; ".join("(%s, %s)" % (cz(a), cz(b)) for a, b in l) + "]"


def cres(out, f):
    return "(Ok %s)" % f(out[1]) if out[0] == "ok" else "(Err %s)" % out[1]


class ISplit(Entry):
    name = "isplit"

    def cases(self, ctx, round=0):
        r = ctx.rng
        cs = []
        if round == 0:
            if ctx.quick():
                for num in list(range(0, 13)) + [59, 60, 61, 199, 200]:
                    for n in (1, 2, 3, 7, 12, 13, 60):
                        cs.append({"num": num, "nchunks": n, "family": "grid"})
            else:
                ctx.exhaustive = True
                for num in range(0, 201):
                    for n in range(1, 61):
                        cs.append({"num": num, "nchunks": n, "family": "exhaustive-200x60"})
            for n in (0, -1, -5):
                cs.append({"num": 10, "nchunks": n, "family": "rejected"})
        for _ in range(ctx.n(150, 1500)):
            num = r.choice([r.randrange(0, 50), r.randrange(0, 5000), r.randrange(0, 10**12)])
            cs.append({"num": num, "nchunks": r.choice([r.randrange(1, 10), r.randrange(1, 300)]), "family": "random"})
        return cs

    def impl(self, c):
        import esutil.algorithm as alg

        def f():
            # the result must be a function of (num, nchunks) only: call, scribble over the returned array the way a
            # caller shifting the ranges would, call again and report the SECOND answer (catches results that are
            # shared between calls, e.g. a memoised mutable array)
            first = alg.isplit(c["num"], c["nchunks"])
            first["start"] += 1000
            first["end"] -= 7
            s = alg.isplit(c["num"], c["nchunks"])
            return [(int(a), int(b)) for a, b in zip(s["start"], s["end"])]
        return core.guarded(f)

    def term(self, c, out):
        return "v_isplit %s %s %s" % (cz(c["num"]), cz(c["nchunks"]), cres(out, cpairs))

    def nontrivial(self, c, out):
        return c["nchunks"] >= 1 and c["num"] % c["nchunks"] != 0

    def show(self, c):
        return "isplit %s %s" % (cz(c["num"]), cz(c["nchunks"]))


class SplitArray(Entry):
    name = "splitarray"

    def cases(self, ctx, round=0):
        r = ctx.rng
        cs = []
        if round == 0:
            for n in range(0, 12):
                for nper in range(1, 8):
                    cs.append({"nper": nper, "var": [r.randrange(-50, 50) for _ in range(n)], "family": "grid"})
        for _ in range(ctx.n(100, 1500)):
            n = r.randrange(0, 120)
            cs.append({"nper": r.choice([1, 2, 3, 5, n, n + 1, max(1, n - 1), r.randrange(1, 40)]) or 1,
                       "var": [r.randrange(-10**6, 10**6) for _ in range(n)], "family": "random"})
        return cs

    def impl(self, c):
        import numpy as np
        import esutil.numpy_util as nu

        def f():
            return [[int(x) for x in ch] for ch in nu.splitarray(c["nper"], np.array(c["var"], dtype="i8"))]
        return core.guarded(f)

    def term(self, c, out):
        return "v_splitarray %s %s %s" % (cz(c["nper"]), clist(c["var"]),
                                          cres(out, lambda l: "[" + "; ".join(clist(x) for x in l) + "]"))

    def nontrivial(self, c, out):
        return len(c["var"]) >= 3 and len(c["var"]) % c["nper"] != 0 and c["nper"] < len(c["var"])

    def show(self, c):
        return "splitarray %s %s" % (cz(c["nper"]), clist(c["var"]))


def _arrays(ctx, round):
    r = ctx.rng
    out = []
    if round == 0:
        out += [([], "empty"), ([5], "single"), ([2, 1], "pair"), ([1, 1, 1, 1], "constant"),
                (list(range(40)), "sorted"), (list(range(40, 0, -1)), "reversed"), ([3, 1, 3, 1, 0, 3, 1], "ties")]
    for _ in range(ctx.n(120, 2000)):
        n = r.randrange(0, 60)
        kind = r.choice(["ties", "wide", "sorted", "reversed", "nearly"])
        if kind == "ties":
            a = [r.randrange(0, 4) for _ in range(n)]
        elif kind == "wide":
            a = [r.randrange(-10**9, 10**9) for _ in range(n)]
        elif kind == "sorted":
            a = sorted(r.randrange(0, 30) for _ in range(n))
        elif kind == "reversed":
            a = sorted((r.randrange(0, 30) for _ in range(n)), reverse=True)
        else:
            a = list(range(n))
            if n > 1:
                i, j = r.randrange(n), r.randrange(n)
                a[i], a[j] = a[j], a[i]
        out.append((a, kind))
    return out


def _unsorted(a):
    return len(a) >= 3 and a != sorted(a) and a != sorted(a, reverse=True)


class QuickSort(Entry):
    name = "quicksort"

    def cases(self, ctx, round=0):
        return [{"d": a, "family": k, "container": ctx.rng.choice(["list", "ndarray"])} for a, k in _arrays(ctx, round)]

    def impl(self, c):
        import numpy as np
        import esutil.algorithm as alg

        def f():
            d = list(c["d"]) if c["container"] == "list" else np.array(c["d"], dtype="i8")
            alg.quicksort(d)
            return [int(x) for x in d]
        return core.guarded(f)

    def term(self, c, out):
        return "v_quicksort %s %s" % (clist(c["d"]), cres(out, clist))

    def nontrivial(self, c, out):
        return _unsorted(c["d"])

    def show(self, c):
        return "quicksort %s" % clist(c["d"])


class QuickSortKV(Entry):
    name = "quicksort_keyvalue"

    def cases(self, ctx, round=0):
        return [{"k": a, "v": list(range(100, 100 + len(a))), "family": k} for a, k in _arrays(ctx, round)]

    def impl(self, c):
        import esutil.algorithm as alg

        def f():
            k, v = list(c["k"]), list(c["v"])
            alg.quicksort_keyvalue(k, v)
            return list(zip(k, v))
        return core.guarded(f)

    def term(self, c, out):
        return "v_quicksort_kv %s %s" % (cpairs(zip(c["k"], c["v"])), cres(out, cpairs))

    def nontrivial(self, c, out):
        return _unsorted(c["k"])

    def show(self, c):
        return "quicksort_keyvalue %s" % cpairs(zip(c["k"], c["v"]))


class PBar(Entry):
    name = "pbar"

    def cases(self, ctx, round=0):
        r = ctx.rng
        cs = []
        kinds = ["list", "range", "generator", "prange"]
        for kind in kinds:
            for n in ([0, 1, 3, 12] if round == 0 else [r.randrange(0, 30)]):
                for simple in (False, True):
                    for tot in ("none", "exact", "less", "more", "zero"):
                        cs.append({"kind": kind, "n": n, "simple": simple, "total": tot,
                                   "desc": r.choice(["", "lbl"]), "leave": r.random() < 0.5,
                                   "mininterval": r.choice([0, 0.5]), "miniters": r.choice([1, 3]),
                                   "n_bars": r.choice([20, 5, 1]),
                                   "family": "%s/%s/total=%s" % (kind, "simple" if simple else "full", tot)})
        return cs

    @staticmethod
    def _total(c):
        n = c["n"]
        return {"none": None, "exact": n, "less": max(n - 2, 1), "more": n + 5, "zero": 0}[c["total"]]

    def impl(self, c):
        import esutil.pbar as pb
        n = c["n"]
        items = [10 + 3 * i for i in range(n)]
        pulled = [0]

        class Src(list):
            def __iter__(self_):
                for x in list.__iter__(self_):
                    pulled[0] += 1
                    yield x

        def gen():
            for x in items:
                pulled[0] += 1
                yield x
        kw = dict(desc=c["desc"], total=self._total(c), leave=c["leave"], file=io.StringIO(),
                  mininterval=c["mininterval"], miniters=c["miniters"], n_bars=c["n_bars"], simple=c["simple"])
        got, end = [], None
        try:
            if c["kind"] == "prange":
                it = pb.prange(10, 10 + 3 * n, 3, **kw)
                for x in it:
                    got.append((int(x), len(got) + 1))     # range has no observable pulls
            else:
                src = Src(items) if c["kind"] == "list" else (gen() if c["kind"] == "generator" else _CountRange(items, pulled))
                for x in pb.pbar(src, **kw):
                    got.append((int(x), pulled[0]))
        except Exception as e:  # noqa
            end = "EOther" if isinstance(e, ZeroDivisionError) else core.errclass(e)
        return {"yielded": got, "end": end}

    def _cfg(self, c):
        has_len = c["kind"] != "generator"
        return "{| simple := %s; has_len := %s; total := %s |}" % (cbool(c["simple"]), cbool(has_len), copt(self._total(c)))

    def term(self, c, out):
        items = [10 + 3 * i for i in range(c["n"])]
        return "v_pbar %s %s (%s, %s)" % (self._cfg(c), clist(items), cpairs(out["yielded"]),
                                          "None" if out["end"] is None else "Some " + out["end"])

    def nontrivial(self, c, out):
        return c["n"] >= 3

    def show(self, c):
        return "pbar %s %s" % (self._cfg(c), clist([10 + 3 * i for i in range(c["n"])]))

    def classify(self, c, out, v):
        return None


class _CountRange:
    """range-like: has __len__, yields lazily"""
    def __init__(self, items, pulled):
        self.items, self.pulled = items, pulled

    def __len__(self):
        return len(self.items)

    def __iter__(self):
        for x in self.items:
            self.pulled[0] += 1
            yield x


class PMap(Entry):
    name = "pmap"

    def cases(self, ctx, round=0):
        r = ctx.rng
        cs = []
        for nproc in ([1, 2, 4, 8] if round == 0 else [3, 5]):
            for _ in range(ctx.n(2, 8)):
                n = r.randrange(0, 14)
                cs.append({"a": r.randrange(-3, 4), "b": r.randrange(-9, 10), "lat": r.randrange(1, 100),
                           "items": [r.randrange(-20, 20) for _ in range(n)],
                           "chunksize": r.choice([1, 2, 3, max(n, 1), n + 1]), "nproc": nproc,
                           "total": r.choice(["given", "absent"]), "family": "nproc=%d" % nproc})
        return cs

    def impl(self, c):
        import esutil.pbar as pb
        from . import c20_tasks
        fn = functools.partial(c20_tasks.task, c["a"], c["b"], c["lat"])
        kw = {"file": io.StringIO()}
        if c["total"] == "given":
            kw["total"] = len(c["items"])
        return core.guarded(lambda: [int(x) for x in pb.pmap(fn, c["items"], chunksize=c["chunksize"], nproc=c["nproc"], **kw)])

    def term(self, c, out):
        return "v_pmap %s %s %s %s %s" % (cz(c["a"]), cz(c["b"]), clist(c["items"]), cz(c["chunksize"]), cres(out, clist))

    def nontrivial(self, c, out):
        return c["nproc"] >= 2 and len(c["items"]) > c["chunksize"]

    def show(self, c):
        return "map (fun x => %s * x * x + %s) %s" % (cz(c["a"]), cz(c["b"]), clist(c["items"]))


ENTRIES = [ISplit(), SplitArray(), QuickSort(), QuickSortKV(), PBar(), PMap()]

TRUSTED = [
    "Coq 8.16.1 kernel (coqc, vm_compute; no native_compute); all C20 theorems are closed under the global context (no axioms)",
    "hand-written models C20/Model.v of algorithm.py, numpy_util.splitarray, pbar.py; tied to /repo by the correspondence run on every check (differential testing, bounded by the generators)",
    "modelled, not verified: CPython generator semantics (pbar is a generator; laziness is observed through a counting iterable), "
    "ProcessPoolExecutor.map (executor model: chunks complete in any order, results retrieved in submission order), numpy slicing/cumsum, time.time()",
    "python harness (harness/props/C20.py), literal printers, coqc evaluating Exec.v verdict terms",
]


def run(ctx, replay=None):
    ctx.rule = ("corpus + adversarial families + seeded random cases per entry point; every case is run on the real esutil "
                "(scratch build of the working tree) and inside Coq (model = implementation?  verified checker on the "
                "implementation's output).  non-trivial: isplit num mod nchunks <> 0; splitarray ragged last chunk; sorts: >= 3 "
                "items, neither sorted nor reverse-sorted; pbar >= 3 items; pmap nproc >= 2 with >= 2 chunks.  distinct by canonical JSON.")
    ctx.trusted = TRUSTED
    core.proof_step(ctx, "C20", core.ALLOW_DISCRETE)
    if not ctx.quick() and replay is None:
        # exhaustive model-vs-spec sweep inside Coq on the rectangle named by the property
        vals = core.coq_eval(ctx.work + "/sweep", PRE, ["if isplit_sweep 201 60 then 0 else 1"], tag="sweep")
        ctx.obligation("isplit_sweep 201 60 = true (vm_compute, exhaustive 0..200 x 1..60)", vals == ["0"])
    differential(ctx, PRE, ENTRIES, replay)

"""T-const / T-shape for C13: read the discrete skeleton and the constants of HTMC::cbincount,
HTMC::intersect and SpatialIndex::idByPoint out of the C++ sources of the tree under test
(esutil/htm/htmc.cc, htm_src/SpatialIndex.cpp, htm_src/SpatialGeneral.h) and of htm.py:log_bins.

Fail-closed: every statement of the modelled part of the code must match one of the shapes listed
here (after comment removal and white-space normalisation); anything else raises TranslateError,
which the check reports as a violation (the model no longer describes the code).  The result
selects/parametrises the Coq model (Model.v / Exec.v / FloatModel.v):

    index      'floor' | 'cast'     how the quotient becomes a bin number      -> Model.radbin / Model.radbin_cast
    pad_deg    Fraction             margin added to the search cap of cbincount -> radius of the cover the harness asks for
    epsilon    Fraction             gEpsilon of the inside tests                -> argument [eps] of FloatModel
    save_depth int                  number of stored levels (saveDepth default)  -> argument [save] of FloatModel
    gPi        Fraction             the literal of gPi                           -> degrees-to-radians factor of the harness' updateXYZ
"""
import os
import re
from fractions import Fraction


class TranslateError(Exception):
    pass


def strip(src):
    src = re.sub(r"/\*.*?\*/", " ", src, flags=re.S)
    src = re.sub(r"//[^\n]*", " ", src)
    return re.sub(r"\s+", " ", src)


def squeeze(s):
    """remove ALL white space: shapes are compared token-tight"""
    return re.sub(r"\s+", "", s)


def _body(src, head, what):
    """text of the function whose header starts with `head` (brace matching)"""
    i = src.find(head)
    if i < 0 or src.find(head, i + 1) >= 0:
        raise TranslateError("%s: expected exactly one definition starting with %r" % (what, head))
    j = src.find("{", i)
    depth, k = 0, j
    while k < len(src):
        if src[k] == "{":
            depth += 1
        elif src[k] == "}":
            depth -= 1
            if depth == 0:
                return src[j:k + 1]
        k += 1
    raise TranslateError("%s: unbalanced braces" % what)


def _decimal(txt, what):
    m = re.fullmatch(r"([0-9]*\.?[0-9]+)(?:[eE]([-+]?[0-9]+))?L?", txt.strip())
    if not m:
        raise TranslateError("%s: not a decimal literal: %r" % (what, txt))
    return Fraction(m.group(1)) * Fraction(10) ** int(m.group(2) or 0)


def _need(body, shapes, what):
    """exactly one of the alternative shapes (dict name -> squeezed text) occurs, exactly once"""
    hits = [(n, s) for n, s in shapes.items() if squeeze(s) in body]
    if len(hits) != 1:
        raise TranslateError("%s: expected exactly one of the shapes %s, found %s" % (what, sorted(shapes), [n for n, _ in hits]))
    n, s = hits[0]
    if body.count(squeeze(s)) != 1:
        raise TranslateError("%s: shape %s occurs %d times" % (what, n, body.count(squeeze(s))))
    return n


def cbincount(htmc_src):
    clean = strip(htmc_src)
    body = squeeze(_body(clean, "PyObject* HTMC::cbincount(", "cbincount"))
    out = {}
    # the fixed skeleton: every line the model transcribes
    for what, shape in [
        ("logrmin", "double logrmin = log10(rmin);"),
        ("logrmax", "double logrmax = log10(rmax);"),
        ("log_binsize", "double log_binsize = (logrmax-logrmin)/nbin;"),
        ("scalar scale", "if (nscale==1) { scale = *(double *) PyArray_GETPTR1((PyArrayObject *) scale_array, 0); logscale = log10(scale); }"),
        ("per-point scale", "if (nscale > 1) { scale = *(double *) PyArray_GETPTR1((PyArrayObject *) scale_array, i1); logscale = log10(scale); }"),
        ("degrees", "bool degrees = true; if (scale_array != Py_None) { degrees = false;"),
        ("maxangle", "double maxangle = rmax/scale;"),
        ("loop over first list", "for (npy_intp i1=0; i1<n1; i1++) {"),
        ("cover", "domain.setRaDecD(ra1,dec1,d); domain.intersect(&index,plist,flist);"),
        ("full nodes", "for(size_t i = 0; i < flist.length(); i++) { idlist[idcount] = flist(i); idcount++; }"),
        ("partial nodes", "for(size_t i = 0; i < plist.length(); i++) { idlist[idcount] = plist(i); idcount++; }"),
        ("loop over leaves", "for (npy_intp j=0; j<nfound; j++) { int64_t leafid = idlist[j];"),
        ("window", "if ( leafid >= minid && leafid <= maxid) { int64_t leafbin = idlist[j] - minid;"),
        ("hlo", "npy_int64 hlo = *(npy_int64* ) PyArray_GETPTR1((PyArrayObject *) htmrev2_array, leafbin);"),
        ("hhi", "npy_int64 hhi = *(npy_int64* ) PyArray_GETPTR1((PyArrayObject *) htmrev2_array, leafbin+1);"),
        ("slice", "if ( hlo != hhi) { int64_t nLeafBin = hhi - hlo; for (int64_t ileaf=0; ileaf<nLeafBin;ileaf++) { npy_int64 index = hlo + ileaf; "
                  "npy_int64 i2 = *(npy_int64* ) PyArray_GETPTR1((PyArrayObject *) htmrev2_array, index);"),
        ("separation", "double dis = gcirc(ra1, dec1, ra2, dec2, degrees); if (dis <= maxangle) { double logr = logscale + log10(dis);"),
        ("bump", "if (radbin >=0 && radbin < nbin) { npy_int64 *cptr = (npy_int64 *) PyArray_GETPTR1((PyArrayObject *) counts_array, radbin); *cptr += 1;"),
    ]:
        _need(body, {what: shape}, "cbincount/" + what)
    # the ORDER of the statements that thread the (scale, logscale) state through the loop (LoopModel.v, C13_cap_loop):
    # once before the loop for a size-1 array; inside the loop: per-point scale, maxangle, search cap, position, cover, pairs
    order = ["if (nscale==1) {", "for (npy_intp i1=0; i1<n1; i1++) {", "if (nscale > 1) {", "double maxangle = rmax/scale;",
             "d = cos(", "double ra1 = *(double *) PyArray_GETPTR1((PyArrayObject *) ra1_array, i1);",
             "domain.setRaDecD(ra1,dec1,d);", "for (npy_intp j=0; j<nfound; j++) {", "double dis = gcirc(",
             "if (dis <= maxangle) {", "double logr = logscale + log10(dis);"]
    pos = []
    for frag in order:
        k = body.find(squeeze(frag))
        if k < 0:
            raise TranslateError("cbincount/state threading: statement %r not found" % frag)
        pos.append(k)
    if pos != sorted(pos):
        bad = next(order[i + 1] for i in range(len(pos) - 1) if pos[i] > pos[i + 1])
        raise TranslateError("cbincount/state threading: %r comes too early; the loop no longer has the order LoopModel.v transcribes "
                             "(scale of point i -> maxangle -> search cap -> cover -> pairs)" % bad)
    if body.count(squeeze("d = cos(")) != (2 if "BINCOUNT_COVER_PAD_DEGREES" not in body else 1):
        raise TranslateError("cbincount/state threading: the search cap is computed in an unexpected number of places")
    out["index"] = _need(body, {
        "floor": "int radbin = (int) floor( (logr-logrmin)/log_binsize );",
        "cast": "int radbin = (int) ( (logr-logrmin)/log_binsize );",
    }, "cbincount/bin number")
    cov = _need(body, {
        "plain": "double d=0; double maxangle = rmax/scale; if (degrees) { d = cos( maxangle*D2R ); } else { d = cos( maxangle ); }",
        "padded": "double searchangle = (degrees ? maxangle*D2R : maxangle) + BINCOUNT_COVER_PAD_DEGREES*D2R; "
                  "if (searchangle > NPY_PI) { searchangle = NPY_PI; } d = cos( searchangle );",
    }, "cbincount/search cap")
    if cov == "plain":
        out["pad_deg"] = Fraction(0)
    else:
        m = re.findall(r"#define BINCOUNT_COVER_PAD_DEGREES ([^ ]+) ", clean)
        if len(m) != 1:
            raise TranslateError("expected exactly one #define BINCOUNT_COVER_PAD_DEGREES")
        out["pad_deg"] = _decimal(m[0], "BINCOUNT_COVER_PAD_DEGREES")
        if not (0 <= out["pad_deg"] <= Fraction(1, 100)):
            raise TranslateError("BINCOUNT_COVER_PAD_DEGREES = %s outside [0, 0.01]" % out["pad_deg"])
    # intersect: which lists are returned
    ib = squeeze(_body(clean, "PyObject* HTMC::intersect(", "intersect"))
    for what, shape in [
        ("cap", "double d = cos( radius*D2R );"),
        ("cover", "domain.setRaDecD(ra,dec,d); domain.intersect(&index,plist,flist);"),
        ("size", "if (inclusive) { nfound = flist.length() + plist.length(); } else { nfound = flist.length(); }"),
        ("full first", "for(size_t i = 0; i < flist.length(); i++) { idptr = (npy_intp* ) PyArray_GETPTR1((PyArrayObject *) idlist, id_index); *idptr = flist(i); id_index++; }"),
        ("partial if inclusive", "if (inclusive) { for(size_t i = 0; i < plist.length(); i++) { idptr = (npy_intp* ) PyArray_GETPTR1((PyArrayObject *) idlist, id_index); *idptr = plist(i); id_index++; } }"),
    ]:
        _need(ib, {what: shape}, "intersect/" + what)
    return out


def log_bins(htm_py_src):
    """htm.py:log_bins must be the transcription of ModelR.edge"""
    import ast
    tree = ast.parse(htm_py_src)
    fs = [n for n in tree.body if isinstance(n, ast.FunctionDef) and n.name == "log_bins"]
    if len(fs) != 1:
        raise TranslateError("expected exactly one def log_bins")
    got = [ast.unparse(s) for s in fs[0].body]
    want = ["log_rmin = np.log10(rmin)", "log_rmax = np.log10(rmax)", "log_binsize = (log_rmax - log_rmin) / nbin",
            "log_lower_edges = log_rmin + log_binsize * np.arange(nbin)", "log_upper_edges = log_lower_edges + log_binsize",
            "lower_edges = 10 ** log_lower_edges", "upper_edges = 10 ** log_upper_edges", "return (lower_edges, upper_edges)"]
    if got != want:
        raise TranslateError("htm.py:log_bins changed: %r" % (got,))
    return True


def id_by_point(index_src, general_src):
    """the skeleton of SpatialIndex::idByPoint / isInside and the constant gEpsilon"""
    clean = strip(index_src)
    body = squeeze(_body(clean, "SpatialIndex::idByPoint(SpatialVector & v) const", "idByPoint"))
    test3 = "if( (V(0) ^ V(1)) * v < -gEpsilon) continue; if( (V(1) ^ V(2)) * v < -gEpsilon) continue; if( (V(2) ^ V(0)) * v < -gEpsilon) continue; break;"
    shape = squeeze(
        "{ uint64 index; for(index=1; index <=8; index++) { " + test3 + " } "
        "while(ICHILD(0)!=0) { uint64 oldindex = index; for(size_t i = 0; i < 4; i++) { index = nodes_.vector_[oldindex].childID_[i]; " + test3 + " } } "
        "if(maxlevel_ == buildlevel_)return N(index).id_; "
        "char name[HTMNAMEMAX]; nameById(N(index).id_,name); size_t len = strlen(name); "
        "SpatialVector v0 = V(0); SpatialVector v1 = V(1); SpatialVector v2 = V(2); "
        "size_t level = maxlevel_ - buildlevel_; while(level--) { "
        "SpatialVector w0 = v1 + v2; w0.normalize(); SpatialVector w1 = v0 + v2; w1.normalize(); SpatialVector w2 = v1 + v0; w2.normalize(); "
        "if(isInside(v, v0, w2, w1)) { name[len++] = '0'; v1 = w2; v2 = w1; continue; } "
        "else if(isInside(v, v1, w0, w2)) { name[len++] = '1'; v0 = v1; v1 = w0; v2 = w2; continue; } "
        "else if(isInside(v, v2, w1, w0)) { name[len++] = '2'; v0 = v2; v1 = w1; v2 = w0; continue; } "
        "else if(isInside(v, w0, w1, w2)) { name[len++] = '3'; v0 = w0; v1 = w1; v2 = w2; continue; } } "
        "name[len] = '\\0'; return idByName(name); }")
    if body != shape:
        # point at the first difference
        k = next((i for i, (a, b) in enumerate(zip(body, shape)) if a != b), min(len(body), len(shape)))
        raise TranslateError("SpatialIndex::idByPoint changed near: ...%s" % body[max(0, k - 40):k + 60])
    ins = squeeze(_body(clean, "SpatialIndex::isInside(const SpatialVector & v, const SpatialVector & v0,", "isInside"))
    if ins != squeeze("{ if( (v0 ^ v1) * v < -gEpsilon) return false; if( (v1 ^ v2) * v < -gEpsilon) return false; "
                      "if( (v2 ^ v0) * v < -gEpsilon) return false; return true; }"):
        raise TranslateError("SpatialIndex::isInside changed: %s" % ins)
    g = strip(general_src)
    m = re.findall(r"const float64 gEpsilon = ([^ ;]+) ?;", g)
    if len(m) != 1:
        raise TranslateError("expected exactly one definition of gEpsilon, found %d" % len(m))
    return {"epsilon": _decimal(m[0], "gEpsilon")}


class _NoMsg(__import__("ast").NodeTransformer):
    """error messages are not modelled: `raise X(<anything>)` -> `raise X()`"""
    def visit_Raise(self, node):
        import ast
        if isinstance(node.exc, ast.Call):
            node.exc = ast.Call(func=node.exc.func, args=[], keywords=[])
        return node


def python_wrappers(htm_py_src):
    """HTM.lookup_id / HTM.intersect / HTM.bincount (htm.py) must be the statements Model.lookup_id,
    Model.intersect_out (inclusive flag) and Model.bincount_py transcribe"""
    import ast
    tree = ast.parse(htm_py_src)
    cls = [n for n in tree.body if isinstance(n, ast.ClassDef) and n.name == "HTM"]
    if len(cls) != 1:
        raise TranslateError("expected exactly one class HTM in htm.py")

    def stmts(name):
        fs = [n for n in cls[0].body if isinstance(n, ast.FunctionDef) and n.name == name]
        if len(fs) != 1:
            raise TranslateError("expected exactly one method HTM.%s" % name)
        f = fs[0]
        body = f.body
        if body and isinstance(body[0], ast.Expr) and isinstance(getattr(body[0], "value", None), ast.Constant):
            body = body[1:]
        return ast.unparse(f.args), [ast.unparse(ast.fix_missing_locations(_NoMsg().visit(b))) for b in body]

    want = {
        "lookup_id": ("self, ra, dec", [
            "ra = np.atleast_1d(ra).astype('f8')", "dec = np.atleast_1d(dec).astype('f8')",
            "if ra.size != dec.size:\n    raise ValueError()", "htm_ids = np.zeros(ra.size, dtype='i8')",
            "super(HTM, self).lookup_id(ra, dec, htm_ids)", "return htm_ids"]),
        "intersect": ("self, ra, dec, radius, inclusive=True", [
            "if inclusive:\n    inc = 1\nelse:\n    inc = 0", "return super(HTM, self).intersect(ra, dec, radius, inc)"]),
        "bincount": ("self, rmin, rmax, nbin, ra1, dec1, ra2, dec2, scale=None, htmid2=None, htmrev2=None, minid=None, "
                     "maxid=None, getbins=True, verbose=False", [
            "if verbose:\n    verb = 1\nelse:\n    verb = 0",
            "ra1 = np.atleast_1d(ra1).astype('f8')", "dec1 = np.atleast_1d(dec1).astype('f8')",
            "ra2 = np.atleast_1d(ra2).astype('f8')", "dec2 = np.atleast_1d(dec2).astype('f8')",
            "if ra1.size != dec1.size or ra2.size != <RA2-OR-DEC2>.size:\n    stup = (ra1.size, dec1.size, ra2.size, dec2.size)\n    raise ValueError()",
            "if scale is not None:\n    scale = np.atleast_1d(scale).astype('f8')\n    if scale.size != 1 and scale.size != ra1.size:\n        raise ValueError()",
            "if htmid2 is None:\n    htmid2 = self.lookup_id(ra2, dec2)\n    minid = htmid2.min()\n    maxid = htmid2.max()\nelse:\n"
            "    htmid2 = np.atleast_1d(htmid2).astype('i8')\n    if htmid2.size != ra2.size:\n        raise ValueError()\n"
            "    if minid is None:\n        minid = htmid2.min()\n    if maxid is None:\n        maxid = htmid2.max()",
            "if htmrev2 is None:\n    hist2, htmrev2 = stat.histogram(htmid2 - minid, rev=True)",
            "minmax_ids = np.array([minid, maxid], dtype='i8')",
            "counts = self.cbincount(rmin, rmax, nbin, ra1, dec1, ra2, dec2, htmrev2, minmax_ids, scale, verb)",
            "if getbins:\n    lower, upper = log_bins(rmin, rmax, nbin)\n    return (lower, upper, counts)\nelse:\n    return counts"]),
    }
    nravel = 0
    for name, (wargs, wbody) in want.items():
        args, body = stmts(name)
        # fixes/C13/0003 flattens N-d coordinate arrays: `.astype('f8').ravel()` / `.astype('i8').ravel()`; accepted on
        # all 8 conversions or on none (the harness produces N-d inputs only when it is there)
        for dt in ("f8", "i8"):
            k = ".astype('%s').ravel()" % dt
            nravel += sum(b.count(k) for b in body)
            body = [b.replace(k, ".astype('%s')" % dt) for b in body]
        # the size test of the second list compares ra2 with itself in the as-found code (a typo that only concerns
        # invalid inputs); both spellings are accepted
        if name == "bincount":
            typo = any("ra2.size != ra2.size" in b for b in body)
            # fixes/C13/0004: precomputed reverse indices are converted like htmid2 (`else:` branch of `if htmrev2 is None:`);
            # both spellings are accepted, the harness is told which one the source has
            conv = "\nelse:\n    htmrev2 = np.atleast_1d(htmrev2).astype('i8')"
            rev_converted = any(b.startswith("if htmrev2 is None:") and b.endswith(conv) for b in body)
            body = [b[:-len(conv)] if b.startswith("if htmrev2 is None:") and b.endswith(conv) else b for b in body]
        body = [b.replace("ra2.size != ra2.size", "ra2.size != <RA2-OR-DEC2>.size").replace("ra2.size != dec2.size", "ra2.size != <RA2-OR-DEC2>.size")
                for b in body]
        if args != wargs:
            raise TranslateError("htm.py: HTM.%s signature changed: %s" % (name, args))
        if body != wbody:
            k = next((i for i, (a, b) in enumerate(zip(body, wbody)) if a != b), min(len(body), len(wbody)))
            raise TranslateError("htm.py: HTM.%s changed at statement %d: %r" % (name, k, body[k] if k < len(body) else "<missing>"))
    nconv = 9 if rev_converted else 8
    if nravel not in (0, nconv):
        raise TranslateError("htm.py: %d of the %d array conversions of lookup_id/bincount are flattened (expected none or all)" % (nravel, nconv))
    return {"ravel": nravel == nconv, "ra2_typo": typo, "rev_converted": rev_converted}


def vector_ops(vec_src, edge_src, index_src, iface_h, iface_cpp, htmc_src, general_src):
    """the arithmetic FloatModel.v transcribes: SpatialVector + ^ * normalize updateXYZ, the mid-points and the
    child order of the stored levels, the number of stored levels, the constant gPr"""
    v = squeeze(strip(vec_src))
    for what, shape in [
        ("updateXYZ", "SpatialVector::updateXYZ() { float64 cd = cos(dec_*gPr); x_ = cos(ra_*gPr) * cd; y_ = sin(ra_*gPr) * cd; z_ = sin(dec_*gPr); }"),
        ("normalize", "SpatialVector::normalize() { float64 sum; sum = x_*x_ + y_*y_ + z_*z_; sum = sqrt(sum); x_ /= sum; y_ /= sum; z_ /= sum; }"),
        ("dot", "SpatialVector::operator *(const SpatialVector & v) const { return (x_*v.x_)+(y_*v.y_)+(z_*v.z_); }"),
        ("plus", "SpatialVector::operator +(const SpatialVector & v) const { return SpatialVector(x_+v.x_, y_+v.y_, z_+v.z_); }"),
        ("cross", "SpatialVector::operator ^(const SpatialVector &v) const { return SpatialVector(y_ * v.z_ - v.y_ * z_, z_ * v.x_ - v.z_ * x_, x_ * v.y_ - v.x_ * y_); }"),
        ("xyz constructor", "SpatialVector::SpatialVector(float64 x, float64 y, float64 z) : x_(x), y_(y), z_(z), okRaDec_(false) { }"),
        ("radec constructor", "SpatialVector::SpatialVector(float64 ra, float64 dec) : ra_(ra), dec_(dec), okRaDec_(true) { updateXYZ(); updateRaDec(); }"),
    ]:
        _need(v, {what: shape}, "SpatialVector/" + what)
    e = squeeze(strip(edge_src))
    for what, shape in [
        ("getMidPoint", "SpatialEdge::getMidPoint(Edge *em) { tree_.vertices_[index_] = tree_.vertices_[em->start_] + tree_.vertices_[em->end_]; "
                        "tree_.vertices_[index_].normalize(); return index_++; }"),
        ("edge 0", "case 0: em->start_ = IV(1); em->end_ = IV(2); break;"),
        ("edge 1", "case 1: em->start_ = IV(0); em->end_ = IV(2); break;"),
        ("edge 2", "case 2: em->start_ = IV(0); em->end_ = IV(1); break;"),
        ("register", "IW(k) = getMidPoint(em);"),
    ]:
        _need(e, {what: shape}, "SpatialEdge/" + what)
    ix = squeeze(strip(index_src))
    for what, shape in [
        ("vertices", "float64 v[6][3] = { {0.0L, 0.0L, 1.0L}, {1.0L, 0.0L, 0.0L}, {0.0L, 1.0L, 0.0L}, {-1.0L, 0.0L, 0.0L}, {0.0L, -1.0L, 0.0L}, {0.0L, 0.0L, -1.0L} };"),
        ("roots", "index_ = 1; newNode(1,5,2,8,0); newNode(2,5,3,9,0); newNode(3,5,4,10,0); newNode(4,5,1,11,0); "
                  "newNode(1,0,4,12,0); newNode(4,0,3,13,0); newNode(3,0,2,14,0); newNode(2,0,1,15,0);"),
        ("children", "id = N(index).id_ << 2; ICHILD(0) = newNode(IV(0),IW(2),IW(1),id++,index); ICHILD(1) = newNode(IV(1),IW(0),IW(2),id++,index); "
                     "ICHILD(2) = newNode(IV(2),IW(1),IW(0),id++,index); ICHILD(3) = newNode(IW(0),IW(1),IW(2),id,index);"),
        ("buildlevel", "maxlevel_(maxlevel), buildlevel_( (buildlevel == 0 || buildlevel > maxlevel) ? maxlevel : buildlevel)"),
        ("macro V", "#define V(x) vertices_.vector_[nodes_.vector_[index].v_[(x)]]"),
    ]:
        _need(ix, {what: shape}, "SpatialIndex/" + what)
    ih = strip(iface_h)
    m = re.findall(r"void init\(size_t depth = ([0-9]+), size_t saveDepth = ([0-9]+)\);", ih)
    if len(m) != 1:
        raise TranslateError("expected exactly one declaration `void init(size_t depth = N, size_t saveDepth = M);`")
    save = int(m[0][1])
    _need(squeeze(strip(iface_cpp)), {"init": "void htmInterface::init(size_t depth, size_t savedepth) { if (index_) delete index_; if (t_) delete t_; "
                                              "index_ = new SpatialIndex(depth, savedepth); }"}, "htmInterface::init")
    _need(squeeze(strip(htmc_src)), {"HTMC::init": "void HTMC::init(int depth) throw (const char *) { mDepth = depth; mHtmInterface.init(depth);"}, "HTMC::init")
    _need(squeeze(strip(htmc_src)), {"lookup": "npy_int64 id = (npy_int64) mHtmInterface.lookupID(*raptr, *decptr); *idptr = id;"}, "HTMC::lookup_id")
    g = strip(general_src)
    m = re.findall(r"const float64 gPi = ([^ ;]+) ?;", g)
    if len(m) != 1:
        raise TranslateError("expected exactly one definition of gPi")
    gpi = _decimal(m[0], "gPi")
    _need(squeeze(g), {"gPr": "const float64 gPr = gPi/180.0;"}, "gPr")
    return {"save_depth": save, "gPi": gpi}


def translate(impl_root):
    """impl_root = the tree under test (scratch build).  Returns the dict described above."""
    def rd(*p):
        path = os.path.join(impl_root, *p)
        try:
            return open(path).read()
        except OSError as e:
            raise TranslateError("cannot read %s: %s" % (path, e))
    out = cbincount(rd("esutil", "htm", "htmc.cc"))
    log_bins(rd("esutil", "htm", "htm.py"))
    out.update(python_wrappers(rd("esutil", "htm", "htm.py")))
    out.update(id_by_point(rd("esutil", "htm", "htm_src", "SpatialIndex.cpp"), rd("esutil", "htm", "htm_src", "SpatialGeneral.h")))
    src = lambda f: rd("esutil", "htm", "htm_src", f)
    out.update(vector_ops(src("SpatialVector.cpp"), src("SpatialEdge.cpp"), src("SpatialIndex.cpp"), src("SpatialInterface.h"),
                          src("SpatialInterface.cpp"), rd("esutil", "htm", "htmc.cc"), src("SpatialGeneral.h")))
    return out


def translate_partial(impl_root):
    """like translate, but section by section: returns (what could be read, list of error texts).  The harness keeps using the
    values of the sections that still translate, so that the dynamic comparison is not disturbed by an unrelated fallback."""
    def rd(*p):
        path = os.path.join(impl_root, *p)
        try:
            return open(path).read()
        except OSError as e:
            raise TranslateError("cannot read %s: %s" % (path, e))
    src = lambda f: rd("esutil", "htm", "htm_src", f)
    out, errors = {}, []
    sections = [
        lambda: cbincount(rd("esutil", "htm", "htmc.cc")),
        lambda: (log_bins(rd("esutil", "htm", "htm.py")), {})[1],
        lambda: python_wrappers(rd("esutil", "htm", "htm.py")),
        lambda: id_by_point(src("SpatialIndex.cpp"), src("SpatialGeneral.h")),
        lambda: vector_ops(src("SpatialVector.cpp"), src("SpatialEdge.cpp"), src("SpatialIndex.cpp"), src("SpatialInterface.h"),
                           src("SpatialInterface.cpp"), rd("esutil", "htm", "htmc.cc"), src("SpatialGeneral.h")),
    ]
    for sec in sections:
        try:
            out.update(sec())
        except TranslateError as e:
            errors.append(str(e))
    return out, errors

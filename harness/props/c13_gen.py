"""T-terms for C13: parts of the source TRANSLATED into Gallina terms (not merely shape-checked), with the tie lemmas
`Gen.x = Model.x` that the check compiles on every run (harness/props/C13.py: tie_step).

    htm.py   HTM.lookup_id / HTM.bincount   the validation conditions (python ast: comparisons of .size attributes, and/or/not,
                                            the exception class of the raise)            -> gen_lookup_validate, gen_bincount_validate
    SpatialIndex.cpp                        the 6 octahedron vertices and the 8 root triangles -> gen_V, gen_roots
                                            the if-chain of the dynamic levels (which vertices, which digit) and the three
                                            mid-points                                       -> gen_child_tri
                                            makeNewLayer's four newNode calls (stored levels)  -> gen_child_tri_stored
                                            isInside's three comparisons                     -> gen_inside
                                            the buildlevel conditional expression            -> gen_buildlevel
    SpatialGeneral.h                        gEpsilon                                         -> gen_eps
    htmc.cc  cbincount                      the search-cap expression (a small C expression parser: + * ?: parentheses)
                                                                                             -> gen_search_cos
                                            the bin-number expression                        -> gen_index (floor / cast)

Every function raises TranslateError (from c13_translate) when the source is outside the subset; nothing is guessed."""
import ast
import re
from fractions import Fraction

from .c13_translate import TranslateError, strip, squeeze, _body, _decimal

EXC = {"ValueError": "EValue", "IndexError": "EIndex", "TypeError": "EType", "RuntimeError": "ERuntime"}


# ---------------------------------------------------------------------------------------------- python: validation
def _size_term(node, sizes):
    if isinstance(node, ast.Attribute) and node.attr == "size" and isinstance(node.value, ast.Name) and node.value.id in sizes:
        return sizes[node.value.id]
    if isinstance(node, ast.Constant) and isinstance(node.value, int) and not isinstance(node.value, bool) and node.value >= 0:
        return "%d%%nat" % node.value
    raise TranslateError("validation: not a size or a small constant: %s" % ast.unparse(node))


def _cond(node, sizes):
    if isinstance(node, ast.BoolOp):
        op = " || " if isinstance(node.op, ast.Or) else " && "
        return "(" + op.join(_cond(v, sizes) for v in node.values) + ")"
    if isinstance(node, ast.UnaryOp) and isinstance(node.op, ast.Not):
        return "negb %s" % _cond(node.operand, sizes)
    if isinstance(node, ast.Compare) and len(node.ops) == 1 and isinstance(node.ops[0], (ast.NotEq, ast.Eq)):
        a, b = _size_term(node.left, sizes), _size_term(node.comparators[0], sizes)
        e = "Nat.eqb (%s) (%s)" % (a, b)
        return "negb (%s)" % e if isinstance(node.ops[0], ast.NotEq) else "(%s)" % e
    raise TranslateError("validation: condition outside the subset: %s" % ast.unparse(node))


def _raise_class(stmts, what):
    rs = [s for s in stmts if isinstance(s, ast.Raise)]
    if len(rs) != 1 or stmts[-1] is not rs[0]:
        raise TranslateError("%s: expected the block to end in exactly one raise" % what)
    exc = rs[0].exc
    name = exc.func.id if isinstance(exc, ast.Call) and isinstance(exc.func, ast.Name) else (exc.id if isinstance(exc, ast.Name) else None)
    if name not in EXC:
        raise TranslateError("%s: exception class %r not in the model's error enum" % (what, name))
    return EXC[name]


def _is_none_test(node, var, negated):
    return (isinstance(node, ast.Compare) and len(node.ops) == 1 and isinstance(node.ops[0], ast.IsNot if negated else ast.Is)
            and isinstance(node.left, ast.Name) and node.left.id == var
            and isinstance(node.comparators[0], ast.Constant) and node.comparators[0].value is None)


def validation(htm_py_src):
    tree = ast.parse(htm_py_src)
    cls = [n for n in tree.body if isinstance(n, ast.ClassDef) and n.name == "HTM"]
    if len(cls) != 1:
        raise TranslateError("expected exactly one class HTM")

    def method(name):
        fs = [n for n in cls[0].body if isinstance(n, ast.FunctionDef) and n.name == name]
        if len(fs) != 1:
            raise TranslateError("expected exactly one method HTM.%s" % name)
        return fs[0]
    # lookup_id: the only `if` with a raise
    lk = [s for s in method("lookup_id").body if isinstance(s, ast.If)]
    if len(lk) != 1 or lk[0].orelse:
        raise TranslateError("lookup_id: expected exactly one if (the size test)")
    t0 = _cond(lk[0].test, {"ra": "n_ra", "dec": "n_dec"})
    e0 = _raise_class(lk[0].body, "lookup_id size test")
    # bincount
    ifs = [s for s in method("bincount").body if isinstance(s, ast.If)]
    zs = {"ra1": "n_ra1 z", "dec1": "n_dec1 z", "ra2": "n_ra2 z", "dec2": "n_dec2 z"}
    s1 = [s for s in ifs if any(isinstance(x, ast.Raise) for x in s.body)]
    if len(s1) != 1 or s1[0].orelse:
        raise TranslateError("bincount: expected exactly one top-level if that raises (the coordinate size test)")
    t1, e1 = _cond(s1[0].test, zs), _raise_class(s1[0].body, "bincount coordinate size test")
    s2 = [s for s in ifs if _is_none_test(s.test, "scale", True)]
    if len(s2) != 1 or s2[0].orelse:
        raise TranslateError("bincount: expected exactly one `if scale is not None:`")
    in2 = [s for s in s2[0].body if isinstance(s, ast.If)]
    if len(in2) != 1 or in2[0].orelse:
        raise TranslateError("bincount: expected exactly one test inside `if scale is not None:`")
    t2, e2 = _cond(in2[0].test, dict(zs, scale="k")), _raise_class(in2[0].body, "bincount scale size test")
    s3 = [s for s in ifs if _is_none_test(s.test, "htmid2", False)]
    if len(s3) != 1:
        raise TranslateError("bincount: expected exactly one `if htmid2 is None:`")
    first = s3[0].body[0]
    if ast.unparse(first) != "htmid2 = self.lookup_id(ra2, dec2)":
        raise TranslateError("bincount: the ids of the second list are no longer `self.lookup_id(ra2, dec2)`: %s" % ast.unparse(first))
    in3 = [s for s in s3[0].orelse if isinstance(s, ast.If) and any(isinstance(x, ast.Raise) for x in s.body)]
    if len(in3) != 1 or in3[0].orelse:
        raise TranslateError("bincount: expected exactly one raising test in the else branch of `if htmid2 is None:`")
    t3, e3 = _cond(in3[0].test, dict(zs, htmid2="k")), _raise_class(in3[0].body, "bincount htmid2 size test")
    order = [s1[0].lineno, s2[0].lineno, s3[0].lineno]
    if order != sorted(order):
        raise TranslateError("bincount: the three validation blocks are not in the order coordinates, scale, ids")
    typo = "ra2.size != ra2.size" in ast.unparse(s1[0].test)
    defs = (
        "Definition gen_lookup_validate (n_ra n_dec : nat) : result unit := if %s then Err %s else Ok tt.\n"
        "Definition gen_bincount_validate (z : bc_sizes) : result unit :=\n"
        "  if %s then Err %s\n"
        "  else if match n_scale z with Some k => %s | None => false end then Err %s\n"
        "  else match n_htmid2 z with\n"
        "       | Some k => if %s then Err %s else Ok tt\n"
        "       | None => gen_lookup_validate (n_ra2 z) (n_dec2 z)\n"
        "       end.\n" % (t0, e0, t1, e1, t2, e2, t3, e3))
    ties = [("forall a b, gen_lookup_validate a b = lookup_validate a b", "intros a b. unfold gen_lookup_validate, lookup_validate. destruct (Nat.eqb a b); reflexivity.",
             "htm.py lookup_id size test (translated) = MoreModel.lookup_validate"),
            ("forall z, gen_bincount_validate z = bincount_validate %s z" % ("true" if typo else "false"),
             "intros [a b c d [ks|] [kh|]]; unfold gen_bincount_validate, bincount_validate, gen_lookup_validate, lookup_validate; "
             "cbn [n_ra1 n_dec1 n_ra2 n_dec2 n_scale n_htmid2]; "
             "repeat match goal with |- context [Nat.eqb ?x ?y] => destruct (Nat.eqb x y) end; reflexivity.",
             "htm.py bincount validation (3 tests, exception classes; translated) = MoreModel.bincount_validate")]
    return defs, ties, {"ra2_typo": typo}


# ---------------------------------------------------------------------------------------------- C++: id arithmetic
def _clit(txt):
    v = _decimal(txt.replace("L", "").lstrip("-"), "vertex coordinate")
    if v.denominator != 1:
        raise TranslateError("vertex coordinate %s is not an integer" % txt)
    s = "%d" % v.numerator
    return "(-%s)" % s if txt.strip().startswith("-") else s


def id_tables(index_src, general_src):
    clean = strip(index_src)
    sq = squeeze(clean)
    m = re.search(r"float64v\[6\]\[3\]=\{(.*?)\};", sq)
    if not m:
        raise TranslateError("SpatialIndex: vertex table float64 v[6][3] not found")
    rows = re.findall(r"\{([^{}]*)\}", m.group(1))
    if len(rows) != 6 or any(len(r.split(",")) != 3 for r in rows):
        raise TranslateError("SpatialIndex: vertex table is not 6 x 3")
    gen_v = "[" + "; ".join("mkvec %s %s %s" % tuple(_clit(x) for x in r.split(",")) for r in rows) + "]"
    nodes = re.findall(r"newNode\((\d+),(\d+),(\d+),(\d+),0\);", sq)
    if len(nodes) != 8:
        raise TranslateError("SpatialIndex: expected 8 root newNode calls, found %d" % len(nodes))
    gen_roots = "[" + "; ".join("(%s, (vtx %s, vtx %s, vtx %s))" % (n[3], n[0], n[1], n[2]) for n in nodes) + "]"
    # dynamic levels
    body = squeeze(_body(clean, "SpatialIndex::idByPoint(SpatialVector & v) const", "idByPoint"))
    mids = re.findall(r"SpatialVector(w\d)=(v\d)\+(v\d);\1\.normalize\(\);", body)
    if [x[0] for x in mids] != ["w0", "w1", "w2"]:
        raise TranslateError("idByPoint: expected the three mid-points w0, w1, w2, found %s" % (mids,))
    chain = re.findall(r"if\(isInside\(v,(\w+),(\w+),(\w+)\)\)\{name\[len\+\+\]='(\d)';", body)
    if [c[3] for c in chain] != ["0", "1", "2", "3"]:
        raise TranslateError("idByPoint: expected four isInside branches appending '0'..'3', found %s" % (chain,))
    names = {"v0", "v1", "v2", "w0", "w1", "w2"}
    if any(x not in names for c in chain for x in c[:3]):
        raise TranslateError("idByPoint: a branch uses a vertex that is not v0..v2 / w0..w2")

    def child_fn(fname, table):
        t = "Definition %s (t : tri) (c : Z) : tri :=\n  let '(v0, v1, v2) := t in\n" % fname
        for w, a, b in mids:
            t += "  let %s := midpoint %s %s in\n" % (w, a, b)
        t += "  " + "".join("if c =? %s then (%s, %s, %s)\n  else " % (k, a, b, c) for a, b, c, k in table[:-1])
        t += "(%s, %s, %s).\n" % table[-1][:3]
        return t
    defs = "Definition gen_V : list vec := %s.\nDefinition vtx (i : nat) : vec := nth i gen_V (mkvec 0 0 0).\n" % gen_v
    defs += "Definition gen_roots : list (Z * tri) := %s.\n" % gen_roots
    defs += child_fn("gen_child_tri", chain)
    # stored levels: makeNewLayer
    st = re.findall(r"ICHILD\((\d)\)=newNode\(I([VW])\((\d)\),I([VW])\((\d)\),I([VW])\((\d)\),id(?:\+\+)?,index\);", sq)
    if [x[0] for x in st] != ["0", "1", "2", "3"]:
        raise TranslateError("makeNewLayer: expected ICHILD(0..3) = newNode(...), found %s" % (st,))
    nm = lambda kind, i: ("v" if kind == "V" else "w") + i
    stored = [(nm(x[1], x[2]), nm(x[3], x[4]), nm(x[5], x[6]), x[0]) for x in st]
    defs += child_fn("gen_child_tri_stored", stored)
    # isInside
    ins = squeeze(_body(clean, "SpatialIndex::isInside(const SpatialVector & v, const SpatialVector & v0,", "isInside"))
    tests = re.findall(r"if\(\((v\d)\^(v\d)\)\*v<-gEpsilon\)returnfalse;", ins)
    if len(tests) != 3 or ins != squeeze("{" + "".join("if( (%s ^ %s) * v < -gEpsilon) return false;" % t for t in tests) + "return true; }"):
        raise TranslateError("isInside: not three tests of the form (a ^ b) * v < -gEpsilon")
    defs += ("Definition gen_inside (eps : float) (v v0 v1 v2 : vec) : bool :=\n  "
             + " && ".join("negb (PrimFloat.ltb (dot (cross %s %s) v) (PrimFloat.opp eps))" % t for t in tests) + ".\n")
    # buildlevel
    mb = re.search(r"buildlevel_\(\((\w+)==0\|\|(\w+)>(\w+)\)\?(\w+):(\w+)\)", sq)
    if not mb or not (mb.group(1) == mb.group(2) == mb.group(5) == "buildlevel" and mb.group(3) == mb.group(4) == "maxlevel"):
        raise TranslateError("SpatialIndex constructor: buildlevel_ initialiser is not (buildlevel == 0 || buildlevel > maxlevel) ? maxlevel : buildlevel")
    defs += "Definition gen_buildlevel (buildlevel maxlevel : Z) : Z := if (buildlevel =? 0) || (maxlevel <? buildlevel) then maxlevel else buildlevel.\n"
    g = strip(general_src)
    me = re.findall(r"const float64 gEpsilon = ([^ ;]+) ?;", g)
    if len(me) != 1:
        raise TranslateError("expected exactly one definition of gEpsilon")
    eps = float(_decimal(me[0], "gEpsilon"))
    defs += "Definition gen_eps : float := (%s)%%float.\n" % eps.hex()
    ties = [("gen_roots = roots", "reflexivity.", "SpatialIndex.cpp vertex table + 8 newNode calls (translated) = FloatModel.roots"),
            ("forall t c, gen_child_tri t c = child_tri t c", "intros [[v0 v1] v2] c. reflexivity.",
             "idByPoint if-chain and mid-points (translated) = FloatModel.child_tri"),
            ("forall t c, gen_child_tri_stored t c = child_tri t c", "intros [[v0 v1] v2] c. reflexivity.",
             "makeNewLayer newNode calls (translated) = FloatModel.child_tri (stored levels = dynamic levels)"),
            ("forall eps v a b d, gen_inside eps v a b d = inside eps v a b d", "intros. reflexivity.",
             "isInside comparisons (translated) = FloatModel.inside"),
            ("forall s d, gen_buildlevel s d = buildlevel s d", "intros. reflexivity.",
             "buildlevel_ initialiser (translated) = FloatModel.buildlevel"),
            ("RootProofs.eps_ok gen_eps = true", "vm_compute. reflexivity.", "gEpsilon (translated) is finite and >= 0")]
    return defs, ties, {"epsilon_float": eps}


# ---------------------------------------------------------------------------------------------- C: expressions
_TOK = re.compile(r"\s*(?:(\d+\.?\d*(?:[eE][-+]?\d+)?)|([A-Za-z_]\w*)|(.))")


class _CExpr:
    """conditional > additive > multiplicative > primary; identifiers, decimal literals, + * ?: ( )"""
    def __init__(self, text, ident):
        self.toks = [(a, b, c) for a, b, c in _TOK.findall(text) if a or b or c.strip()]
        self.i = 0
        self.ident = ident

    def peek(self):
        return self.toks[self.i] if self.i < len(self.toks) else ("", "", "")

    def take(self, ch=None):
        t = self.peek()
        if ch is not None and t[2] != ch:
            raise TranslateError("C expression: expected %r at token %d of %s" % (ch, self.i, self.toks))
        self.i += 1
        return t

    def cond(self):
        a = self.add()
        if self.peek()[2] == "?":
            self.take("?")
            b = self.cond()
            self.take(":")
            c = self.cond()
            return "(if %s then %s else %s)" % (a, b, c)
        return a

    def add(self):
        a = self.mul()
        while self.peek()[2] == "+":
            self.take("+")
            a = "(%s + %s)" % (a, self.mul())
        return a

    def mul(self):
        a = self.prim()
        while self.peek()[2] == "*":
            self.take("*")
            a = "(%s * %s)" % (a, self.prim())
        return a

    def prim(self):
        num, name, ch = self.peek()
        if num:
            self.take()
            f = Fraction(num)
            return "(%d / %d)" % (f.numerator, f.denominator)
        if name:
            self.take()
            if name not in self.ident:
                raise TranslateError("C expression: unknown identifier %s" % name)
            return self.ident[name]
        if ch == "(":
            self.take("(")
            a = self.cond()
            self.take(")")
            return a
        raise TranslateError("C expression: unexpected token %r" % (self.peek(),))

    def parse(self):
        a = self.cond()
        if self.i != len(self.toks):
            raise TranslateError("C expression: trailing tokens in %s" % (self.toks,))
        return a


def search_cap(htmc_src):
    clean = strip(htmc_src)
    body = _body(clean, "PyObject* HTMC::cbincount(", "cbincount")
    m = re.search(r"double searchangle = (.*?); if \(searchangle > (\w+)\) \{ searchangle = (\w+); \} d = cos\( searchangle \);", body)
    if m:
        pads = re.findall(r"#define BINCOUNT_COVER_PAD_DEGREES ([^ ]+) ", clean)
        if len(pads) != 1:
            raise TranslateError("expected exactly one #define BINCOUNT_COVER_PAD_DEGREES")
        pad = _decimal(pads[0], "BINCOUNT_COVER_PAD_DEGREES")
        ident = {"degrees": "degrees", "maxangle": "maxangle", "D2R": "D2R", "NPY_PI": "PI",
                 "BINCOUNT_COVER_PAD_DEGREES": "(%d / %d)" % (pad.numerator, pad.denominator)}
        if m.group(2) != m.group(3) or m.group(2) not in ident:
            raise TranslateError("cbincount: the clipping of searchangle is not `if (searchangle > X) searchangle = X`")
        e = _CExpr(m.group(1), ident).parse()
        lim = ident[m.group(2)]
        defs = ("Definition gen_search_cos (degrees : bool) (maxangle : R) : R :=\n  let sa := %s in cos (if Rlt_dec %s sa then %s else sa).\n"
                % (e, lim, lim))
        ties = [("forall dg m, gen_search_cos dg m = search_cos (%d / %d) dg m" % (pad.numerator, pad.denominator), "intros dg m. reflexivity.",
                 "cbincount search-cap expression (translated by the C expression parser) = ModelR.search_cos with the margin of the #define"),
                ("0 <= %d / %d" % (pad.numerator, pad.denominator), "lra.",
                 "the margin of the #define is >= 0 (hypothesis of C13_search_cap_contains_cap)")]
        return defs, ties, {"pad_deg": pad}
    m = re.search(r"if \(degrees\) \{ d = cos\( (.*?) \); \} else \{ d = cos\( (.*?) \); \}", body)
    if not m:
        raise TranslateError("cbincount: search-cap computation not recognised")
    ident = {"maxangle": "maxangle", "D2R": "D2R"}
    a, b = _CExpr(m.group(1), ident).parse(), _CExpr(m.group(2), ident).parse()
    defs = "Definition gen_search_cos (degrees : bool) (maxangle : R) : R := if degrees then cos %s else cos %s.\n" % (a, b)
    ties = [("forall dg m, 0 <= m -> m * (if dg then D2R else 1) <= PI -> gen_search_cos dg m = search_cos 0 dg m",
             "intros dg m H0 H1. unfold gen_search_cos, search_cos. destruct dg; (destruct (Rlt_dec PI _) as [H|H]; [exfalso; lra | f_equal; lra]).",
             "cbincount search-cap expression without margin (translated) = ModelR.search_cos 0 for angles up to 180 degrees")]
    return defs, ties, {"pad_deg": Fraction(0)}


def bin_index(htmc_src):
    body = squeeze(_body(strip(htmc_src), "PyObject* HTMC::cbincount(", "cbincount"))
    m = re.findall(r"intradbin=\(int\)(floor)?\(\(logr-logrmin\)/log_binsize\);", body)
    if len(m) != 1:
        raise TranslateError("cbincount: bin-number statement not recognised")
    kind = "floor" if m[0] == "floor" else "cast"
    defs = "Definition gen_index : Q -> Z := %s.\n" % ("radbin" if kind == "floor" else "radbin_cast")
    ties = [("forall q : Q, gen_index q = radbin q", "intro q. reflexivity.",
             "bin-number expression of cbincount (translated: %s) = Model.radbin (floor, the statement's bins)" % kind)]
    return defs, ties, {"index": kind}


PRE_DISCRETE = ("From Coq Require Import ZArith QArith List Bool PrimFloat.\nFrom EsVerif.Common Require Import Base.\n"
                "From EsVerif.C13 Require Import Model Spec FloatModel MoreModel.\nFrom EsVerif.C13 Require RootProofs.\n"
                "Import ListNotations.\nOpen Scope Z_scope.\n")
PRE_REAL = ("From Coq Require Import Reals Lra.\nFrom EsVerif.C13 Require Import ModelR.\nOpen Scope R_scope.\n")


def generate(impl_root, rd):
    """returns [(preamble_with_generated_definitions, [(statement, proof, what)])], values, errors.  Each section is translated on its
    own: a section outside the subset yields an error text (fail closed for that tie), the others are still generated."""
    src = lambda f: rd("esutil", "htm", "htm_src", f)
    sections = [
        ("validation", PRE_DISCRETE, lambda: validation(rd("esutil", "htm", "htm.py"))),
        ("id tables", PRE_DISCRETE, lambda: id_tables(src("SpatialIndex.cpp"), src("SpatialGeneral.h"))),
        ("bin number", PRE_DISCRETE, lambda: bin_index(rd("esutil", "htm", "htmc.cc"))),
        ("search cap", PRE_REAL, lambda: search_cap(rd("esutil", "htm", "htmc.cc"))),
    ]
    files, values, errors = [], {}, []
    for name, pre, f in sections:
        try:
            defs, ties, vals = f()
            files.append((name, pre + "\n(* generated from the source of the tree under test: %s *)\n" % name + defs, ties))
            values.update(vals)
        except TranslateError as e:
            errors.append("%s: %s" % (name, e))
    return files, values, errors

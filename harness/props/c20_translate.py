"""C20 -- regenerate coq/theories/C20/Gen.v from esutil/algorithm.py, esutil/numpy_util.py and esutil/pbar.py
(DESIGN.md 4.1; T-int = harness/translate/tint.py for every integer expression / statement block).

Mechanism.  Each anchored function is matched, node by node, against a TEMPLATE (python text below).  Template
names `H_x` are expression holes, `S_x` single-statement holes, `L_x` holes for a run of statements; everything
else of the function (statement order, call targets, keyword names, defaults, constants, loop headers, where the
`yield` sits) must be exactly what the template says, otherwise Untranslatable is raised (fail closed: the run
reports a broken tie).  What a hole captured is translated by tint (python ast -> Gallina over Z; `//` and `%`
are Z.div / Z.modulo, an `if d == 0: raise ZeroDivisionError` is inserted in front of every division by a
non-literal) and printed into Gen.v; C20/Tie.v proves, for ALL inputs, that these definitions equal the hand
model (Model.v / Model2.v), so the theorems of Properties.v are about what the source says now.

  algorithm.isplit          L_core (int(), reject test, divmod) by tint; section-size list, cumsum, start/end indices
  numpy_util.splitarray     L_core (chunk count) by tint; the slice bounds start/end of the loop
  algorithm.partition, partition_keyvalue, _quicksort, _quicksort_keyvalue
                            loop skeleton pinned; initial values, steps, exit tests, out-of-place tests, stores,
                            recursion bounds translated -> gen_part / gen_qs (+ _kv)
  pbar.format_interval      whole body by tint
  pbar.format_meter         the comparison repaired by fix 2c2aac5 and the truth test on total -> gen_meter_total;
                            the float formatting of the bar branch is pinned by text (hash)
  pbar.pbar/_pbar_full/sbar dispatch test, total fallback (len() else None / RuntimeError), loop header, the
                            statements of the loop body in order (yield first?), counter steps, update-interval
                            test, final-meter test -> gen_*_skel and gen_* arithmetic
  pbar.prange, pbar.pmap    pinned completely (no fast path for nproc=1; list(pbar(ex.map(...))))
"""
import ast
import copy
import hashlib
import os
import textwrap

from ..translate import tint
from ..translate.tint import Untranslatable

GEN_REL = os.path.join("theories", "C20", "Gen.v")

RENAME = {"end": "end_", "fix": "fix_", "match": "match_", "return": "return_"}


# ------------------------------------------------------------------------------------------------ templates
T_ISPLIT = '''
def isplit(num, nchunks):
    import numpy as np
    L_core
    section_sizes = [H_first] + H_rep1 * [H_size1] + H_rep2 * [H_size2]
    div_points = np.array(section_sizes, dtype=np.intp).cumsum()
    subs = np.zeros(nchunks, dtype=[('start', 'i8'), ('end', 'i8')])
    for i in range(H_loop_n):
        subs['start'][i] = div_points[H_start_idx]
        subs['end'][i] = div_points[H_end_idx]
    return subs
'''

T_SPLITARRAY = '''
def splitarray(nper, var_input):
    var = np.atleast_1d(var_input)
    L_core
    chunks = []
    for i in range(nchunks):
        start = H_start
        end = H_end
        chunk = var[start:end]
        chunks.append(chunk)
    return chunks
'''

T_QUICKSORT = '''
def quicksort(data):
    start = H_start0
    end = H_end0
    _quicksort(data, start, end)
'''

T_QS = '''
def _quicksort(data, start, end):
    if H_rec_test:
        split = partition(data, start, end)
        _quicksort(data, H_l_lo, H_l_hi)
        _quicksort(data, H_r_lo, H_r_hi)
    else:
        return
'''

T_PART = '''
def partition(data, start, end):
    pivot = data[H_pivot_idx]
    bottom = H_bottom0
    top = H_top0
    done = 0
    while not done:
        while not done:
            bottom = H_up_step
            if H_up_exit:
                done = 1
                break
            if H_up_test:
                data[H_up_dst] = data[H_up_src]
                break
        while not done:
            top = H_dn_step
            if H_dn_exit:
                done = 1
                break
            if H_dn_test:
                data[H_dn_dst] = data[H_dn_src]
                break
    data[H_fin_dst] = pivot
    return H_ret
'''

T_QUICKSORT_KV = '''
def quicksort_keyvalue(keys, data):
    start = H_start0
    end = H_end0
    _quicksort_keyvalue(keys, data, start, end)
'''

T_QS_KV = '''
def _quicksort_keyvalue(keys, data, start, end):
    if H_rec_test:
        split = partition_keyvalue(keys, data, start, end)
        _quicksort_keyvalue(keys, data, H_l_lo, H_l_hi)
        _quicksort_keyvalue(keys, data, H_r_lo, H_r_hi)
    else:
        return
'''

T_PART_KV = '''
def partition_keyvalue(keys, data, start, end):
    pivot = keys[H_pivot_idx]
    pivot_data = data[H_pivot_idx]
    bottom = H_bottom0
    top = H_top0
    done = 0
    while not done:
        while not done:
            bottom = H_up_step
            if H_up_exit:
                done = 1
                break
            if H_up_test:
                keys[H_up_dst] = keys[H_up_src]
                data[H_up_dst] = data[H_up_src]
                break
        while not done:
            top = H_dn_step
            if H_dn_exit:
                done = 1
                break
            if H_dn_test:
                keys[H_dn_dst] = keys[H_dn_src]
                data[H_dn_dst] = data[H_dn_src]
                break
    keys[H_fin_dst] = pivot
    data[H_fin_dst] = pivot_data
    return H_ret
'''

T_PBAR = '''
def pbar(iterable, desc='', total=H_d_total, leave=H_d_leave, file=sys.stderr,
         mininterval=H_d_mininterval, miniters=H_d_miniters, n_bars=H_d_n_bars, simple=H_d_simple):
    if H_dispatch:
        return sbar(iterable, desc=desc, total=total, file=file)
    else:
        return _pbar_full(
            iterable, desc=desc, total=total, file=file,
            leave=leave, mininterval=mininterval, miniters=miniters,
            n_bars=n_bars, simple=simple,
        )
'''

T_FULL = '''
def _pbar_full(
    iterable, desc='', total=None, leave=True, file=sys.stderr,
    mininterval=0.5, miniters=1, n_bars=20, simple=False,
):
    prefix = desc+': ' if desc else ''
    if total is None:
        try:
            total = len(iterable)
        except TypeError:
            S_fallback
    if simple:
        L_embedded_simple
    sp = StatusPrinter(file)
    sp.print_status(prefix + format_meter(H_first_n, total, H_first_elapsed, n_bars=n_bars))
    start_t = last_print_t = time.time()
    last_print_n = H_last0
    n = H_n0
    for obj in iterable:
        L_body
    if not leave:
        sp.print_status('')
        file.write('\\r')
    else:
        if H_final_test:
            cur_t = time.time()
            pstat = format_meter(n, total, cur_t-start_t, n_bars=n_bars)
            sp.print_status(prefix + pstat)
        file.write('\\n')
'''

T_SBAR = '''
def sbar(iterable, desc='', total=None, file=sys.stderr):
    prefix = desc+': ' if desc else ''
    if total is None:
        try:
            total = len(iterable)
        except TypeError:
            S_fallback

    def pnn(d):
        print(d, end='', file=file, flush=True)
    pnn(prefix + '|')
    plast = -1
    tm0 = time.time()
    for i, obj in enumerate(iterable):
        L_body
    tm = time.time() - tm0
    tms = format_interval(tm)
    print(f'| {tms}', file=file, flush=True)
'''

# the statements a loop body may consist of (any order; the order is what Gen.v records)
BODY_STMTS = [
    ("SYield", "yield obj"),
    ("SCount", "n = H_n_step"),
    ("SCount", "i = H_i_step"),
    ("SDivTotal", "p = int(i / total * 10)"),
    ("SOut", "if p > plast:\n    pnn(p)\n    plast = p"),
    ("SMeter", "if H_iter_test:\n    cur_t = time.time()\n    if H_time_test:\n"
               "        pstat = format_meter(n, total, cur_t-start_t, n_bars=n_bars)\n"
               "        sp.print_status(prefix + pstat)\n        last_print_n = H_last_update\n        last_print_t = cur_t"),
]

T_PRANGE = '''
def prange(*args, **kwargs):
    return H_prange_expr
'''

T_PMAP = '''
def pmap(fn, iterable, chunksize=H_d_chunksize, nproc=H_d_nproc, **kw):
    from concurrent.futures import ProcessPoolExecutor
    with ProcessPoolExecutor(max_workers=nproc) as ex:
        res = H_pmap_expr
    return res
'''

T_FORMAT_METER = '''
def format_meter(n, total, elapsed, n_bars=20):
    if total is not None and H_cmp:
        total = None
    elapsed_str = format_interval(elapsed)
    if total:
        L_bar
    else:
        return '%d [elapsed: %s]' % (n, elapsed_str)
'''

# text of the bar branch of format_meter (float formatting; the only divisions are by `total` (non-zero in this
# branch), by `elapsed` under `elapsed > 0` and by `n` under `it_per_second <= 1 and elapsed > 0` / `if n`)
PINNED_BAR = "07893085c0d1cffd"
T_STATUS = '''
class StatusPrinter(object):
    def __init__(self, file):
        self.file = file
        self.last_printed_len = 0

    def print_status(self, s):
        self.file.write('\\r'+s+' '*H_pad)
        self.file.flush()
        self.last_printed_len = len(s)
'''

FMT = {"%d:%02d:%02d": "FmtHMS", "%02d:%02d": "FmtMS"}


# ------------------------------------------------------------------------------------------------ matcher
def _strip_doc(body):
    if body and isinstance(body[0], ast.Expr) and isinstance(body[0].value, ast.Constant) \
            and isinstance(body[0].value.value, str):
        return body[1:]
    return body


def _hole(t, prefix):
    if isinstance(t, ast.Expr) and isinstance(t.value, ast.Name) and t.value.id.startswith(prefix):
        return t.value.id
    return None


def tmatch(t, s, holes, where):
    if isinstance(t, ast.Name) and t.id.startswith("H_"):
        if not isinstance(s, ast.expr):
            raise Untranslatable("%s: expression expected for %s" % (where, t.id))
        if t.id in holes and ast.dump(holes[t.id]) != ast.dump(s):
            raise Untranslatable("%s: the two occurrences of %s differ (%s / %s)" % (
                where, t.id, ast.unparse(holes[t.id]), ast.unparse(s)))
        holes[t.id] = s
        return
    if _hole(t, "S_"):
        holes[_hole(t, "S_")] = s
        return
    if type(t) is not type(s):
        raise Untranslatable("%s: expected `%s`, found `%s`" % (where, ast.unparse(t)[:80], ast.unparse(s)[:80]))
    for f in t._fields:
        if f in ("ctx", "type_comment", "kind", "type_params"):
            continue
        a, b = getattr(t, f, None), getattr(s, f, None)
        if isinstance(a, list):
            if isinstance(t, (ast.FunctionDef, ast.ClassDef)) and f == "body":
                a, b = _strip_doc(a), _strip_doc(b)
            lh = [i for i, x in enumerate(a) if _hole(x, "L_")]
            if lh:
                j = lh[0]
                tail = len(a) - j - 1
                if len(b) < len(a) - 1:
                    raise Untranslatable("%s: statements missing in `%s`" % (where, ast.unparse(s)[:80]))
                holes[_hole(a[j], "L_")] = b[j:len(b) - tail]
                pairs = list(zip(a[:j], b[:j])) + (list(zip(a[j + 1:], b[len(b) - tail:])) if tail else [])
            else:
                if len(a) != len(b):
                    raise Untranslatable("%s: expected %d items in %s of `%s`, found %d" % (
                        where, len(a), f, ast.unparse(t)[:60], len(b)))
                pairs = zip(a, b)
            for x, y in pairs:
                if isinstance(x, ast.AST):
                    tmatch(x, y, holes, where)
                elif x != y:
                    raise Untranslatable("%s: %r expected, found %r" % (where, x, y))
        elif isinstance(a, ast.AST):
            if b is None:
                raise Untranslatable("%s: `%s` missing" % (where, ast.unparse(a)[:60]))
            tmatch(a, b, holes, where)
        elif a != b:
            raise Untranslatable("%s: expected `%s`, found `%s`" % (where, ast.unparse(t)[:80], ast.unparse(s)[:80]))


def match_function(tree, template, cls=False):
    t = ast.parse(textwrap.dedent(template)).body[0]
    kind = ast.ClassDef if cls else ast.FunctionDef
    found = [n for n in tree.body if isinstance(n, kind) and n.name == t.name]
    if len(found) != 1:
        raise Untranslatable("exactly one top-level definition of %s expected, found %d" % (t.name, len(found)))
    if not cls and found[0].decorator_list:
        raise Untranslatable("%s is decorated (%s)" % (t.name, ast.unparse(found[0].decorator_list[0])))
    holes = {}
    tmatch(t, found[0], holes, t.name)
    return holes


# ------------------------------------------------------------------------------------------------ normalisation
class _Norm(ast.NodeTransformer):
    """sound rewrites into the tint subset: x op= e -> x = x op e; Coq keywords renamed; '<fmt>' % (a, b) ->
    __fmt_<name>(a, b); `if v:` on an integer variable -> `if v != 0:`"""

    def __init__(self, intvars=()):
        self.intvars = set(intvars)

    def visit_Name(self, n):
        return ast.copy_location(ast.Name(id=RENAME.get(n.id, n.id), ctx=n.ctx), n)

    def visit_AugAssign(self, n):
        n = self.generic_visit(n)
        tgt = copy.deepcopy(n.target)
        tgt.ctx = ast.Load()
        return ast.copy_location(ast.Assign(targets=[n.target], value=ast.BinOp(left=tgt, op=n.op, right=n.value)), n)

    def visit_BinOp(self, n):
        if isinstance(n.op, ast.Mod) and isinstance(n.left, ast.Constant) and isinstance(n.left.value, str):
            if n.left.value not in FMT:
                raise Untranslatable("format string %r is not one of %s" % (n.left.value, sorted(FMT)))
            args = n.right.elts if isinstance(n.right, ast.Tuple) else [n.right]
            return ast.Call(func=ast.Name(id="__fmt_" + FMT[n.left.value], ctx=ast.Load()),
                            args=[self.visit(a) for a in args], keywords=[])
        return self.generic_visit(n)

    def visit_If(self, n):
        n = self.generic_visit(n)
        if isinstance(n.test, ast.Name) and n.test.id in self.intvars:
            n.test = ast.Compare(left=n.test, ops=[ast.NotEq()], comparators=[ast.Constant(value=0)])
        return n


def _divisors(e):
    out = []
    for x in ast.walk(e):
        if isinstance(x, ast.BinOp) and isinstance(x.op, (ast.FloorDiv, ast.Mod)):
            out.append(x.right)
        elif isinstance(x, ast.BinOp) and isinstance(x.op, ast.Div):
            raise Untranslatable("true division in integer code: " + ast.unparse(x))
        elif isinstance(x, ast.Call) and isinstance(x.func, ast.Name) and x.func.id == "divmod":
            if len(x.args) != 2:
                raise Untranslatable("divmod with %d arguments" % len(x.args))
            out.append(x.args[1])
    return [d for d in out if not (isinstance(d, ast.Constant) and isinstance(d.value, int) and d.value != 0)]


def _zero_guard(d):
    return ast.If(test=ast.Compare(left=copy.deepcopy(d), ops=[ast.Eq()], comparators=[ast.Constant(value=0)]),
                  body=[ast.Raise(exc=ast.Call(func=ast.Name(id="ZeroDivisionError", ctx=ast.Load()), args=[], keywords=[]),
                                  cause=None)], orelse=[])


def normalise(stmts, intvars=()):
    """statement list -> statement list in the tint subset (see _Norm), divmod unpacked, division guards inserted"""
    out = []
    for s in stmts:
        s = ast.fix_missing_locations(_Norm(intvars).visit(copy.deepcopy(s)))
        if isinstance(s, ast.If):
            for d in _divisors(s.test):
                out.append(_zero_guard(d))
            s.body = normalise(s.body, intvars)
            s.orelse = normalise(s.orelse, intvars)
            out.append(s)
            continue
        if isinstance(s, (ast.Assign, ast.Return, ast.Expr)) and getattr(s, "value", None) is not None:
            for d in _divisors(s.value):
                out.append(_zero_guard(d))
        if isinstance(s, ast.Assign) and len(s.targets) == 1 and isinstance(s.targets[0], ast.Tuple) \
                and isinstance(s.value, ast.Call) and isinstance(s.value.func, ast.Name) and s.value.func.id == "divmod":
            q, r = s.targets[0].elts
            a, b = s.value.args
            if not (isinstance(q, ast.Name) and isinstance(r, ast.Name)):
                raise Untranslatable("divmod target " + ast.unparse(s))
            used = {x.id for x in ast.walk(a) if isinstance(x, ast.Name)} | {x.id for x in ast.walk(b) if isinstance(x, ast.Name)}
            if q.id in used:      # the quotient would be overwritten before the remainder is computed
                raise Untranslatable("divmod target reused in its arguments: " + ast.unparse(s))
            out.append(ast.Assign(targets=[q], value=ast.BinOp(left=a, op=ast.FloorDiv(), right=b)))
            out.append(ast.Assign(targets=[r], value=ast.BinOp(left=copy.deepcopy(a), op=ast.Mod(), right=copy.deepcopy(b))))
            continue
        out.append(s)
    return [ast.fix_missing_locations(x) for x in out]


def _calls():
    def ident(args, kw):
        if len(args) != 1:
            raise Untranslatable("int() with %d arguments" % len(args))
        return args[0]

    def fmt(name):
        return lambda args, kw: "(%s, [%s])" % (name, "; ".join(args))
    def zmax(args, kw):
        if len(args) != 2:
            raise Untranslatable("max() with %d arguments" % len(args))
        return "(Z.max %s %s)" % tuple(args)
    c = {"int": {"emit": ident, "kw": ()}, "max": {"emit": zmax, "kw": ()}}
    for name in FMT.values():
        c["__fmt_" + name] = {"emit": fmt(name), "kw": ()}
    return c


def block(stmts, env, intvars=()):
    return tint.T(_calls()).block(normalise(stmts, intvars), dict(env))


def zexpr(e, env):
    e = ast.fix_missing_locations(_Norm().visit(copy.deepcopy(e)))
    if _divisors(e):
        raise Untranslatable("division inside a hole: " + ast.unparse(e))
    return tint.T(_calls()).expr(e, dict(env))


def bexpr(e, env):
    e = ast.fix_missing_locations(_Norm().visit(copy.deepcopy(e)))
    if _divisors(e):
        raise Untranslatable("division inside a hole: " + ast.unparse(e))
    return tint.T(_calls()).bexpr(e, dict(env))


def definition(name, params, ret, body):
    return "Definition %s %s : %s :=\n%s.\n\n" % (name, " ".join("(%s : %s)" % p for p in params), ret,
                                                 textwrap.indent(body, "  "))


# ------------------------------------------------------------------------------------------------ algorithm.py
def gen_isplit(tree):
    h = match_function(tree, T_ISPLIT)
    core = h["L_core"] + [ast.parse("return (nchunks, neach_section, extras)").body[0]]
    out = definition("gen_isplit_core", [("num", "Z"), ("nchunks", "Z")], "result (Z * Z * Z)",
                     block(core, {"num": "Z", "nchunks": "Z"}))
    env = {"num": "Z", "nchunks": "Z", "neach_section": "Z", "extras": "Z"}
    envi = dict(env, i="Z")
    body = ("match gen_isplit_core num nchunks0 with\n| Err e => Err e\n| Ok (nchunks, neach_section, extras) =>\n"
            "  let section_sizes := [%s] ++ repeat %s (Z.to_nat %s) ++ repeat %s (Z.to_nat %s) in\n"
            "  let div_points := cumsum section_sizes in\n"
            "  Ok (map (fun i => (zget div_points %s, zget div_points %s)) (zseq 0 (Z.to_nat %s)))\nend" % (
                zexpr(h["H_first"], env), zexpr(h["H_size1"], env), zexpr(h["H_rep1"], env),
                zexpr(h["H_size2"], env), zexpr(h["H_rep2"], env),
                zexpr(h["H_start_idx"], envi), zexpr(h["H_end_idx"], envi), zexpr(h["H_loop_n"], env)))
    out += definition("gen_isplit", [("num", "Z"), ("nchunks0", "Z")], "result (list (Z * Z))", body)
    return out


def gen_splitarray(tree):
    h = match_function(tree, T_SPLITARRAY)
    core = h["L_core"] + [ast.parse("return nchunks").body[0]]
    out = definition("gen_splitarray_core", [("var_size", "Z"), ("nper", "Z")], "result Z",
                     block(core, {"var_size": "Z", "nper": "Z"}))
    env = {"i": "Z", "nper": "Z", "var_size": "Z"}
    start = zexpr(h["H_start"], env)
    end = zexpr(h["H_end"], dict(env, start="Z"))
    body = ("match gen_splitarray_core (Z.of_nat (length var)) nper with\n| Err e => Err e\n| Ok nchunks =>\n"
            "  Ok (map (fun i => let start := %s in let end_ := %s in pyslice var start end_) (zseq 0 (Z.to_nat nchunks)))\nend"
            % (start, end))
    out += "Definition gen_splitarray {A : Type} (nper : Z) (var : list A) : result (list (list A)) :=\n%s.\n\n" % \
           textwrap.indent(body, "  ")
    return out


class _Rec:
    """expressions over the array being sorted: data[e] / keys[e] -> (aget d e), compared through `key`"""

    def __init__(self, arrays, recvars):
        self.arrays, self.recvars = arrays, recvars

    def rec(self, e, env):
        if isinstance(e, ast.Subscript) and isinstance(e.value, ast.Name) and e.value.id in self.arrays:
            return "(aget dflt d %s)" % zexpr(e.slice, env)
        if isinstance(e, ast.Name) and e.id in self.recvars:
            return e.id
        raise Untranslatable("array element or pivot expected: " + ast.unparse(e))

    def test(self, e, env):
        if isinstance(e, ast.Compare) and len(e.ops) == 1:
            ops = {ast.Lt: "<?", ast.LtE: "<=?", ast.Gt: ">?", ast.GtE: ">=?"}
            if type(e.ops[0]) in ops:
                return "(key %s %s key %s)" % (self.rec(e.left, env), ops[type(e.ops[0])], self.rec(e.comparators[0], env))
        raise Untranslatable("comparison of two array elements expected: " + ast.unparse(e))


def gen_sort(tree, suffix, t_top, t_qs, t_part, arrays):
    ht = match_function(tree, t_top)
    hq = match_function(tree, t_qs)
    hp = match_function(tree, t_part)
    r = _Rec(arrays, {"pivot"})
    env = {"start": "Z", "end_": "Z", "bottom": "Z", "top": "Z"}
    z = lambda k, e=env: zexpr(hp[k], e)       # noqa
    b = lambda k, e=env: bexpr(hp[k], e)       # noqa
    out = "Section GenSort%s.\n  Context {A : Type} (key : A -> Z) (dflt : A).\n\n" % suffix
    out += textwrap.indent(
        "Fixpoint gen_part%s (fuel : nat) (d : list A) (pivot : A) (bottom top : Z) (ph : phase) : option (list A * Z) :=\n"
        "  match fuel with\n  | O => None\n  | S f =>\n    match ph with\n"
        "    | Up =>\n      let bottom := %s in\n      if %s then Some (zset d %s pivot, %s)\n"
        "      else if %s then gen_part%s f (zset d %s (aget dflt d %s)) pivot bottom top Down\n"
        "      else gen_part%s f d pivot bottom top Up\n"
        "    | Down =>\n      let top := %s in\n      if %s then Some (zset d %s pivot, %s)\n"
        "      else if %s then gen_part%s f (zset d %s (aget dflt d %s)) pivot bottom top Up\n"
        "      else gen_part%s f d pivot bottom top Down\n    end\n  end.\n\n" % (
            suffix, z("H_up_step"), b("H_up_exit"), z("H_fin_dst"), z("H_ret"),
            r.test(hp["H_up_test"], env), suffix, z("H_up_dst"), z("H_up_src"), suffix,
            z("H_dn_step"), b("H_dn_exit"), z("H_fin_dst"), z("H_ret"),
            r.test(hp["H_dn_test"], env), suffix, z("H_dn_dst"), z("H_dn_src"), suffix), "  ")
    envp = {"start": "Z", "end_": "Z"}
    out += textwrap.indent(
        "Definition gen_partition%s (d : list A) (start end_ : Z) : option (list A * Z) :=\n"
        "  gen_part%s (Z.to_nat (end_ - start + 2)) d (aget dflt d %s) %s %s Up.\n\n" % (
            suffix, suffix, zexpr(hp["H_pivot_idx"], envp), zexpr(hp["H_bottom0"], envp), zexpr(hp["H_top0"], envp)), "  ")
    envq = {"start": "Z", "end_": "Z", "split": "Z"}
    out += textwrap.indent(
        "Fixpoint gen_qs%s (fuel : nat) (d : list A) (start end_ : Z) : option (list A) :=\n"
        "  match fuel with\n  | O => None\n  | S f =>\n    if %s then\n"
        "      match gen_partition%s d start end_ with\n      | None => None\n      | Some (d1, split) =>\n"
        "        match gen_qs%s f d1 %s %s with\n        | None => None\n        | Some d2 => gen_qs%s f d2 %s %s\n        end\n"
        "      end\n    else Some d\n  end.\n\n" % (
            suffix, bexpr(hq["H_rec_test"], envp), suffix, suffix, zexpr(hq["H_l_lo"], envq), zexpr(hq["H_l_hi"], envq),
            suffix, zexpr(hq["H_r_lo"], envq), zexpr(hq["H_r_hi"], envq)), "  ")
    # quicksort(data): start = 0; end = len(data) - 1
    lenname = ht["H_end0"]
    ok = isinstance(lenname, ast.BinOp) and isinstance(lenname.left, ast.Call) and isinstance(lenname.left.func, ast.Name) \
        and lenname.left.func.id == "len" and len(lenname.left.args) == 1 and isinstance(lenname.left.args[0], ast.Name) \
        and lenname.left.args[0].id in (set(arrays) | {"data"})
    if not ok:
        raise Untranslatable("quicksort%s: end = len(<array>) <op> <int> expected, found %s" % (suffix, ast.unparse(lenname)))
    e2 = copy.deepcopy(lenname)
    e2.left = ast.Name(id="len_d", ctx=ast.Load())
    out += textwrap.indent(
        "Definition gen_quicksort%s (d : list A) : option (list A) :=\n"
        "  let len_d := Z.of_nat (length d) in gen_qs%s (S (length d)) d %s %s.\n" % (
            suffix, suffix, zexpr(ht["H_start0"], {}), zexpr(e2, {"len_d": "Z"})), "  ")
    out += "End GenSort%s.\n\n" % suffix
    return out


# ------------------------------------------------------------------------------------------------ pbar.py
def _classify_body(stmts, where):
    kinds, holes = [], {}
    for s in stmts:
        s1 = [ast.fix_missing_locations(_Norm().visit(copy.deepcopy(s)))] if isinstance(s, ast.AugAssign) else [s]
        for kind, text in BODY_STMTS:
            t = ast.parse(text).body[0]
            hh = {}
            try:
                tmatch(t, s1[0] if kind == "SCount" else s, hh, where)
            except Untranslatable:
                continue
            kinds.append(kind)
            holes.update(hh)
            break
        else:
            raise Untranslatable("%s: loop-body statement not recognised: %s" % (where, ast.unparse(s)[:100]))
    return kinds, holes


def _fallback(s, where):
    if isinstance(s, ast.Assign) and ast.unparse(s) == "total = None":
        return "FbNone"
    if isinstance(s, ast.Raise) and isinstance(s.exc, ast.Call) and isinstance(s.exc.func, ast.Name):
        return "(FbRaise %s)" % tint.ERR.get(s.exc.func.id, "EOther")
    raise Untranslatable("%s: handler of `except TypeError` is neither `total = None` nor a raise: %s" % (where, ast.unparse(s)))


def wexpr(e, kwname, where):
    """the wrapper expression of prange / pmap as a term of C20/Shape.v's `wexpr` (fail closed on anything else)"""
    def forwards_kw(call):
        return len(call.keywords) == 1 and call.keywords[0].arg is None and isinstance(call.keywords[0].value, ast.Name) \
            and call.keywords[0].value.id == kwname
    if isinstance(e, ast.Name) and e.id == "iterable":
        return "WArgIterable"
    if isinstance(e, ast.Call) and isinstance(e.func, ast.Name):
        f = e.func.id
        if f == "range" and not e.keywords and len(e.args) == 1 and isinstance(e.args[0], ast.Starred) \
                and isinstance(e.args[0].value, ast.Name) and e.args[0].value.id == "args":
            return "WRangeOfArgs"
        if f == "list" and not e.keywords and len(e.args) == 1:
            return "(WList %s)" % wexpr(e.args[0], kwname, where)
        if f == "pbar" and len(e.args) == 1 and forwards_kw(e):
            return "(WPbar %s)" % wexpr(e.args[0], kwname, where)
    if isinstance(e, ast.Call) and ast.unparse(e.func) == "ex.map" and len(e.args) == 2 and ast.unparse(e.args[0]) == "fn":
        if not e.keywords:
            ck = "ChunkDefault"
        elif len(e.keywords) == 1 and e.keywords[0].arg == "chunksize" and ast.unparse(e.keywords[0].value) == "chunksize":
            ck = "ChunkParam"
        else:
            raise Untranslatable("%s: keywords of ex.map: %s" % (where, ast.unparse(e)))
        return "(WExMap %s %s)" % (ck, wexpr(e.args[1], kwname, where))
    raise Untranslatable("%s: wrapper expression not recognised: %s" % (where, ast.unparse(e)[:100]))


def const_bool(e, where):
    if isinstance(e, ast.Constant) and isinstance(e.value, bool):
        return "true" if e.value else "false"
    raise Untranslatable("%s: boolean literal expected, found %s" % (where, ast.unparse(e)))


def const_z(e, where):
    if isinstance(e, ast.Constant) and type(e.value) is int:
        return "(%d)" % e.value
    raise Untranslatable("%s: integer literal expected, found %s" % (where, ast.unparse(e)))


def const_optz(e, where):
    if isinstance(e, ast.Constant) and e.value is None:
        return "None"
    return "(Some %s)" % const_z(e, where)


def const_ratio(e, where):
    from fractions import Fraction
    if isinstance(e, ast.Constant) and type(e.value) in (int, float) and e.value == e.value and abs(e.value) != float("inf"):
        f = Fraction(e.value)
        return "((%d), (%d))" % (f.numerator, f.denominator)
    raise Untranslatable("%s: numeric literal expected, found %s" % (where, ast.unparse(e)))


METER_PARAMS = {"n": "MN", "total": "MTotal", "elapsed": "MElapsed"}


def meter_divisions(stmts, branch_atom):
    """every division of the statements with the path condition it is evaluated under, restricted to the tests that
    mention only the parameters n / total / elapsed (other tests are dropped: the recorded path is weaker, so a
    proof that no recorded division raises is still a proof for the code)"""
    out = []

    def atom(t):
        if isinstance(t, ast.Name) and t.id == "n":
            return "ANTrue"
        if isinstance(t, ast.Name) and t.id == "total":
            return "ATotalTrue"
        if isinstance(t, ast.Compare) and ast.unparse(t) == "elapsed > 0":
            return "AElapsedPos"
        return None

    def expr(e, path):
        if isinstance(e, ast.IfExp):
            expr(e.test, path)
            a = atom(e.test)
            expr(e.body, path + ([a] if a else []))
            expr(e.orelse, path)
            return
        if isinstance(e, (ast.BoolOp, ast.Lambda, ast.ListComp, ast.GeneratorExp, ast.DictComp, ast.SetComp)):
            raise Untranslatable("format_meter: %s in the bar branch" % type(e).__name__)
        if isinstance(e, ast.BinOp) and isinstance(e.op, (ast.Div, ast.FloorDiv, ast.Mod)):
            formatting = isinstance(e.op, ast.Mod) and (isinstance(e.right, ast.Tuple) or
                                                       (isinstance(e.left, ast.Constant) and isinstance(e.left.value, str)))
            if not formatting:
                if not (isinstance(e.right, ast.Name) and e.right.id in METER_PARAMS):
                    raise Untranslatable("format_meter: division by something other than n / total / elapsed: " + ast.unparse(e))
                out.append((METER_PARAMS[e.right.id], list(path)))
        for ch in ast.iter_child_nodes(e):
            if isinstance(ch, ast.expr):
                expr(ch, path)
            elif isinstance(ch, ast.FormattedValue):
                expr(ch.value, path)

    def walk(ss, path):
        for st in ss:
            if isinstance(st, ast.If):
                expr(st.test, path)
                a = atom(st.test)
                walk(st.body, path + ([a] if a else []))
                walk(st.orelse, path)
            elif isinstance(st, ast.Assign):
                for t in st.targets:
                    if not isinstance(t, ast.Name) or t.id in METER_PARAMS:
                        raise Untranslatable("format_meter: assignment to %s in the bar branch" % ast.unparse(t))
                expr(st.value, path)
            elif isinstance(st, (ast.Return, ast.Expr)):
                if st.value is not None:
                    expr(st.value, path)
            else:
                raise Untranslatable("format_meter: statement %s in the bar branch" % type(st).__name__)
    walk(stmts, [branch_atom])
    return out


def gen_pbar(tree):
    out = ""
    h = match_function(tree, T_PBAR)
    out += definition("gen_dispatch_simple", [("simple", "bool")], "bool", bexpr(h["H_dispatch"], {"simple": "bool"}))
    out += ("Definition gen_pbar_defaults : pbar_defaults :=\n  {| d_total := %s; d_leave := %s; d_mininterval := %s; d_miniters := %s;"
            " d_n_bars := %s; d_simple := %s |}.\n\n" % (
                const_optz(h["H_d_total"], "pbar total="), const_bool(h["H_d_leave"], "pbar leave="),
                const_ratio(h["H_d_mininterval"], "pbar mininterval="), const_z(h["H_d_miniters"], "pbar miniters="),
                const_z(h["H_d_n_bars"], "pbar n_bars="), const_bool(h["H_d_simple"], "pbar simple=")))
    hf = match_function(tree, T_FULL)
    kinds, bh = _classify_body(hf["L_body"], "_pbar_full")
    out += "Definition gen_full_skel : bar_skel :=\n  {| sk_fallback := %s; sk_body := [%s] |}.\n\n" % (
        _fallback(hf["S_fallback"], "_pbar_full"), "; ".join(kinds))
    if "H_n_step" not in bh or "H_iter_test" not in bh:
        raise Untranslatable("_pbar_full: the loop body has no counter step / no meter update")
    out += definition("gen_full_n_step", [("n", "Z")], "Z", zexpr(bh["H_n_step"], {"n": "Z"}))
    env = {"n": "Z", "last_print_n": "Z", "miniters": "Z"}
    out += definition("gen_full_iter_test", [("n", "Z"), ("last_print_n", "Z"), ("miniters", "Z")], "bool",
                      bexpr(bh["H_iter_test"], env))
    out += definition("gen_full_final_test", [("n", "Z"), ("last_print_n", "Z")], "bool", bexpr(hf["H_final_test"], env))
    if "H_time_test" not in bh or "H_last_update" not in bh:
        raise Untranslatable("_pbar_full: the meter update has no time test / no update of last_print_n")
    tenv = {"cur_t": "Z", "last_print_t": "Z", "mininterval": "Z"}
    out += definition("gen_full_time_test", [("cur_t", "Z"), ("last_print_t", "Z"), ("mininterval", "Z")], "bool",
                      bexpr(bh["H_time_test"], tenv))
    out += definition("gen_full_last_update", [("n", "Z")], "Z", zexpr(bh["H_last_update"], {"n": "Z"}))
    out += "Definition gen_full_first_meter : Z * Z := (%s, %s).\n\n" % (zexpr(hf["H_first_n"], {}), zexpr(hf["H_first_elapsed"], {}))
    out += "Definition gen_full_init : Z * Z := (%s, %s).\n\n" % (zexpr(hf["H_n0"], {}), zexpr(hf["H_last0"], {}))
    hs = match_function(tree, T_SBAR)
    kinds, bh = _classify_body(hs["L_body"], "sbar")
    out += "Definition gen_sbar_skel : bar_skel :=\n  {| sk_fallback := %s; sk_body := [%s] |}.\n\n" % (
        _fallback(hs["S_fallback"], "sbar"), "; ".join(kinds))
    if "H_i_step" not in bh:
        raise Untranslatable("sbar: the loop body has no counter step")
    out += definition("gen_sbar_i_step", [("i", "Z")], "Z", zexpr(bh["H_i_step"], {"i": "Z"}))
    hpr = match_function(tree, T_PRANGE)
    out += "Definition gen_prange_expr : wexpr := %s.\n\n" % wexpr(hpr["H_prange_expr"], "kwargs", "prange")
    hpm = match_function(tree, T_PMAP)
    out += "Definition gen_pmap_expr : wexpr := %s.\n\n" % wexpr(hpm["H_pmap_expr"], "kw", "pmap")
    out += "Definition gen_pmap_defaults : Z * Z := (%s, %s).\n\n" % (const_z(hpm["H_d_chunksize"], "pmap chunksize="),
                                                                   const_z(hpm["H_d_nproc"], "pmap nproc="))
    hst = match_function(tree, T_STATUS, cls=True)
    pad = copy.deepcopy(hst["H_pad"])
    for x in ast.walk(pad):          # len(s) -> len_s
        for f, v in ast.iter_fields(x):
            if isinstance(v, list):
                for j, y in enumerate(v):
                    if isinstance(y, ast.Call) and ast.unparse(y) == "len(s)":
                        v[j] = ast.Name(id="len_s", ctx=ast.Load())
            elif isinstance(v, ast.Call) and ast.unparse(v) == "len(s)":
                setattr(x, f, ast.Name(id="len_s", ctx=ast.Load()))
    out += definition("gen_status_pad", [("self_last_printed_len", "Z"), ("len_s", "Z")], "Z",
                      zexpr(pad, {"self_last_printed_len": "Z", "len_s": "Z"}))
    # format_interval: whole body
    fi = tint.find_function(ast.unparse(tree), "format_interval")
    if [a.arg for a in fi.args.args] != ["t"] or fi.args.defaults or fi.args.vararg or fi.args.kwarg:
        raise Untranslatable("format_interval: signature changed")
    out += definition("gen_format_interval", [("t", "Z")], "result (ifmt * list Z)",
                      block(_strip_doc(fi.body), {"t": "Z"}, intvars=("h", "m", "s", "mins")))
    # format_meter: which total is displayed
    hm = match_function(tree, T_FORMAT_METER)
    dump = hashlib.sha256("\n".join(ast.dump(s) for s in hm["L_bar"]).encode()).hexdigest()[:16]
    if dump != PINNED_BAR:
        raise Untranslatable("format_meter: the bar branch (float formatting) changed (pinned text %s, now %s)" % (PINNED_BAR, dump))
    divs = meter_divisions(hm["L_bar"], "ATotalTrue")
    out += "Definition gen_meter_divisions : list (mvar * list matom) :=\n  [%s].\n\n" % ";\n   ".join(
        "(%s, [%s])" % (v, "; ".join(p)) for v, p in divs)
    cmp_ = bexpr(hm["H_cmp"], {"n": "Z", "total": "Z"})
    out += ("Definition gen_meter_total (n : Z) (total0 : option Z) : option Z :=\n"
            "  let total1 := match total0 with Some total => if %s then None else Some total | None => None end in\n"
            "  match total1 with Some total => if negb (total =? 0) then Some total else None | None => None end.\n\n" % cmp_)
    return out


HEADER = """(* GENERATED by harness/props/c20_translate.py from esutil/algorithm.py, esutil/numpy_util.py and
   esutil/pbar.py of the tree under check -- do not edit.  Rewritten on every run of ./check C20;
   C20/Tie.v proves that every definition below equals the hand model for all inputs. *)
From EsVerif.Common Require Import Base.
From EsVerif.C20 Require Import Model Model2 Meter Shape.

"""


def generate(impl_root):
    def tree(rel):
        return ast.parse(open(os.path.join(impl_root, "esutil", rel)).read())
    alg, nu, pb = tree("algorithm.py"), tree("numpy_util.py"), tree("pbar.py")
    out = [HEADER]
    out.append("(* ---- esutil/algorithm.py: isplit *)\n" + gen_isplit(alg))
    out.append("(* ---- esutil/numpy_util.py: splitarray *)\n" + gen_splitarray(nu))
    out.append("(* ---- esutil/algorithm.py: quicksort, _quicksort, partition *)\n" +
               gen_sort(alg, "", T_QUICKSORT, T_QS, T_PART, {"data"}))
    out.append("(* ---- esutil/algorithm.py: quicksort_keyvalue, _quicksort_keyvalue, partition_keyvalue\n"
               "        (keys[] and data[] are stored at the same indices in every statement: one array of records) *)\n" +
               gen_sort(alg, "_kv", T_QUICKSORT_KV, T_QS_KV, T_PART_KV, {"keys"}))
    out.append("(* ---- esutil/pbar.py *)\n" + gen_pbar(pb))
    return "".join(out)


def regenerate(impl_root, coqdir):
    """returns (text, changed).  Raises Untranslatable / SyntaxError / OSError (fail closed)."""
    text = generate(impl_root)
    dst = os.path.join(coqdir, GEN_REL)
    old = open(dst).read() if os.path.exists(dst) else None
    if old != text:
        tmp = dst + ".tmp.%d" % os.getpid()
        with open(tmp, "w") as f:
            f.write(text)
        os.replace(tmp, dst)
    return text, old != text


if __name__ == "__main__":
    import sys
    sys.stdout.write(generate(sys.argv[1]))

"""C20 -- the sequence / history dimension.

A history is a list of steps executed in ONE process on named objects (lists, counting lists, ndarrays, generator
objects returned by pbar/prange).  Objects are passed again after their contents were changed in place, different
objects with equal contents are passed, results are scribbled over by the "caller", wrappers are re-iterated and
interleaved, pmap is called again with the same iterable object.  All histories of a run share the process, so state
carried across calls (module-level / function-level caches keyed by value, identity, length, first/last element ...)
collides across histories as well.

Every call step yields {"op", "in", "out"}: "in" is the concrete input AT CALL TIME (contents read back from the
objects), "out" the canonical output.  The same call is also made ALONE: `Fresh` keeps a pristine zygote process (it
imports esutil and never calls it) and forks one child per call, which builds fresh objects from "in" and runs the
call; the two outputs must be identical (independence of history).

This module is also the zygote:  python -m harness.props.c20_seq --zygote
"""
import functools
import io
import json
import os
import select
import subprocess
import sys

NUMTYPES = ("int", "int64", "int32", "uint8")


class CList(list):
    """a list whose iteration is observable (how many items were pulled so far)"""
    pulls = 0

    def __iter__(self):
        for x in list.__iter__(self):
            self.pulls += 1
            yield x


def _typed(v, t):
    if t == "int":
        return int(v)
    import numpy as np
    return getattr(np, t)(v)


def _guard(f):
    try:
        return ["ok", f()]
    except Exception as e:  # noqa
        from .. import core
        return ["err", "EOther" if isinstance(e, ZeroDivisionError) else core.errclass(e)]


def _mk(kind, values):
    if kind == "ndarray":
        import numpy as np
        return np.array(values, dtype="i8")
    if kind == "clist":
        return CList(values)
    return list(values)


def _ints(a):
    return [int(x) for x in a]


# ------------------------------------------------------------------------------------------------ primitives
_KEEP = None     # inside a history: [(result object, function reading it back, what it read when the call returned)]


def _keep(obj, read):
    if _KEEP is not None:
        _KEEP.append((obj, read, read(obj)))


def p_quicksort(A):
    import esutil.algorithm as alg

    def f():
        alg.quicksort(A)
        return _ints(A)
    return _guard(f)


def p_qskv(K, V):
    import esutil.algorithm as alg

    def f():
        alg.quicksort_keyvalue(K, V)
        return [[int(a), int(b)] for a, b in zip(K, V)]
    return _guard(f)


def p_isplit(num, nchunks, scribble=False):
    import esutil.algorithm as alg

    def f():
        s = alg.isplit(num, nchunks)
        out = [[int(a), int(b)] for a, b in zip(s["start"], s["end"])]
        if scribble:               # what a caller shifting / clipping the ranges does with ITS result
            s["start"] += 1000
            s["end"] -= 7
        _keep(s, lambda a: [[int(x), int(y)] for x, y in zip(a["start"], a["end"])])
        return out
    return _guard(f)


def p_splitarray(nper, A, scribble=False):
    import esutil.numpy_util as nu

    def f():
        ch = nu.splitarray(nper, A)
        out = [_ints(c) for c in ch]
        if scribble:
            ch.clear()
        if isinstance(A, list):    # chunks of an ndarray argument are views of it (aliasing by design): not retained
            _keep(ch, lambda l: [_ints(c) for c in l])
        return out
    return _guard(f)


def res_total(sym, n):
    """symbolic total -> number, relative to the length the iterable has when the call is made"""
    if isinstance(sym, str):
        return {"none": None, "exact": n, "less": max(n - 2, 1), "more": n + 5, "zero": 0, "negative": -3}[sym]
    return sym


def _pbar_kw(i):
    return dict(desc=i.get("desc", ""), total=i.get("total"), leave=i.get("leave", True), file=io.StringIO(),
                mininterval=0, miniters=i.get("miniters", 1), n_bars=i.get("n_bars", 20), simple=i.get("simple", False))


def _source(i, obj=None):
    """(iterable to wrap, function giving the number of pulls)"""
    if obj is None:
        obj = CList(i["items"])
    obj.pulls = 0
    if i["kind"] == "gen":
        def g():
            for x in obj:
                yield x
        return g(), lambda: obj.pulls
    return obj, lambda: obj.pulls


def _drain(it, pulls, limit=None):
    got, end = [], None
    try:
        for x in it:
            got.append([int(x), pulls()])
            if limit is not None and len(got) >= limit:
                break
    except Exception as e:  # noqa
        from .. import core
        end = "EOther" if isinstance(e, ZeroDivisionError) else core.errclass(e)
    return {"yielded": got, "end": end}


def p_pbar(i, obj=None):
    """returns (output, wrapper object, pulls function)"""
    import esutil.pbar as pb
    src, pulls = _source(i, obj)
    try:
        w = pb.pbar(src, **_pbar_kw(i))
    except Exception as e:  # noqa
        from .. import core
        return {"yielded": [], "end": core.errclass(e)}, iter(()), pulls
    return _drain(w, pulls), w, pulls


def p_interleave(ia, ib, oa=None, ob=None):
    import esutil.pbar as pb
    sa, pa = _source(ia, oa)
    sb, pbl = _source(ib, ob)
    wa, wb = pb.pbar(sa, **_pbar_kw(ia)), pb.pbar(sb, **_pbar_kw(ib))
    outs = [{"yielded": [], "end": None}, {"yielded": [], "end": None}]
    live = [True, True]
    while any(live):
        for k, (w, p) in enumerate(((wa, pa), (wb, pbl))):
            if not live[k]:
                continue
            try:
                x = next(w)
                outs[k]["yielded"].append([int(x), p()])
            except StopIteration:
                live[k] = False
            except Exception as e:  # noqa
                from .. import core
                outs[k]["end"] = "EOther" if isinstance(e, ZeroDivisionError) else core.errclass(e)
                live[k] = False
    return {"a": outs[0], "b": outs[1]}


def p_prange(i):
    import esutil.pbar as pb
    n = [0]
    kw = _pbar_kw(i)
    try:
        w = pb.prange(*i["args"], **kw)
    except Exception as e:  # noqa
        from .. import core
        return {"yielded": [], "end": core.errclass(e)}, iter(())

    def cnt():
        n[0] += 1
        return n[0]
    return _drain(w, cnt), w


def p_pmap(i, items):
    import esutil.pbar as pb
    from . import c20_tasks
    kw = {"file": io.StringIO(), "mininterval": 0}
    if i.get("total") == "given":
        kw["total"] = len(items)
    if i.get("exn"):
        fn = functools.partial(c20_tasks.task_exn, i["a"], i["b"], i["p"], i["r"], i["q"], i["s"], i["lat"])
    else:
        fn = functools.partial(c20_tasks.task, i["a"], i["b"], i["lat"])
    def f():
        res = pb.pmap(fn, items, chunksize=i["chunksize"], nproc=i["nproc"], **kw)
        out = _ints(res)
        if i.get("scribble"):      # the caller empties / extends the list it got back
            res.clear()
            res.append(-777)
        _keep(res, _ints)
        return out
    return _guard(f)


# ------------------------------------------------------------------------------------------------ one call, alone
def alone(op, i):
    """the call made on fresh objects built from its recorded input"""
    if op == "quicksort":
        return p_quicksort(_mk(i["kind"], i["data"]))
    if op == "quicksort_keyvalue":
        return p_qskv(_mk(i["kind"], i["k"]), _mk(i["kind"], i["v"]))
    if op == "isplit":
        return p_isplit(_typed(i["num"], i["numtype"]), _typed(i["nchunks"], i["nchtype"]))
    if op == "splitarray":
        return p_splitarray(_typed(i["nper"], i["npertype"]), _mk(i["kind"], i["var"]))
    if op == "pbar":
        return p_pbar(i)[0]
    if op == "pbar_again":
        out, w, pulls = p_pbar(i)
        return _drain(w, pulls)
    if op == "pbar_resume":
        src, pulls = _source(i)
        import esutil.pbar as pb
        w = pb.pbar(src, **_pbar_kw(i))
        first = _drain(w, pulls, limit=i["take"])
        rest = _drain(w, pulls)
        return {"first": first, "rest": rest}
    if op == "interleave":
        return p_interleave(i["a"], i["b"])
    if op == "prange":
        return p_prange(i)[0]
    if op == "prange_again":
        out, w = p_prange(i)
        return _drain(w, lambda: 0)
    if op == "pmap":
        return p_pmap(i, list(i["items"]))
    raise ValueError("unknown op " + op)


# ------------------------------------------------------------------------------------------------ a history, in this process
def run_history(steps, objs=None, recs=None):
    """returns the list of call records {"op", "in", "out"} in the order the calls RETURNED (steps `set` produce none)"""
    global _KEEP
    top = objs is None
    if top:
        _KEEP = []
    objs = {} if objs is None else objs
    recs = [] if recs is None else recs
    for st in steps:
        op = st["op"]
        if op == "set":                                  # create, or overwrite the contents IN PLACE
            cur = objs.get(st["obj"])
            kind = st.get("kind", "list")
            same_kind = cur is not None and ((kind == "ndarray") == (not isinstance(cur, list))) and \
                (kind != "clist" or isinstance(cur, CList))
            if cur is None or st.get("fresh") or not same_kind or (kind == "ndarray" and len(cur) != len(st["values"])):
                objs[st["obj"]] = _mk(kind, st["values"])
            else:
                cur[:] = st["values"]
            continue
        kind_of = lambda o: "ndarray" if not isinstance(o, list) else ("clist" if isinstance(o, CList) else "list")  # noqa
        if op == "quicksort":
            A = objs[st["obj"]]
            i = {"kind": kind_of(A), "data": _ints(A)}
            out = p_quicksort(A)
        elif op == "quicksort_keyvalue":
            K, V = objs[st["keys"]], objs[st["vals"]]
            i = {"kind": kind_of(K), "k": _ints(K), "v": _ints(V)}
            out = p_qskv(K, V)
        elif op == "isplit":
            i = {"num": st["num"], "nchunks": st["nchunks"], "numtype": st.get("numtype", "int"), "nchtype": st.get("nchtype", "int")}
            out = p_isplit(_typed(i["num"], i["numtype"]), _typed(i["nchunks"], i["nchtype"]), st.get("scribble", False))
        elif op == "splitarray":
            A = objs[st["obj"]]
            i = {"nper": st["nper"], "npertype": st.get("npertype", "int"), "kind": kind_of(A), "var": _ints(A)}
            out = p_splitarray(_typed(i["nper"], i["npertype"]), A, st.get("scribble", False))
        elif op == "pbar":
            A = objs[st["obj"]]
            i = dict(st["kw"], items=_ints(A), kind=st.get("kind", "clist"))
            i["total"] = res_total(i.get("total"), len(A))
            out, w, pulls = p_pbar(i, A)
            if st.get("keep"):
                objs[st["keep"]] = (w, pulls, i)
        elif op == "pbar_again":                         # iterate an exhausted wrapper once more
            w, pulls, i = objs[st["gen"]]
            out = _drain(w, pulls)
        elif op == "pbar_resume":                        # take k items, leave the wrapper alone for a while, finish it
            A = objs[st["obj"]]
            i = dict(st["kw"], items=_ints(A), kind=st.get("kind", "clist"), take=st["take"])
            i["total"] = res_total(i.get("total"), len(A))
            src, pulls = _source(i, A)
            import esutil.pbar as pb
            w = pb.pbar(src, **_pbar_kw(i))
            first = _drain(w, pulls, limit=i["take"])
            run_history(st.get("meanwhile", []), objs, recs)     # other calls while this wrapper is suspended
            out = {"first": first, "rest": _drain(w, pulls)}
        elif op == "interleave":
            A, B = objs[st["a"]], objs[st["b"]]
            ia = dict(st["kwa"], items=_ints(A), kind=st.get("kinda", "clist"))
            ib = dict(st["kwb"], items=_ints(B), kind=st.get("kindb", "clist"))
            ia["total"] = res_total(ia.get("total"), len(A))
            ib["total"] = res_total(ib.get("total"), len(B))
            i = {"a": ia, "b": ib}
            out = p_interleave(ia, ib, A, B)
        elif op == "prange":
            i = dict(st["kw"], args=st["args"])
            try:
                nr = len(range(*st["args"]))
            except Exception:  # noqa
                nr = 0
            i["total"] = res_total(i.get("total"), nr)
            out, w = p_prange(i)
            if st.get("keep"):
                objs[st["keep"]] = (w, i)
        elif op == "prange_again":
            w, i = objs[st["gen"]]
            out = _drain(w, lambda: 0)
        elif op == "pmap":
            A = objs[st["obj"]]
            i = dict(st["kw"], items=_ints(A))
            out = p_pmap(i, A)
        else:
            raise ValueError("unknown step " + op)
        recs.append({"op": op, "in": i, "out": out})
    if top:
        # no buffer reuse: every result handed out earlier still reads as it did when its call returned
        kept, _KEEP = _KEEP, None
        recs.append({"op": "results_unchanged", "in": {"results": len(kept)},
                     "out": [read(obj) == snap for obj, read, snap in kept]})
    return recs


# ------------------------------------------------------------------------------------------------ fresh processes
class Fresh:
    """pristine zygote (imports esutil, never calls it); one forked child per call"""

    def __init__(self, verif_root):
        self.p = subprocess.Popen([sys.executable, "-m", "harness.props.c20_seq", "--zygote"], cwd=verif_root,
                                  stdin=subprocess.PIPE, stdout=subprocess.PIPE, text=True, bufsize=1)

    def call(self, op, i, timeout=120):
        try:
            self.p.stdin.write(json.dumps({"op": op, "in": i}) + "\n")
            self.p.stdin.flush()
            r, _, _ = select.select([self.p.stdout], [], [], timeout)
            if not r:
                return {"fresh_error": "timeout"}
            line = self.p.stdout.readline()
            if not line:
                return {"fresh_error": "zygote died"}
            return json.loads(line)
        except Exception as e:  # noqa
            return {"fresh_error": "%s: %s" % (type(e).__name__, e)}

    def close(self):
        try:
            self.p.stdin.close()
            self.p.wait(timeout=10)
        except Exception:  # noqa
            self.p.kill()


def canon(x):
    return json.dumps(x, sort_keys=True)


def _zygote():
    import numpy  # noqa
    import esutil.algorithm  # noqa
    import esutil.numpy_util  # noqa
    import esutil.pbar  # noqa
    for line in sys.stdin:
        req = json.loads(line)
        sys.stdout.flush()
        pid = os.fork()
        if pid == 0:
            try:
                out = alone(req["op"], req["in"])
            except Exception as e:  # noqa
                out = {"fresh_error": "%s: %s" % (type(e).__name__, e)}
            sys.stdout.write(json.dumps(out) + "\n")
            sys.stdout.flush()
            os._exit(0)
        os.waitpid(pid, 0)


if __name__ == "__main__":
    if "--zygote" in sys.argv:
        _zygote()

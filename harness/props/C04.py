"""C04 — delimited-text record files round-trip values and structure (DESIGN.md section 7, C04).

Entry points: sfile.write(..., delim=)/sfile.read and Recfile(mode='w', delim=).write /
Recfile(mode='r', dtype=, delim=).read, observed at the text of the file, the stored header and the
array read back.  The Coq model (C04/TextModel.v) prints integers and scans every token itself; the
text of a floating-point element and the value of a floating-point token are computed by the model too
(C04/FmtModel.v: printf("%.<p>g") and strtod/strtof in exact integer arithmetic, the precisions <p> read
out of records.cpp on every run by c04_translate.py -> C04/Gen.v).  Nothing is assumed about them: the
model's file text must equal the bytes glibc wrote, the values the model predicts must equal the values
glibc stored, and the contract H_num of the theorems (Spec.fcontract_b) is evaluated on every case.
(fmt_oracle / parse_oracle below are Python twins of FmtModel; the check does not use them.)
"""
import json
import os
import struct
from fractions import Fraction

from .. import core
from ..runner import Entry, corpus_cases
from . import c04_translate

PRE = ("From Coq.Strings Require Import Byte.\nFrom Coq Require Import PrimInt63.\n"
       "From EsVerif.Common Require Import Base Bytes.\nFrom EsVerif.C04 Require Import TextModel Spec FmtModel Exec.\n")

KF = "kf_leading_ws_after_numeric"
KF2 = "kf_float_print_overflow"
DELIMS = [",", ":", "\t", " ", ";", "|"]
INT_T = ["i1", "u1", "i2", "u2", "i4", "u4", "i8", "u8"]
FLT_T = ["f4", "f8"]
WS = b" \t\x0b\x0c"


# ----------------------------------------------------------------------------------------------
# cases: {"delim", "fields": [{"name","t","o","shape"}], "rows": [[[el,...] per field] per row]}
#   el: int (integers) | hex of the IEEE bit pattern, most significant byte first (floats) |
#       hex of exactly <width> bytes (strings, NUL padded)
# ----------------------------------------------------------------------------------------------

def esz(t):
    return int(t[1:])


def knd(t):
    return {"i": "int", "u": "int", "f": "flt", "S": "str"}[t[0]]


def nel(shape):
    n = 1
    for d in shape:
        n *= d
    return n


def el_bytes(f, el, order=None):
    """memory bytes of one element in byte order `order` ('<' or '>'; default: the field's declared order)"""
    t, o = f["t"], order or f["o"]
    if t[0] == "S":
        return bytes.fromhex(el)
    bo = "little" if o == "<" else "big"
    if t[0] == "f":
        return int(el, 16).to_bytes(esz(t), bo)
    return int(el).to_bytes(esz(t), bo, signed=(t[0] == "i"))


def np_dtype(case):
    import numpy as np
    descr = []
    for f in case["fields"]:
        ts = f["t"] if (f["t"][0] == "S" or esz(f["t"]) == 1) else f["o"] + f["t"]
        descr.append((f["name"], ts, tuple(f["shape"])) if f["shape"] else (f["name"], ts))
    return np.dtype(descr)


def build_array(case):
    """the structured array whose rows hold exactly the case's element bytes.
    case["view"] = [start, step]: the strided view base[start::step] of a larger array whose other rows are zero;
    case["form"] (list): "reversed" = base[::-1] of an array holding the rows in reverse order (negative stride),
    "readonly" = WRITEABLE flag cleared, "recarray" = numpy.recarray subclass view, "foreign" = memory owned by a bytes
    object (np.frombuffer without copy; read-only).  Same table in every form, only the memory layout / flags differ."""
    import numpy as np
    dt = np_dtype(case)
    rows = [b"".join(el_bytes(f, el) for f, els in zip(case["fields"], r) for el in els) for r in case["rows"]]
    assert all(len(x) == dt.itemsize for x in rows), (dt, [len(x) for x in rows])
    form = case.get("form") or []
    if case.get("view"):
        start, step = case["view"]
        n = len(rows)
        total = start + step * (n - 1) + 1 + 1
        buf = bytearray(dt.itemsize * total)
        for i, x in enumerate(rows):
            k = start + step * i
            buf[k * dt.itemsize:(k + 1) * dt.itemsize] = x
        base = np.frombuffer(bytes(buf), dtype=dt).copy()
        a = base[start:start + step * (n - 1) + 1:step]
        assert a.shape[0] == n
    elif "reversed" in form:
        a = np.frombuffer(b"".join(reversed(rows)), dtype=dt).copy()[::-1]
    elif "foreign" in form:
        a = np.frombuffer(b"".join(rows), dtype=dt)
    else:
        a = np.frombuffer(b"".join(rows), dtype=dt).copy()
    if "recarray" in form:
        a = a.view(np.recarray)
    if "readonly" in form:
        a.setflags(write=False)
    return a


def f8_of_bits(h):
    return struct.unpack(">d", bytes.fromhex(h))[0]


def f4_of_bits(h):
    return struct.unpack(">f", bytes.fromhex(h))[0]


def isnan_bits(t, h):
    b = int(h, 16)
    if t == "f8":
        return (b >> 52) & 0x7ff == 0x7ff and b & ((1 << 52) - 1) != 0
    return (b >> 23) & 0xff == 0xff and b & ((1 << 23) - 1) != 0


CANON_NAN = {"f8": "7ff8000000000000", "f4": "7fc00000"}


# ---- the floating-point oracle -------------------------------------------------------------------

def fmt_oracle(t, h):
    """text printf("%.16g") / printf("%.7g") writes for the element with bit pattern h"""
    if isnan_bits(t, h):
        return ("-" if int(h[0], 16) >= 8 else "") + "nan"
    return "%.16g" % f8_of_bits(h) if t == "f8" else "%.7g" % f4_of_bits(h)


def _round_f32(tok):
    """bits of the binary32 nearest to the decimal text tok (ties to even), exact arithmetic"""
    import numpy as np
    neg = tok.startswith("-")
    v = abs(Fraction(tok))
    y = np.float32(float(v))                      # candidate (double rounding may be off by one ulp)
    cands = {float(y)}
    with np.errstate(all="ignore"):
        cands.add(float(np.nextafter(y, np.float32(np.inf))))
        cands.add(float(np.nextafter(y, np.float32(0))))
    fin = [c for c in cands if c != float("inf")]
    best = None
    for c in fin:
        bits = struct.unpack(">I", struct.pack(">f", c))[0]
        key = (abs(Fraction(c) - v), bits & 1)
        if best is None or key < best[0]:
            best = (key, bits)
    bits = best[1]
    fmax = Fraction(float(np.finfo(np.float32).max))
    if v >= fmax + Fraction(2) ** 103:            # beyond max + half an ulp: overflow
        bits = 0x7f800000
    return bits | (0x80000000 if neg else 0)


def parse_oracle(t, tok):
    """bit pattern scanf("%lf") / scanf("%f") stores for the token (NaNs canonical)"""
    low = tok.lower().lstrip("+-")
    neg = tok.startswith("-")
    if low == "nan":
        return CANON_NAN[t]
    if low in ("inf", "infinity"):
        return ("fff0000000000000" if neg else "7ff0000000000000") if t == "f8" else ("ff800000" if neg else "7f800000")
    if t == "f8":
        return struct.pack(">d", float(tok)).hex()
    return "%08x" % _round_f32(tok)


def oracle_tables(case):
    """(ft, pt): [(size, native element bytes, text)], [(size, text, native bytes stored)]"""
    ft, pt = {}, {}
    for f in case["fields"]:
        if f["t"][0] != "f":
            continue
        sz = esz(f["t"])
        for r in case["rows"]:
            for el in r[case["fields"].index(f)]:
                tok = fmt_oracle(f["t"], el)
                ft[(sz, el_bytes(f, el, "<"))] = tok.encode()
                pt[(sz, tok.encode())] = bytes.fromhex(parse_oracle(f["t"], tok))[::-1]
        pt[(sz, b"nan")] = bytes.fromhex(CANON_NAN[f["t"]])[::-1]
    return (sorted((k[0], k[1], v) for k, v in ft.items()), sorted((k[0], k[1], v) for k, v in pt.items()))


# ---- Coq printers ----------------------------------------------------------------------------------

def cbyte(ch):
    return "x%02x" % (ch if isinstance(ch, int) else ord(ch))


def chex(b):
    """bytes -> Coq term (list byte): Exec.ub over primitive 63-bit integers, seven bytes each (compact literals)"""
    b = bytes(b)
    return "(ub %d [%s])" % (len(b), "; ".join("0x%x%%uint63" % int.from_bytes(b[i:i + 7], "big") for i in range(0, len(b), 7)))


def ckind(t):
    if t[0] == "S":
        return "(KStr %d)" % esz(t)
    if t[0] == "f":
        return "(KFlt %d)" % esz(t)
    return "(KInt %s %d)" % ("true" if t[0] == "i" else "false", esz(t))


def corder(t, o):
    if t[0] == "S" or esz(t) == 1:
        return "NA"
    return {"<": "LE", ">": "BE", "|": "NA", "=": "LE"}[o]


def cfld(name, t, o, shape):
    return "{| fname := %s; fkind := %s; forder := %s; fshape := %s |}" % (
        chex(name.encode()), ckind(t), corder(t, o), core.clist(shape))


def ctable(flds, rows):
    """flds: [(name,t,o,shape)], rows: [[[bytes]]]"""
    return "{| tdt := [%s]; trows := [%s] |}" % (
        "; ".join(cfld(*f) for f in flds),
        "; ".join("[" + "; ".join("[" + "; ".join(chex(e) for e in els) + "]" for els in r) + "]" for r in rows))


def ctab3(tab):
    return "[" + "; ".join("(%d%%nat, %s, %s)" % (sz, chex(a), chex(b)) for sz, a, b in tab) + "]"


def case_table(case):
    flds = [(f["name"], f["t"], f["o"], f["shape"]) for f in case["fields"]]
    rows = [[[el_bytes(f, el) for el in els] for f, els in zip(case["fields"], r)] for r in case["rows"]]
    return ctable(flds, rows)


def cout(read):
    """the array read back: ['ok', {'descr': [[name, str, shape]], 'rows': [[[hex]]]}] | ['err', class, msg]"""
    if read[0] != "ok":
        return "(Err %s)" % read[1]
    flds = [(n, s[1:], s[0], sh) for n, s, sh in read[1]["descr"]]
    rows = [[[bytes.fromhex(e) for e in els] for els in r] for r in read[1]["rows"]]
    return "(Ok %s)" % ctable(flds, rows)


def chdr(h):
    return "(%s, [%s])" % (chex(bytes.fromhex(h["delim"])), "; ".join(
        "(%s, %s, %s)" % (chex(bytes.fromhex(n)), chex(bytes.fromhex(s)), core.clist(sh)) for n, s, sh in h["dtype"]))


# ---- drivers of the real code ----------------------------------------------------------------------

def canon_array(r):
    """descr + per row, per field, per element memory bytes (NaNs canonicalised)"""
    import numpy as np
    descr, cols = [], []
    for n in r.dtype.names:
        fdt = r.dtype.fields[n][0]
        base = fdt.base
        descr.append([n, base.str, [int(x) for x in fdt.shape]])
        col = r[n]
        per = []
        for i in range(r.shape[0]):
            raw = col[i:i + 1].tobytes()
            els = [raw[k:k + base.itemsize] for k in range(0, len(raw), base.itemsize)]
            if base.kind == "f":
                t = "f%d" % base.itemsize
                bo = "little" if base.str[0] in "<=" else "big"
                els = [bytes.fromhex(CANON_NAN[t])[::-1] if isnan_bits(t, "%0*x" % (2 * base.itemsize, int.from_bytes(e, bo)))
                       and bo == "little" else e for e in els]
            per.append([e.hex() for e in els])
        cols.append(per)
    rows = [[cols[j][i] for j in range(len(descr))] for i in range(r.shape[0])]
    return {"descr": descr, "rows": rows}


_TMP_COUNT = [0]


def _tmp(ctx_work, tag):
    """a path never used before in this process: single cases must not depend on what earlier cases left behind (a failing
    single case has to fail again when replayed alone); only the steps of a sequence share a path, by design"""
    os.makedirs(ctx_work, exist_ok=True)
    _TMP_COUNT[0] += 1
    return os.path.join(ctx_work, "c04_%s_%d_%d.rec" % (tag, os.getpid(), _TMP_COUNT[0]))


class _Base(Entry):
    work = "/var/tmp"

    def cases(self, ctx, round=0):
        return gen_cases(ctx, round, self.name)

    def nontrivial(self, c, out):
        if "steps" in c:
            return any(self.nontrivial(st, None) for st in c["steps"])
        kinds = set(knd(f["t"]) for f in c["fields"])
        if len(kinds) < 2 or len(c["rows"]) < 2:
            return False
        for r in c["rows"]:
            for f, els in zip(c["fields"], r):
                for el in els:
                    if knd(f["t"]) != "int" or not (0 <= el < 1000):
                        return True
        return False

    def family(self, c):
        return c.get("family", self.name)

    def classify(self, c, out, v):
        if v & 4:
            return KF
        if v & 16:
            return KF2                   # a finite float whose printed text exceeds the format's largest finite value
        # a strided view written wrongly: Records::Write ignores strides (repaired by fixes/C01/0002-…, Recfile.write)
        if "steps" in c:
            return None
        return "noncontiguous_view" if c.get("view") else None


def _err(e):
    return [core.errclass(e), "%s: %s" % (type(e).__name__, str(e)[:200])]


def _scramble(arr):
    """overwrite every byte of an array the caller owns (if it is writeable)"""
    import numpy as np
    try:
        if arr.flags.writeable:
            arr.view(np.ndarray)[...] = np.frombuffer(b"\x5a" * arr.dtype.itemsize, dtype=arr.dtype)[0]
    except Exception:  # noqa
        pass


def step_array(c, state):
    """the array of one step.  In a sequence with c["same_object"] the array object of the previous step is kept and its
    contents are replaced IN PLACE by this step's rows (same dtype and length required)."""
    import numpy as np
    a = build_array(c)
    prev = state.get("array")
    if c.get("same_object") and prev is not None and prev.dtype == a.dtype and prev.shape == a.shape and prev.flags.writeable:
        np.copyto(prev, a)
        a = prev
        state["same_object_used"] = state.get("same_object_used", 0) + 1
    state["array"] = a
    return a


class _Seq:
    """sequences: a case with "steps" is a list of ordinary cases carried out one after the other in this process, on ONE
    path (rewritten by every step) and, with "reuse": true, through ONE SFile / Recfile object re-opened for every file.
    Every step is judged like a single case (model comparison + property checker); the verdicts are OR-ed."""

    def impl(self, c):
        fn = _tmp(self.work, self.tag)
        state = {"reuse": bool(c.get("reuse"))}
        try:
            if "steps" not in c:
                return self.impl_one(c, fn, state)
            outs = []
            for st in c["steps"]:
                outs.append(self.impl_one(st, fn, state))
            return {"steps": outs}
        finally:
            for k in ("sobj", "robj"):
                try:
                    if state.get(k) is not None:
                        state[k].close()
                except Exception:  # noqa
                    pass
            if os.path.exists(fn):
                os.remove(fn)

    def term(self, c, out):
        if "steps" not in c:
            return self.term_one(c, out)
        t = "0"
        for st, o in reversed(list(zip(c["steps"], out["steps"]))):
            t = "(Z.lor (%s) %s)" % (self.term_one(st, o), t)
        return t

    def show(self, c):
        if "steps" not in c:
            return self.show_one(c)
        return "[" + "; ".join(self.show_one(st) for st in c["steps"]) + "]"


class SFileRT(_Seq, _Base):
    name = "sfile"
    tag = "s"

    def impl_one(self, c, fn, state):
        import esutil.sfile as sfile
        a = step_array(c, state)
        out = {}
        api = c.get("api") or {}
        kw = {"delim": c["delim"]}
        if api.get("header"):
            kw["header"] = {"note": "x y", "n": 3, "flt": 1.5}
        if api.get("defaults"):
            kw.update(padnull=False, ignorenull=False, append=False)
        try:
            if state["reuse"]:
                sf = state.get("sobj")
                if sf is None:
                    sf = state["sobj"] = sfile.SFile()
                sf.open(fn, mode="w", delim=c["delim"])
                sf.write(a, header=kw.get("header"))
                sf.close()
            elif api.get("writer") == "SFile":
                with sfile.SFile(fn, mode="w", delim=c["delim"]) as sf:
                    sf.write(a, header=kw.get("header"))
            elif api.get("order") == "fd":
                sfile.write(fn, a, **kw)
            else:
                sfile.write(a, fn, **kw)
        except Exception as e:  # noqa
            return {"write_err": _err(e)}
        raw = open(fn, "rb").read()
        if c.get("alias"):
            _scramble(a)                             # the file must not depend on the caller's array after the write returned
        off = None
        try:
            with sfile.SFile(fn) as sf:
                off = sf._data_start
                hd = sf.get_header()
            out["hdr"] = {"delim": hd["_DELIM"].encode("latin1").hex(),
                          "dtype": [[d[0].encode().hex(), d[1].encode().hex(),
                                     ([int(x) for x in d[2]] if isinstance(d[2], (tuple, list)) else [int(d[2])]) if len(d) > 2 else []]
                                    for d in hd["_DTYPE"]]}
        except Exception as e:  # noqa
            out["hdr"] = {"delim": "", "dtype": []}
            out["hdr_err"] = "%s: %s" % (type(e).__name__, str(e)[:200])
        # the data section is located in the raw bytes independently of what the library says about the header
        end = raw.find(b"\nEND\n\n")
        out["text"] = raw[end + 6:].hex() if end >= 0 else raw.hex()
        if off is not None and end >= 0 and off != end + 6:
            out["offset_mismatch"] = [off, end + 6]
        try:
            rd = api.get("reader")
            if state["reuse"]:
                sf = state["sobj"]
                sf.open(fn)
                res = sf.read()
                again = sf.read()                       # a second read through the same open object
                sf.close()
                if canon_array(again) != canon_array(res):
                    raise AssertionError("second read() through the same SFile object differs from the first")
            elif rd == "header":
                res, hd2 = sfile.read(fn, header=True)
                assert hd2["_DELIM"] == c["delim"]
            elif rd == "SFile":
                with sfile.SFile(fn) as sf:
                    res = sf.read()
            elif rd == "slice":
                with sfile.SFile(fn) as sf:
                    res = sf[:]
            elif rd == "recfile_offset":
                # the documented way to read the data section of an sfile with Recfile: offset= (non-default), rows counted
                import esutil.recfile as recfile
                with recfile.Recfile(fn, mode="r", dtype=a.dtype, delim=c["delim"], offset=end + 6) as r:
                    res = r.read()
            else:
                res = sfile.read(fn)
            out["read"] = ["ok", canon_array(res)]
            if c.get("alias"):
                # the caller modifies the RETURNED array and reads again: the second result must be the first one
                _scramble(res)
                again = sfile.read(fn)
                if canon_array(again) != out["read"][1]:
                    out["read"] = ["err", "EOther", "result of a second read changed after the caller modified the first result"]
        except Exception as e:  # noqa
            out["read"] = ["err"] + _err(e)
        if open(fn, "rb").read() != raw:             # frame: reading must not modify the file (C04_read_changes_nothing)
            out["file_modified_by_read"] = True
        return out

    def term_one(self, c, out):
        if "write_err" in out or "offset_mismatch" in out or "file_modified_by_read" in out:
            return "3"
        return "v_sfile2 %s %s %s %s %s" % (cbyte(c["delim"]), case_table(c),
                                            chex(bytes.fromhex(out["text"])), chdr(out["hdr"]), cout(out["read"]))

    def show_one(self, c):
        return "m_sfile2 %s %s" % (cbyte(c["delim"]), case_table(c))


class RecfileRT(_Seq, _Base):
    name = "recfile"
    tag = "r"

    def impl_one(self, c, fn, state):
        import esutil.recfile as recfile
        a = step_array(c, state)
        out = {}
        api = c.get("api") or {}
        wkw = {"delim": c["delim"]}
        if api.get("defaults"):
            wkw.update(padnull=False, ignorenull=False, bracket_arrays=False)
        try:
            if state["reuse"]:
                r = state.get("robj")
                if r is None:
                    r = state["robj"] = recfile.Recfile(fn, mode="w", **wkw)
                else:
                    r.open(fn, mode="w", **wkw)
                r.write(a)
                r.close()
            elif api.get("writer") == "func":
                recfile.write(fn, a, **wkw)
            elif api.get("writer") == "Open":
                r = recfile.Open(fn, mode="w", **wkw)
                r.write(a)
                r.close()
            else:
                with recfile.Recfile(fn, mode="w", **wkw) as r:
                    r.write(a)
        except Exception as e:  # noqa
            return {"write_err": _err(e)}
        out["text"] = open(fn, "rb").read().hex()
        if c.get("alias"):
            _scramble(a)
        rkw = {"delim": c["delim"]}
        if api.get("nrows"):
            rkw["nrows"] = len(c["rows"])
        if api.get("nrows_less"):                     # fewer rows than the file holds: the first k rows
            rkw["nrows"] = int(api["nrows_less"])
        if api.get("defaults"):
            rkw["offset"] = 0
        dt = a.dtype.descr if api.get("dtype") == "descr" else a.dtype
        try:
            if state["reuse"]:
                r = state["robj"]
                r.open(fn, mode="r", dtype=dt, **rkw)
                res = r.read()
                again = r.read()
                r.close()
                if canon_array(again) != canon_array(res):
                    raise AssertionError("second read() through the same Recfile object differs from the first")
            elif api.get("reader") == "func":
                res = recfile.read(fn, dt, **rkw)
            elif api.get("reader") == "slice":
                with recfile.Recfile(fn, mode="r", dtype=dt, **rkw) as r:
                    res = r[:]
            else:
                with recfile.Recfile(fn, mode="r", dtype=dt, **rkw) as r:
                    res = r.read()
            out["read"] = ["ok", canon_array(res)]
            if c.get("alias") and not api.get("nrows_less"):
                _scramble(res)
                with recfile.Recfile(fn, mode="r", dtype=dt, **rkw) as r:
                    again = r.read()
                if canon_array(again) != out["read"][1]:
                    out["read"] = ["err", "EOther", "result of a second read changed after the caller modified the first result"]
        except Exception as e:  # noqa
            out["read"] = ["err"] + _err(e)
        if open(fn, "rb").read().hex() != out["text"]:   # frame: reading must not modify the file
            out["file_modified_by_read"] = True
        return out

    def term_one(self, c, out):
        if "write_err" in out or "file_modified_by_read" in out:
            return "3"
        k = (c.get("api") or {}).get("nrows_less")
        if k:
            return "v_recfile_n %s %s %s %s %s" % (cbyte(c["delim"]), case_table(c), core.cz(k),
                                                   chex(bytes.fromhex(out["text"])), cout(out["read"]))
        return "v_recfile2 %s %s %s %s" % (cbyte(c["delim"]), case_table(c),
                                           chex(bytes.fromhex(out["text"])), cout(out["read"]))

    def show_one(self, c):
        k = (c.get("api") or {}).get("nrows_less")
        if k:
            return "m_recfile_n %s %s %s" % (cbyte(c["delim"]), case_table(c), core.cz(k))
        return "m_recfile2 %s %s" % (cbyte(c["delim"]), case_table(c))


class RawReadRT(Entry):
    """Recfile(mode='r', dtype=, delim=, nrows=).read() on hand-made, possibly malformed text: empty fields (-> NaN for floats,
    RuntimeError for integers), files cut off anywhere, blanks around numbers, '+' signs, leading zeros, garbage bytes,
    missing final newline.  Only the correspondence model <-> implementation is judged (verdict 0 or 1): it ties the
    scanner theorems of ScanSpec.v (acceptance/rejection on arbitrary text) to the code that runs."""
    name = "rawread"
    search_rounds = 0
    work = "/var/tmp"

    def cases(self, ctx, round=0):
        return gen_raw_cases(ctx, round)

    def nontrivial(self, c, out):
        return c.get("mal") not in (None, "none")

    def impl(self, c):
        import esutil.recfile as recfile
        fn = _tmp(self.work, "w")
        try:
            with open(fn, "wb") as fh:
                fh.write(bytes.fromhex(c["text"]))
            try:
                with recfile.Recfile(fn, mode="r", dtype=np_dtype(c), delim=c["delim"], nrows=c["nrows"]) as r:
                    return {"read": ["ok", canon_array(r.read())]}
            except Exception as e:  # noqa
                return {"read": ["err"] + _err(e)}
        finally:
            if os.path.exists(fn):
                os.remove(fn)

    def _args(self, c):
        flds = "[%s]" % "; ".join(cfld(f["name"], f["t"], "<", f["shape"]) for f in c["fields"])
        return "%s %s %s %s" % (cbyte(c["delim"]), flds, core.cz(c["nrows"]), chex(bytes.fromhex(c["text"])))

    def term(self, c, out):
        return "v_rawread %s %s" % (self._args(c), cout(out["read"]))

    def show(self, c):
        return "m_rawread %s" % self._args(c)

    def classify(self, c, out, v):
        return None


def cell_text_py(t, el):
    if t[0] == "S":
        return bytes.fromhex(el)
    if t[0] == "f":
        return fmt_oracle(t, el).encode()
    return str(int(el)).encode()


def gen_raw_cases(ctx, round):
    r = ctx.rng
    cs = []
    n = ctx.n(78, 600) if round == 0 else ctx.n(60, 300)
    mals = ["none", "empty-float", "empty-int", "truncate", "blank-before-number", "blank-before-delim", "plus-sign",
            "leading-zeros", "garbage", "no-final-newline", "extra-newlines", "drop-last-field", "empty-first-field"]
    for i in range(n):
        d = r.choice(DELIMS)
        nf = r.randint(1, 4)
        fields = []
        for k in range(nf):
            t = r.choice(INT_T + FLT_T + ["S%d" % r.randint(1, 5)])
            fields.append({"name": "f%d" % k, "t": t, "o": "<", "shape": [] if r.random() < 0.8 else [2]})
        nrows = r.randint(1, 4)
        mal = mals[i % len(mals)]
        # a malformation can shift a token into ANY field of the table.  glibc's integer conversions saturate out-of-range
        # tokens (strtol/strtoul) and then truncate to the field width, which the scanner model does not describe (it wraps):
        # out-of-range integer tokens are outside the scanner model.  Every integer token therefore lies inside the range of
        # EVERY integer field of its table.
        int_ts = [f["t"] for f in fields if f["t"][0] in "iu"]
        ilo = max([int_range(t)[0] for t in int_ts] or [0])
        ihi = min([int_range(t)[1] for t in int_ts] or [0])
        cells = []                                   # [row][flat cell] = (type, bytes)
        for _ in range(nrows):
            row = []
            for f in fields:
                for _k in range(nel(f["shape"])):
                    t = f["t"]
                    if t[0] == "S":
                        el = plain_str(r, esz(t))
                    elif t == "f8":
                        el = gen_f8(r)
                    elif t == "f4":
                        el = gen_f4(r)
                    else:
                        el = min(max(gen_int(r, t), ilo), ihi)
                    row.append([t, cell_text_py(t, el)])
            cells.append(row)
        num = [(i2, j) for i2, row in enumerate(cells) for j, (t, _) in enumerate(row) if t[0] != "S"]
        pick = lambda pred: r.choice([x for x in num if pred(cells[x[0]][x[1]][0])] or [None])    # noqa
        if mal == "empty-float":
            x = pick(lambda t: t[0] == "f")
            if x:
                cells[x[0]][x[1]][1] = b""
        elif mal == "empty-int":
            x = pick(lambda t: t[0] in "iu")
            if x:
                cells[x[0]][x[1]][1] = b""
        elif mal == "empty-first-field":
            if cells[0][0][0][0] != "S":
                cells[0][0][1] = b""
        elif mal == "blank-before-number" and num:
            x = r.choice(num)
            cells[x[0]][x[1]][1] = r.choice([b" ", b"  ", b"\t"] if d != "\t" else [b" ", b"  "]) + cells[x[0]][x[1]][1]
        elif mal == "blank-before-delim" and num and d not in " ":
            x = r.choice(num)
            cells[x[0]][x[1]][1] = cells[x[0]][x[1]][1] + r.choice([b" ", b"  "])
        elif mal == "plus-sign" and num:
            x = r.choice(num)
            if not cells[x[0]][x[1]][1].startswith((b"-", b"n", b"i")):
                cells[x[0]][x[1]][1] = b"+" + cells[x[0]][x[1]][1]
        elif mal == "leading-zeros" and num:
            x = r.choice(num)
            v = cells[x[0]][x[1]][1]
            if v[:1].isdigit():
                cells[x[0]][x[1]][1] = b"00" + v
        elif mal == "garbage" and num:
            x = r.choice(num)
            cells[x[0]][x[1]][1] = r.choice([b"?", b"#", b"@5", b"~"])
        elif mal == "drop-last-field":
            cells[-1] = cells[-1][:-1] or cells[-1]
        text = b"".join(d.encode().join(v for _, v in row) + b"\n" for row in cells)
        if mal == "truncate" and len(text) > 1:
            text = text[:r.randint(0, len(text) - 1)]
        elif mal == "no-final-newline":
            text = text[:-1]
        elif mal == "extra-newlines":
            text = text + b"\n\n"
        cs.append({"delim": d, "fields": fields, "nrows": nrows, "text": text.hex(), "mal": mal, "family": "raw:" + mal})
    return cs


# ----------------------------------------------------------------------------------------------
# generators
# ----------------------------------------------------------------------------------------------

def int_range(t):
    b = 8 * esz(t)
    return (-(1 << (b - 1)), (1 << (b - 1)) - 1) if t[0] == "i" else (0, (1 << b) - 1)


def gen_int(r, t):
    lo, hi = int_range(t)
    k = r.random()
    if k < 0.35:
        return r.choice([lo, hi, lo + 1, hi - 1, 0, 1, -1 if lo < 0 else 0, hi // 2, lo // 2, 10, 100])
    if k < 0.8:
        return r.randint(lo, hi)
    m = r.choice([9, 10, 99, 100, 999, 1000, 10 ** 9, 10 ** 18])
    v = r.choice([-1, 1]) * (m + r.choice([-1, 0, 1]))
    return min(max(v, lo), hi)


F8_SPECIAL = ["7ff8000000000000", "fff8000000000000", "7ff0000000000001", "7ff8000000000123", "7ff0000000000000",
              "fff0000000000000", "0000000000000000", "8000000000000000", "0000000000000001", "8000000000000001",
              "000fffffffffffff", "0010000000000000", "0000000000000abc", "3fb999999999999a", "444b1ae4d6e2ef50",
              "3ee4f8b588e368f1", "3ff0000000000000", "bff0000000000000", "4197d78400000000", "433fffffffffffff",
              "4340000000000000", "3fd5555555555555", "400921fb54442d18", "7e37e43c8800759c", "01a56e1fc2f8f359",
              # the longest %.16g texts (23 characters): negative, 16 significant digits, three-digit exponent
              "ab31482fe620c5d3", "df482344d0ed9329", "ffefffffffffffff", "800fffffffffffff", "54b693d8e89df185"]
F4_SPECIAL = ["7fc00000", "ffc00000", "7f800001", "7fc00123", "7f800000", "ff800000", "00000000", "80000000", "00000001",
              "80000001", "007fffff", "00800000", "000116c2", "3dcccccd", "3f800000", "bf800000", "7f7fffff", "ff7fffff",
              "4b7fffff", "4b800000", "3eaaaaab", "40490fdb", "501502f9", "0da24260", "7e967699",
              "80866ebc", "ff7ffffd"]                                        # the longest %.7g texts (13 characters)


def gen_f8(r):
    k = r.random()
    if k < 0.25:
        return r.choice(F8_SPECIAL)
    if k < 0.7:
        e = r.randint(-300, 300)
        m = r.choice([r.uniform(1, 10), float(r.randint(1, 9)), r.randint(1, 99999) / 1000.0, 9.999999999999998])
        x = r.choice([-1, 1]) * float("%.17ge%d" % (m, e))
    elif k < 0.8:
        x = r.choice([-1, 1]) * struct.unpack(">d", struct.pack(">Q", r.getrandbits(52) or 1))[0]     # subnormal
    else:
        x = r.choice([float(r.randint(-10 ** 6, 10 ** 6)), r.randint(-10 ** 17, 10 ** 17) / 1.0, r.gauss(0, 1), r.random(),
                      r.randint(1, 10 ** 16) / 10.0 ** r.randint(0, 30)])
    if abs(x) > 1e308:
        x = 1e300
    return struct.pack(">d", x).hex()


def gen_f4(r):
    k = r.random()
    if k < 0.25:
        return r.choice(F4_SPECIAL)
    if k < 0.7:
        e = r.randint(-37, 38)
        m = r.choice([r.uniform(1, 10), float(r.randint(1, 9)), r.randint(1, 99999) / 1000.0])
        x = r.choice([-1, 1]) * min(float("%.9ge%d" % (m, e)), 3.4e38)
        return struct.pack(">f", x).hex()
    if k < 0.8:
        return "%08x" % ((r.getrandbits(23) or 1) | (r.getrandbits(1) << 31))                          # subnormal
    x = r.choice([float(r.randint(-10 ** 6, 10 ** 6)), r.gauss(0, 1), r.random(), r.randint(1, 10 ** 7) / 10.0 ** r.randint(0, 20)])
    return struct.pack(">f", x).hex()


ALPHA = b"abXY019 _-+.e,:;|\t\x00n"
ASCII_NO_EOL = bytes(b for b in range(128) if b not in (10, 13))


def gen_str(r, w, delim):
    d = delim.encode()
    k = r.random()
    if k < 0.08:
        s = b""
    elif k < 0.16:
        s = b" " * r.randint(1, w)
    elif k < 0.30:
        s = r.choice([b" ", b"  ", b"\t", b" \t", d, d + b" "]) + bytes(r.choice(b"abc123") for _ in range(w))
    elif k < 0.40:
        s = bytes(r.choice(b"abc123") for _ in range(r.randint(0, w))) + r.choice([b" ", b"  ", b"\t", d, d + d])
    elif k < 0.50:
        s = bytes(r.choice(b"ab1") for _ in range(r.randint(0, 3))) + r.choice([b" ", b"\t", d, b" " + d + b" ", b"\x00"]) + bytes(
            r.choice(b"ab1") for _ in range(w))
    elif k < 0.60:
        s = r.choice([b"1e5", b"nan", b"inf", b"-1", b"0x1", b"12", b"+3.5", b"1,2", b".", b"-", b"infinity", b"NaN", b"1e", b"7"])
    elif k < 0.66:
        s = r.choice([d * w, b"\x0b" + b"a" * w, b"\x0c", b"a\x00b", b"\x00a", b"~!@#$%^&*()[]"])
    elif k < 0.80:
        s = bytes(r.choice(ALPHA) for _ in range(r.randint(0, w)))
    else:
        # the whole range "ASCII free of newline characters": every 7-bit code except \n and \r, control characters included
        # (\x0b \x0c \x1c-\x1e are line boundaries for str.splitlines but not for the file iterator; \x00..\x1f, \x7f)
        s = bytes(r.choice(ASCII_NO_EOL) for _ in range(r.randint(1, w)))
    s = s[:w].replace(b"\n", b"?").replace(b"\r", b"?")
    return s.ljust(w, b"\x00").hex()


def gen_el(r, t, delim):
    if t[0] == "S":
        return gen_str(r, esz(t), delim)
    if t == "f8":
        return gen_f8(r)
    if t == "f4":
        return gen_f4(r)
    return gen_int(r, t)


def py_unsafe(case):
    """generation-time mirror of Spec.kf_leading_ws_after_numeric (steering only; classification is done in Coq).
    Returns the list of (row, field) string cells that make the case a member of the class."""
    d = case["delim"].encode()
    if d == b" ":
        return []
    bad = []
    fs = case["fields"]

    def head_unsafe(ri, fi):
        if fs[fi]["t"][0] != "S":
            return False
        b = bytes.fromhex(case["rows"][ri][fi][0])[:1]
        return b in (b" ", b"\t", b"\x0b", b"\x0c", b"\n", b"\r") or b == d
    for ri in range(len(case["rows"])):
        for fi in range(len(fs)):
            if fs[fi]["t"][0] == "S":
                continue
            if fi + 1 < len(fs):
                if d in (b"\t",) and head_unsafe(ri, fi + 1):
                    bad.append((ri, fi + 1))
            elif ri + 1 < len(case["rows"]) and head_unsafe(ri + 1, 0):
                bad.append((ri + 1, 0))
    return bad


def sanitize(case):
    """move the case out of the known class by replacing the first byte of the offending cells"""
    for ri, fi in py_unsafe(case):
        els = case["rows"][ri][fi]
        els[0] = "78" + els[0][2:]
    return case


def mk_case(r, fields, nrows, delim, family, safe):
    rows = [[[gen_el(r, f["t"], delim) for _ in range(nel(f["shape"]))] for f in fields] for _ in range(nrows)]
    c = {"delim": delim, "fields": fields, "rows": rows, "family": family}
    if safe:
        sanitize(c)
    return c


def rnd_field(r, i, types=None, shapes=True):
    t = r.choice(types or (INT_T + FLT_T + ["S%d" % r.randint(1, 12)] * 4))
    shape = []
    if shapes:
        k = r.random()
        if k < 0.2:
            shape = [r.randint(1, 4)]
        elif k < 0.35:
            shape = [r.randint(1, 3), r.randint(1, 3)]
    return {"name": "f%d" % i, "t": t, "o": r.choice("<>"), "shape": shape}


def plain_str(r, w):
    """a string that is safe behind a numeric cell for every delimiter: starts with a letter"""
    body = bytes(r.choice(b"abXY019 _.-") for _ in range(r.randint(0, w - 1)))
    return (bytes([r.choice(b"abcXYZ")]) + body)[:w].ljust(w, b"\x00").hex()


def plain_rows(r, fields, nrows, int_digits=None):
    """rows whose text does not depend on the delimiter being safe; int_digits: every integer has exactly that many digits"""
    rows = []
    for _ in range(nrows):
        row = []
        for f in fields:
            els = []
            for _k in range(nel(f["shape"])):
                t = f["t"]
                if t[0] == "S":
                    els.append(plain_str(r, esz(t)))
                elif t == "f8":
                    els.append(gen_f8(r) if int_digits is None else struct.pack(">d", float(r.randint(10 ** (int_digits - 1), 10 ** int_digits - 1))).hex())
                elif t == "f4":
                    els.append(gen_f4(r))
                elif int_digits is not None:
                    lo, hi = int_range(t)
                    els.append(r.randint(max(lo, 10 ** (int_digits - 1)), min(hi, 10 ** int_digits - 1)))
                else:
                    els.append(gen_int(r, t))
            row.append(els)
        rows.append(row)
    return rows


def gen_sequences(r, q, entry):
    """the history dimension: several write/read round trips in ONE process on ONE path, arranged so that state keyed too
    coarsely (by path, by (path, size), by object identity, by field names, by record size, by first/last row) collides"""
    cs = []

    def seq(kind, steps, reuse):
        for st in steps:
            st.setdefault("family", "sequence")
        cs.append({"steps": steps, "seq": kind, "reuse": reuse, "family": "sequence:" + kind})

    def step(fields, rows, d, **kw):
        return dict({"delim": d, "fields": fields, "rows": rows}, **kw)

    reps = 1 if q else 3
    for rep in range(reps):
        for reuse in (False, True):
            # (b1) the same table rewritten on the same path with another delimiter: every file has the same byte size
            f = [{"name": "x", "t": r.choice(FLT_T), "o": r.choice("<>"), "shape": []}, {"name": "s", "t": "S4", "o": "|", "shape": []},
                 {"name": "k", "t": r.choice(INT_T), "o": r.choice("<>"), "shape": [2]}]
            rows = plain_rows(r, f, r.randint(1, 4))
            ds = r.sample(DELIMS, 4 if q else 6)
            seq("same-size-other-delim", [step(f, rows, d) for d in ds] + [step(f, rows, ds[0])], reuse)
            # (b2) same path, same size, same field names, another dtype of equal spelling length and equal text width
            nm = "id"
            rows10 = lambda t: plain_rows(r, [{"name": nm, "t": t, "o": "<", "shape": []}], 3, int_digits=10)     # noqa
            steps = []
            for t, o in (("i4", "<"), ("u4", "<"), ("i4", ">"), ("u4", ">")):
                ff = [{"name": nm, "t": t, "o": o, "shape": []}]
                rr = rows10(t)
                if t == "u4":
                    rr[0][0][0] = 3000000000 + r.randint(0, 999999)
                steps.append(step(ff, rr, ","))
            seq("same-size-other-dtype", steps, reuse)
            steps = []
            for t in r.sample(["i8", "u8", "f8"], 3):
                ff = [{"name": "v", "t": t, "o": r.choice("<>"), "shape": []}, {"name": "w", "t": "S2", "o": "|", "shape": []}]
                steps.append(step(ff, plain_rows(r, ff, 2, int_digits=7), ";"))
            seq("same-size-other-dtype", steps, reuse)
            # (b3) equal record size / equal names with other types / equal first and last rows
            fa = [{"name": "a", "t": "i4", "o": "<", "shape": []}, {"name": "b", "t": "i4", "o": "<", "shape": []}]
            fb = [{"name": "a", "t": "f8", "o": "<", "shape": []}]
            fc = [{"name": "a", "t": "S8", "o": "|", "shape": []}]
            fd = [{"name": "a", "t": "f4", "o": ">", "shape": []}, {"name": "b", "t": "u4", "o": ">", "shape": []}]
            d = r.choice(DELIMS)
            seq("same-recordsize-other-fields", [step(ff, plain_rows(r, ff, 3), d) for ff in r.sample([fa, fb, fc, fd], 4)], reuse)
            ff = [{"name": "n", "t": "i2", "o": "<", "shape": []}, {"name": "s", "t": "S3", "o": "|", "shape": []}]
            base = plain_rows(r, ff, 5)
            alt = [base[0]] + plain_rows(r, ff, 3) + [base[-1]]
            seq("same-first-last-rows", [step(ff, base, d), step(ff, alt, d), step(ff, base[:1] + base[-1:], d)], reuse)
            # (a) the same array OBJECT modified in place between the writes, then a new object with the first contents
            oo = ">" if reuse else r.choice("<>")          # non-native at least once: conversions could be memoised per object
            ff = [{"name": "i", "t": r.choice(["i2", "u2", "i4", "u4", "i8", "u8"]), "o": oo, "shape": []},
                  {"name": "x", "t": "f8", "o": oo, "shape": [2]}, {"name": "s", "t": "S5", "o": "|", "shape": []}]
            r1, r2 = plain_rows(r, ff, 3), plain_rows(r, ff, 3)
            seq("same-object-modified-in-place", [step(ff, r1, d), step(ff, r2, d, same_object=True), step(ff, r1, d, same_object=True),
                                                  step(ff, r1, d)], reuse)
            # (c) unrelated tables one after the other (through one re-opened SFile / Recfile object when reuse is set)
            steps = []
            for k in range(3 if q else 4):
                flds = [rnd_field(r, i) for i in range(r.randint(1, 4))]
                st = mk_case(r, flds, r.randint(1, 4), r.choice(DELIMS), "sequence", True)
                if r.random() < 0.3:
                    st["view"] = [r.randint(0, 1), 2]
                steps.append(st)
            seq("unrelated-tables", steps, reuse)
    return cs


def gen_cases(ctx, round, entry):
    r = ctx.rng
    cs = []
    q = ctx.quick()
    if round == 0:
        # -- integers over the full range of each type, both orders, every delimiter
        for t in INT_T:
            for o in "<>":
                for d in (DELIMS if not q else [r.choice(DELIMS)]):
                    lo, hi = int_range(t)
                    f = [{"name": "v", "t": t, "o": o, "shape": []}, {"name": "s", "t": "S3", "o": "|", "shape": []},
                         {"name": "w", "t": t, "o": o, "shape": [2]}]
                    vals = [lo, hi, 0, 1, lo + 1, hi - 1, r.randint(lo, hi), r.randint(lo, hi), r.randint(lo, hi), hi // 3]
                    rows = [[[vals[i]], [b"ab".hex() + "00"], [vals[5 + i], vals[(7 + i) % 10]]] for i in range(5)]
                    cs.append({"delim": d, "fields": f, "rows": rows, "family": "int-full-range"})
        # -- floats: decades, subnormals, specials
        for t, specials, lo_e, hi_e in (("f8", F8_SPECIAL, -300, 300), ("f4", F4_SPECIAL, -37, 38)):
            for o in "<>":
                f = [{"name": "x", "t": t, "o": o, "shape": []}, {"name": "k", "t": "i2", "o": o, "shape": []}]
                for d in (DELIMS if not q else r.sample(DELIMS, 3)):
                    for chunk in range(0, len(specials), 5):
                        cs.append({"delim": d, "fields": f, "family": "float-special",
                                   "rows": [[[h], [i]] for i, h in enumerate(specials[chunk:chunk + 5])]})
                step = 40 if q else 7
                es = list(range(lo_e, hi_e + 1, step if t == "f8" else max(1, step // 8)))
                for i in range(0, len(es), 5):
                    rows = []
                    for e in es[i:i + 5]:
                        x = r.choice([-1, 1]) * float("%.17ge%d" % (r.uniform(1, 10), e))
                        h = struct.pack(">d", x).hex() if t == "f8" else struct.pack(">f", max(min(x, 3.4e38), -3.4e38)).hex()
                        rows.append([[h], [e]])
                    cs.append({"delim": r.choice(DELIMS), "fields": f, "rows": rows, "family": "float-decades"})
        # -- strings: every width, adversarial contents, numeric neighbours on both sides
        for w in range(1, 13):
            for d in (DELIMS if not q else r.sample(DELIMS, 3)):
                for safe in ((True, False) if not q else (True,)):
                    f = [{"name": "a", "t": "S%d" % w, "o": "|", "shape": []}, {"name": "n", "t": r.choice(INT_T + FLT_T), "o": r.choice("<>"), "shape": []},
                         {"name": "b", "t": "S%d" % w, "o": "|", "shape": [2]}]
                    if r.random() < 0.5:
                        f.append({"name": "m", "t": r.choice(INT_T), "o": "<", "shape": []})
                    cs.append(mk_case(r, f, r.randint(1, 5), d, "strings" if safe else "strings-unsanitized", safe))
        # -- structure: sub-arrays, mixed byte orders, 1..5 rows
        for nrows in range(1, 6):
            for d in DELIMS:
                f = [{"name": "a", "t": "i4", "o": ">", "shape": [2, 2]}, {"name": "b", "t": "f8", "o": "<", "shape": [3]},
                     {"name": "c", "t": "S4", "o": "|", "shape": [2, 2]}, {"name": "d", "t": "u2", "o": "<", "shape": []},
                     {"name": "e", "t": "f4", "o": ">", "shape": [1, 2]}, {"name": "g", "t": "i8", "o": ">", "shape": [2]}]
                r.shuffle(f)
                cs.append(mk_case(r, f, nrows, d, "structure", True))
        # -- members of the known class (named adversarial cases)
        for d in [",", "\t", ":", "|", ";"]:
            f = [{"name": "s", "t": "S3", "o": "|", "shape": []}, {"name": "i", "t": "i4", "o": "<", "shape": []}]
            cs.append({"delim": d, "fields": f, "rows": [[[b"  a".hex()], [1]], [[b"  b".hex()], [2]]], "family": "known-class"})
            cs.append({"delim": d, "fields": f, "rows": [[[(d.encode() + b"a\x00").hex()], [1]], [[(d.encode() + b"b\x00").hex()], [2]]],
                       "family": "known-class"})
            f2 = [{"name": "i", "t": "f8", "o": "<", "shape": []}, {"name": "s", "t": "S3", "o": "|", "shape": []}]
            cs.append({"delim": d, "fields": f2, "rows": [[["3ff8000000000000"], [b" ab".hex()]], [["4000000000000000"], [b"\tcd".hex()]]],
                       "family": "known-class" if d == "\t" else "ws-after-delim"})
        # -- rows that are entirely blank (string-only tables; the row count of Recfile comes from counting lines)
        for d in DELIMS:
            for ncol in (1, 2, 3):
                w = r.randint(1, 12)
                f = [{"name": "s%d" % i, "t": "S%d" % w, "o": "|", "shape": []} for i in range(ncol)]
                blank = lambda: bytes(r.choice(b" \t" if d != "\t" else b" ") for _ in range(w)).hex()     # noqa
                word = lambda: bytes(r.choice(b"ab c") for _ in range(w)).hex()                            # noqa
                nrows = r.randint(1, 5)
                kinds = [r.random() < 0.6 for _ in range(nrows)]
                kinds[r.randrange(nrows)] = True
                cs.append({"delim": d, "fields": f, "family": "blank-rows",
                           "rows": [[[blank() if kb else word()] for _ in range(ncol)] for kb in kinds]})
        # -- the same tables handed over as strided views of a larger array (memory layout is not part of the table)
        for d in DELIMS:
            f = [{"name": "i", "t": r.choice(INT_T), "o": r.choice("<>"), "shape": []}, {"name": "s", "t": "S3", "o": "|", "shape": [2]},
                 {"name": "x", "t": r.choice(FLT_T), "o": r.choice("<>"), "shape": []}]
            c = mk_case(r, f, r.randint(2, 5), d, "strided-view", True)
            c["view"] = [r.randint(0, 2), r.randint(2, 3)]
            cs.append(c)
        # -- other array forms of the same table (reversed view, read-only, recarray, foreign read-only memory) and other
        #    spellings of the calls (argument order, header=, defaults given explicitly, SFile/Open/function wrappers,
        #    nrows= given, dtype as descr list, [:] instead of read())
        forms = [["reversed"], ["readonly"], ["recarray"], ["foreign"], ["reversed", "readonly"], ["recarray", "readonly"]]
        apis_s = [{"order": "fd"}, {"header": True}, {"defaults": True}, {"writer": "SFile"}, {"reader": "header"}, {"reader": "SFile"},
                  {"reader": "recfile_offset"}, {"reader": "recfile_offset", "header": True},
                  {"reader": "slice"}, {"order": "fd", "header": True, "defaults": True, "reader": "slice"}]
        apis_r = [{"writer": "func"}, {"writer": "Open"}, {"reader": "func"}, {"reader": "slice"}, {"nrows": True}, {"dtype": "descr"},
                  {"defaults": True}, {"writer": "func", "reader": "func", "nrows": True, "dtype": "descr", "defaults": True}]
        for i, form in enumerate(forms * (1 if q else 3)):
            f = [rnd_field(r, k) for k in range(r.randint(2, 4))]
            c = mk_case(r, f, r.randint(2, 5), DELIMS[i % len(DELIMS)], "array-forms", True)
            c["form"] = form
            cs.append(c)
        for d in DELIMS[::2] if q else DELIMS:                     # reversed views of native tables with >= 2 rows, every entry
            f = [{"name": "k", "t": r.choice(INT_T), "o": "<", "shape": []}, {"name": "s", "t": "S2", "o": "|", "shape": []}]
            c = mk_case(r, f, r.randint(2, 6), d, "array-forms", True)
            c["form"] = ["reversed"]
            cs.append(c)
        if entry == "recfile":
            for i in range(4 if q else 12):
                f = [rnd_field(r, k) for k in range(r.randint(1, 4))]
                n0 = r.randint(2, 6)
                c = mk_case(r, f, n0, DELIMS[i % len(DELIMS)], "api-forms", True)
                c["api"] = {"nrows_less": r.randint(1, n0 - 1)}
                cs.append(c)
        for i, api in enumerate((apis_s if entry == "sfile" else apis_r) * (1 if q else 3)):
            f = [rnd_field(r, k) for k in range(r.randint(2, 4))]
            c = mk_case(r, f, r.randint(1, 5), DELIMS[(i + 2) % len(DELIMS)], "api-forms", True)
            c["api"] = api
            if r.random() < 0.3:
                c["form"] = r.choice(forms)
            cs.append(c)
        # -- long tables: row counts 2^k +- 1 beyond stdio and block sizes
        for nrows in ((16385,) if q else (1025, 4095, 16385, 40001)):
            f = [{"name": "i", "t": r.choice(["i2", "u2", "i1"]), "o": r.choice("<>"), "shape": []},
                 {"name": "s", "t": "S1", "o": "|", "shape": []}]
            if nrows < 2000:
                f.append({"name": "x", "t": "f4", "o": r.choice("<>"), "shape": []})
            c = mk_case(r, f, nrows, r.choice(DELIMS), "long-rows", True)
            if nrows in (4095, 16385):
                c["view"] = [1, 2]
            cs.append(c)
        # -- control characters in strings (line boundaries of str.splitlines that are NOT line ends of a file: \x0b \x0c \x1c \x1d \x1e)
        for d in DELIMS:
            for ctl in (b"\x0b", b"\x0c", b"\x1c", b"\x1d", b"\x1e", b"\x1f", b"\x7f", b"\x01"):
                if q and r.random() < 0.6:
                    continue
                w = r.randint(2, 6)
                f = [{"name": "s", "t": "S%d" % w, "o": "|", "shape": []}, {"name": "k", "t": r.choice(INT_T), "o": "<", "shape": []}]
                rows = [[[(b"a" + ctl + bytes(r.choice(b"bc") for _ in range(w))) [:w].hex()], [gen_int(r, f[1]["t"])]] for _ in range(r.randint(1, 4))]
                cs.append({"delim": d, "fields": f, "rows": rows, "family": "control-chars"})
        # -- interaction of two (or three) call options that are each fine alone
        opts_s = [("order", "fd"), ("header", True), ("defaults", True), ("writer", "SFile"), ("reader", "header"), ("reader", "SFile"),
                  ("reader", "slice"), ("reader", "recfile_offset")]
        opts_r = [("writer", "func"), ("writer", "Open"), ("reader", "func"), ("reader", "slice"), ("nrows", True), ("dtype", "descr"),
                  ("defaults", True)]
        for i in range(8 if q else 40):
            api = {}
            for k, v in r.sample(opts_s if entry == "sfile" else opts_r, r.choice([2, 2, 3])):
                api.setdefault(k, v)
            f = [rnd_field(r, k) for k in range(r.randint(2, 4))]
            c = mk_case(r, f, r.randint(1, 5), r.choice(DELIMS), "api-pairs", True)
            c["api"] = api
            if r.random() < 0.4:
                c["form"] = r.choice(forms)
            if r.random() < 0.5:
                c["alias"] = True
            cs.append(c)
        # -- sequences (history dimension)
        seqs = gen_sequences(r, q, entry)
        for sc in seqs:                               # ownership: in half of the sequences every step also scrambles the written
            if r.random() < 0.5:                      # array after the write and the returned array before a second read
                for st in sc["steps"]:
                    if not st.get("same_object"):
                        st["alias"] = True
        cs.extend(seqs)
        # -- many rows
        for nrows in ((37,) if q else (37, 150, 1000)):
            f = [{"name": "i", "t": "i8", "o": ">", "shape": []}, {"name": "s", "t": "S2", "o": "|", "shape": []},
                 {"name": "x", "t": "f4", "o": "<", "shape": [2]}]
            cs.append(mk_case(r, f, nrows, r.choice(DELIMS), "many-rows", True))
    n = ctx.n(120, 1800) if round == 0 else ctx.n(150, 1500)
    for _ in range(n):
        nf = r.choice([1, 2, 2, 3, 3, 4, 5, 6])
        fields = [rnd_field(r, i) for i in range(nf)]
        safe = r.random() < 0.9
        c = mk_case(r, fields, r.randint(1, 5), r.choice(DELIMS), "random" if safe else "random-unsanitized", safe)
        if r.random() < 0.2:
            c["alias"] = True
        cs.append(c)
    return cs


# ----------------------------------------------------------------------------------------------
# run
# ----------------------------------------------------------------------------------------------

TXT = {1: "model != implementation (property checker accepts the implementation's output)",
       2: "property checker rejects the implementation's output (model agrees with it)",
       3: "property checker rejects the implementation's output and model != implementation"}


def run_entry(ctx, preamble, entry, cases, tag):
    """runner.run_entry with shards sized for all cores; returns [(case, impl output, verdict)]"""
    outs = [entry.impl(c) for c in cases]
    terms = [entry.term(c, o) for c, o in zip(cases, outs)]
    shard = max(10, min(120, -(-len(terms) // core.NCPU)))
    # balance the shards by term size (long tables cost seconds each): largest first, dealt out round-robin
    nsh = -(-len(terms) // shard) if terms else 1
    by_size = sorted(range(len(terms)), key=lambda i: -len(terms[i]))
    bins = [by_size[k::nsh] for k in range(nsh)]
    shard = max(len(b) for b in bins) if terms else shard
    order = []
    for b in bins:                      # coq_eval cuts consecutive slices of length `shard`: pad the bins to equal length
        order.extend(b + [None] * (shard - len(b)))
    while order and order[-1] is None:
        order.pop()
    try:
        pv = core.coq_eval(os.path.join(ctx.work, tag), preamble, [terms[i] if i is not None else "0" for i in order],
                           shard=shard, tag=tag)
    except core.CoqEvalError as e:
        ctx.violation("case file of entry %s does not evaluate in Coq" % entry.name,
                      {"kind": "case-file", "entry": entry.name, "error": str(e)[-3000:]}, found_input=False)
        return []
    vals = [None] * len(terms)
    for i, v in zip(order, pv):
        if i is not None:
            vals[i] = v
    return [(c, o, int(v.replace("%Z", "").strip("() "))) for c, o, v in zip(cases, outs, vals)]


def differential(ctx, entries, replay_case=None):
    """as runner.differential, with the verdict carrying two more bits computed in Coq:
    +4 the case is a member of Spec.kf_leading_ws_after_numeric, +8 the oracle contract H_num fails"""
    for ent in entries:
        import time
        t0 = time.time()
        ent.work = ctx.work
        if replay_case is not None:
            if replay_case.get("entry") != ent.name:
                continue
            cases = [replay_case["case"]]
        else:
            cases = corpus_cases(ctx.pid, ent.name) + list(ent.cases(ctx, 0))
        for c in cases:
            c.setdefault("entry", ent.name)
        res = run_entry(ctx, PRE, ent, cases, "d_" + ent.name)
        for c, o, v in res:
            if "steps" in c:
                ctx.case([ent.name, c], ent.nontrivial(c, o), ent.family(c), sample={"entry": ent.name, "input": c, "impl_output": o})
                ctx.count("verdict:%s:%d%s" % (ent.name, v & 3, ":known-class" if v & 4 else ""))
                ctx.count("sequence:%s:%d-steps%s" % (c.get("seq", "?"), len(c["steps"]), ":reused-object" if c.get("reuse") else ""))
                continue
            if "rows" not in c:                      # raw-read cases: text + dtype, no table
                ctx.case([ent.name, c], ent.nontrivial(c, o), ent.family(c), sample={"entry": ent.name, "input": c, "impl_output": o})
                ctx.count("verdict:%s:%d" % (ent.name, v & 3))
                ctx.count("raw_result:%s" % (o["read"][0] if o["read"][0] == "ok" else o["read"][1]))
                continue
            big = len(c["rows"]) > 50
            ctx.case([ent.name, c], ent.nontrivial(c, o), ent.family(c),
                     sample={"entry": ent.name, "input": c if not big else dict(c, rows=c["rows"][:3], rows_total=len(c["rows"])),
                             "impl_output": o if not big else "(omitted: %d rows)" % len(c["rows"])})
            ctx.count("verdict:%s:%d%s" % (ent.name, v & 3, ":known-class" if v & 4 else ""))
            ctx.count("delim:%r" % c["delim"])
            ctx.count("rows:%d" % len(c["rows"]))
            ctx.count("layout:%s" % ("strided-view" if c.get("view") else "+".join(c.get("form") or ["contiguous"])))
            for k, av in sorted((c.get("api") or {}).items()):
                ctx.count("api:%s=%s" % (k, av))
            if c.get("alias"):
                ctx.count("ownership:arrays-scrambled-after-write-and-after-read")
            for f in c["fields"]:
                ctx.count("type:%s%s" % (f["t"] if f["t"][0] != "S" else "S", "" if not f["shape"] else "[%dd]" % len(f["shape"])))
            if o.get("read", ["ok"])[0] == "err":
                ctx.count("read_error:" + o["read"][1])
        failing = [(c, o, v) for c, o, v in res if v & 3 >= 2]
        disagree = [(c, o, v) for c, o, v in res if v & 3 == 1]
        # H_num fails by construction on members of kf_float_print_overflow (bit 16): that is the recorded finding itself
        monitor = [(c, o, v) for c, o, v in res if v & 8 and not v & 16]
        ctx.obligation("contract monitor H_num (Spec.fcontract_b on FmtModel.F_model/P_model; outside kf_float_print_overflow) on %d %s cases" % (
            len(res), ent.name), not monitor)
        if monitor:
            c, o, v = min(monitor, key=lambda t: len(json.dumps(t[0], default=str)))
            ctx.violation("%s: contract monitor: the modelled printf/strtod (FmtModel.F_model/P_model with the precisions of "
                          "records.cpp) violates H_num on this table: a float does not come back to the stated number of "
                          "significant digits; theorems C04_roundtrip* assume H_num" % ent.name,
                          {"kind": "contract-monitor", "entry": ent.name, "case": c, "impl_output": o, "verdict": v,
                           "class": None}, found_input=bool(v & 2))
        # search for a failing input when the model disagrees somewhere and no failing input OUTSIDE the known class is at hand
        if disagree and not [t for t in failing if not t[2] & 4] and replay_case is None:
            for rnd in range(1, ent.search_rounds + 1):
                extra = list(ent.cases(ctx, rnd))
                for c in extra:
                    c.setdefault("entry", ent.name)
                res2 = run_entry(ctx, PRE, ent, extra, "s%d_%s" % (rnd, ent.name))
                ctx.count("search_cases:" + ent.name, len(res2))
                more = [(c, o, v) for c, o, v in res2 if v & 3 >= 2]
                failing = failing + more
                if [t for t in more if not t[2] & 4]:
                    break
        by_class = {}
        # one representative per class: a corpus case (witness of a repaired / recorded defect) if one fails, else the smallest
        for c, o, v in sorted(failing, key=lambda t: (not str(t[0].get("family", "")).startswith("corpus"),
                                                      len(json.dumps(t[0], default=str)))):
            by_class.setdefault(ent.classify(c, o, v), (c, o, v))
        for k, (cls, (c, o, v)) in enumerate(sorted(by_class.items(), key=lambda kv: str(kv[0]))):
            shown = core.coq_show(ctx.work, PRE, ent.show(c)) if k < 3 else None
            ctx.violation("%s: %s%s" % (ent.name, TXT[v & 3], " [class %s]" % cls if cls else ""),
                          {"kind": "failing-input", "entry": ent.name, "case": c, "impl_output": o, "verdict": v & 3,
                           "model_output": shown, "class": cls}, found_input=True)
        dis_out = [t for t in disagree if not t[2] & 4] or (disagree if not failing else [])
        if dis_out and not [t for t in failing if not t[2] & 4]:
            c, o, v = min(dis_out, key=lambda t: len(json.dumps(t[0], default=str)))
            cls = ent.classify(c, o, v)
            ctx.violation("%s: correspondence model<->implementation broken on %d case(s); the property checker accepted "
                          "every implementation output explored outside the known class" % (ent.name, len(dis_out)),
                          {"kind": "correspondence", "entry": ent.name, "case": c, "impl_output": o, "verdict": v & 3,
                           "model_output": core.coq_show(ctx.work, PRE, ent.show(c)), "class": cls,
                           "no_longer_checks": "correspondence %s.%s (model = implementation)" % (ctx.pid, ent.name)},
                          found_input=False)
        ctx.count("wall_s:" + ent.name, round(time.time() - t0, 1))


ENTRIES = [SFileRT(), RecfileRT(), RawReadRT()]

TRUSTED = [
    "Coq 8.16.1 kernel (coqc, vm_compute; no native_compute); all C04 theorems are closed under the global context (no axioms)",
    "hand-written model C04/TextModel.v of records.cpp (WriteRows/WriteField/WriteStringAsAscii/WriteNumberAsAscii, "
    "read_text_columns/scan_column_values/read_ascii_bytes/skip_text_rows, make_scan_formats), recfile/Util.py "
    "(Recfile.write/to_native, remove_dtype_byteorder, _count_nrows) and sfile.py (_make_header/_remove_byteorder); "
    "tied to the working tree by the correspondence run on every check (file text, stored header, array read back)",
    "modelled, not verified: glibc vfscanf (white-space directive, literal directive, one byte of push-back, the numeric token "
    "automaton incl. inf/nan/hex floats), fgetc/EOF through a signed char, fprintf of integers (decimal printer dec, proved "
    "inverse to the scanner), numpy's memory layout of packed structured dtypes, astype/byteswap, dtype.descr, pprint/eval of the header",
    "modelled in C04/FmtModel.v and compared with glibc on every floating-point cell of every case: printf('%.16g'/'%.7g') (exact "
    "decimal expansion, round-half-even, %g style selection, zero stripping) and strtod/strtof (exact, round-half-even, "
    "subnormals, overflow); the theorems assume about them only the contract H_num (token well-formed; value comes back to "
    "16/7 significant digits; NaN->NaN, +-inf->+-inf), which is evaluated in Coq on every case (contract monitor), not proved for all floats",
    "print precisions read out of records.cpp on every run (harness/props/c04_translate.py -> C04/Gen.v, fail-closed); the scan "
    "conversions and the ' '+delim suffix rule are compared with what the hand model implements",
    "python harness (harness/props/C04.py): builds the arrays from raw memory bytes, slices results per element, canonicalises NaNs, "
    "literal printers; coqc evaluating Exec.v verdict terms",
]


def translate_step(ctx):
    """regenerate Gen.v from the sources of the tree under check.  A part outside the translator's subset keeps the constants
    of the committed hand model and is reported (tie broken); nothing here gates the correspondence run."""
    c, changed, problems = c04_translate.regenerate(ctx.impl, core.COQDIR)
    ctx.obligation("Gen.v regenerated from records.cpp / Util.py / sfile.py (print %%.%dg / %%.%dg, scan %%%s / %%%s, suffix %r+delim, "
                   "ws-mode %s, delimiters %s / %s, terminator %s, extra fgetc %s, strip [%d:] [%d:], count += %d)%s" % (
                       c["p4"], c["p8"], c["s4"], c["s8"], c["suffix_char"], c["ws_mode"], c["elem_delim"], c["field_delim"], c["row_term"],
                       c["extra_getc"], c["strip_recfile"], c["strip_sfile"], c["count_inc"], " [changed]" if changed else ""), not problems,
                   "; ".join(problems))
    for msg in problems:
        ctx.violation("translation of the text paths failed (tie broken; the check continues with the committed hand model): %s" % msg,
                      {"kind": "translation", "error": msg,
                       "no_longer_checks": "tie of C04/Gen.v to esutil/recfile/records.cpp, esutil/recfile/Util.py, esutil/sfile.py "
                                           "(theorems C04_roundtrip_fmt_model, C04_source_*)"}, found_input=False)


def tie_step(ctx):
    """the tie lemmas Gen.<x> = <what the hand model uses>, one obligation each, compiled against the Gen.v of this run"""
    res = core.coq_lemmas(os.path.join(ctx.work, "tie"), c04_translate.TIE_PREAMBLE,
                          [(st, pr) for _, st, pr in c04_translate.TIE_LEMMAS], shard=len(c04_translate.TIE_LEMMAS), tag="tie")
    bad = []
    for (name, st, _), (ok, msg) in zip(c04_translate.TIE_LEMMAS, res):
        ctx.obligation("tie lemma %s: %s" % (name, st), ok, msg[-300:])
        if not ok:
            bad.append((name, st, msg[-600:]))
    if bad:
        ctx.violation("the source no longer is what the hand model implements: tie lemma(s) %s fail (Gen.v was regenerated from the "
                      "source; the check continues with the hand model)" % ", ".join(n for n, _, _ in bad),
                      {"kind": "tie", "failed": [[n, st, m] for n, st, m in bad],
                       "gen": open(os.path.join(core.COQDIR, "theories", "C04", "Gen.v")).read()[-1500:],
                       "no_longer_checks": "TieProofs.write_rows_is_source_loop / read_field_extra_getc / header_strip applied to the source"},
                      found_input=False)


def run(ctx, replay=None):
    ctx.rule = ("corpus + adversarial families of the quantifier (integers over each type's full range, float decades 1e-300..1e300 / "
                "1e-37..1e38, subnormals, NaN, +-inf, +-0, strings: empty, leading/embedded/trailing blanks and tabs, delimiter "
                "characters, all-NUL, numeric look-alikes; sub-arrays 1-d/2-d; both byte orders incl. mixed; 1..5 rows; delim in "
                "{',', ':', tab, ' ', ';', '|'}) + seeded random tables; every case is written and read back by the real esutil through "
                "sfile and through Recfile and evaluated in Coq (model text = file text? model header = stored header? model array = "
                "array read back? verified checker on the implementation's output).  non-trivial: >= 2 fields of different kinds, "
                ">= 2 rows, at least one value that is not a small non-negative integer.  distinct by canonical JSON.")
    ctx.trusted = TRUSTED
    # case files of long tables are large list literals: give coqc (child processes) all the stack the system allows
    try:
        import resource
        soft, hard = resource.getrlimit(resource.RLIMIT_STACK)
        resource.setrlimit(resource.RLIMIT_STACK, (hard, hard))
    except Exception:  # noqa
        pass
    translate_step(ctx)
    core.proof_step(ctx, "C04", core.ALLOW_DISCRETE, extra_targets=["theories/C04/TieProofs.vo"])
    if replay is None:
        tie_step(ctx)
    differential(ctx, ENTRIES, replay)

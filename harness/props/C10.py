"""C10 -- WCS pixel-to-sky matches the FITS convention and sky-to-pixel inverts it (DESIGN.md 7, C10).

Per-run obligations on the REAL esutil.wcsutil.WCS (scratch build of the tree under check):

  * Gen.v (module-level tables _scamp_map, _scamp_skip, _ap, DEFTOL ...) is regenerated from the
    source by c10_translate (fail-closed); the theorems of C10/Properties.v are rebuilt against it.
  * forward certificates (generated lemmas closed by Interval): every sampled image2sky output is
    within 1e-9 degree ON THE SKY of the FITS reference direction Spec.fits_pix2sky_vec of the
    exact binary64 inputs (header, pixel) -- which theorem C10_forward_matches_fits proves equal
    to the model of the code -- for distort=True and (plain tangent-plane reading) distort=False;
    the reference pixel maps to CRVAL; get_jacobian equals the model's central-difference formula
    on the implementation's own image2sky values.
  * exact-rational checks (differential runner, Exec.v verdicts, vm_compute over Q): longitude in
    [0,360), latitude in [-90,90]; sky2image(image2sky(p)) within 1e-6 px of p with root finding
    (and without it on undistorted chains), within 30 x (rms residual over the whole image of the documented inverse fit re-done by the harness
    on the image rectangle) + 1e-6 px without root finding; scalar calls = array calls (1e-9 degree on the sky, 1e-6 px,
    3.6e-6 arcsec/px for the jacobian: numpy's array and scalar power differ in the last bits); every operation
    of a random call history returns bit for bit what a fresh object returns; numpy.linalg.inv
    contract (cdinv . cd = 1 to 1e-9).
"""
import json
import math
import os
import time
import warnings

from .. import core
from ..core import cR, cQ
from ..runner import Entry, differential, corpus_cases
from . import c10_gen as g
from . import c10_translate

PRE_Q = ("From Coq Require Import QArith List.\nFrom EsVerif.Common Require Import Base.\n"
         "From EsVerif.C10 Require Import Exec.\nImport ListNotations.\nOpen Scope Q_scope.\n")
PRE_CTOR = ("From Coq Require Import QArith List String.\nFrom EsVerif.Common Require Import Base.\n"
            "From EsVerif.C10 Require Import Construct Exec.\nImport ListNotations.\n")
PRE_CERT = ("From Coq Require Import Reals List.\nFrom Interval Require Import Tactic.\n"
            "From EsVerif.C10 Require Import Gen Model Spec Lonpole Exec.\nImport ListNotations.\nOpen Scope R_scope.\n")

TOL_SKY = "(1 / 1000000000)"          # 1e-9 degree (statement)
TOL_PX = 1e-6                           # pixel (statement)
FIT_K = 30                              # find=False: FIT_K * rms(fit on its own grid) + TOL_PX
TOL_JAC = "(1 / 1000000000)"          # relative, correspondence of get_jacobian with the model formula
TOL_CDINV = 1e-9
XTOL_STATEMENT = 1e-8                   # "1e-6 pixel with root finding" is demanded for xtol <= the default 1e-8 (incl. 0.0)
TOL_SKY_F = 1e-9                        # degree
TOL_JAC_SAME = 3.6e-6                   # arcsec/px: 3600 * (2 * 1e-9 degree) / (2 * step), step = 1

warnings.simplefilter("ignore")


def _wcsutil():
    from esutil import wcsutil
    return wcsutil


def mk(h):
    return _wcsutil().WCS(dict(h))


def has_dist(h):
    return g.header_kind(h) != "tan"


# ----------------------------------------------------------------------------
# Coq printers
# ----------------------------------------------------------------------------

def cnat(n):
    return "%d%%nat" % int(n)


def chdr(h):
    """the header as a literal of Model.header (exact binary64 values)"""
    proj = {"TAN": "PTan", "TPV": "PTpv", "TAN-SIP": "PSip"}[h["ctype1"][5:]]

    def pv(ax):
        ks = sorted(int(k.split("_")[1]) for k in h if k.startswith("pv%d_" % ax))
        return "[" + "; ".join("(%s, %s)" % (cnat(k), cR(float(h["pv%d_%d" % (ax, k)]))) for k in ks) + "]"

    def sip(pre):
        ks = sorted(tuple(int(t) for t in k.split("_")[1:]) for k in h
                    if k.startswith(pre + "_") and not k.endswith("order"))
        return "[" + "; ".join("((%s, %s), %s)" % (cnat(p), cnat(q), cR(float(h["%s_%d_%d" % (pre, p, q)])))
                               for p, q in ks) + "]"

    def f(k):
        return cR(float(h[k]))
    return ("{| h_proj := %s; h_crpix1 := %s; h_crpix2 := %s; h_crval1 := %s; h_crval2 := %s; "
            "h_cd11 := %s; h_cd12 := %s; h_cd21 := %s; h_cd22 := %s; h_naxis1 := %s; h_naxis2 := %s; "
            "h_longpole := %s; h_pv1 := %s; h_pv2 := %s; h_a_order := %s; h_b_order := %s; "
            "h_sipa := %s; h_sipb := %s; h_inv_a := []; h_inv_b := [] |}") % (
        proj, f("crpix1"), f("crpix2"), f("crval1"), f("crval2"), f("cd1_1"), f("cd1_2"), f("cd2_1"), f("cd2_2"),
        f("naxis1"), f("naxis2"), cR(float(h.get("longpole", 180.0))), pv(1), pv(2),
        cnat(h.get("a_order", 0)), cnat(h.get("b_order", 0)), sip("a"), sip("b"))


def finite(xs):
    return all(isinstance(x, float) and math.isfinite(x) for x in xs)


def cqlist(xs):
    return "[" + "; ".join(cQ(x) for x in xs) + "]"


FAIL = "(v_of false)"


def flat(v):
    """scalar / numpy array / tuple of those -> flat list of python floats"""
    import numpy as np
    if isinstance(v, (tuple, list)):
        out = []
        for e in v:
            out.extend(flat(e))
        return out
    return [float(t) for t in np.asarray(v, dtype="f8").ravel()]


def guarded(f):
    def w(self, c):
        try:
            return f(self, c)
        except Exception as e:          # noqa
            return {"err": core.errclass(e), "msg": "%s: %s" % (type(e).__name__, str(e)[:200])}
    return w


# ----------------------------------------------------------------------------
# case generation shared by the entries
# ----------------------------------------------------------------------------

def header_plan(ctx, n, tag):
    """n headers: kinds x CRVAL families x CRPIX placement, balanced round-robin, shuffled"""
    r = ctx.rng
    combos = [(k, cf, cp) for k in g.KINDS for cf in g.CRVAL_FAMILIES for cp in ("inside", "outside")]
    r.shuffle(combos)
    out = []
    i = 0
    while len(out) < n:
        k, cf, cp = combos[i % len(combos)]
        i += 1
        h = g.gen_header(r, k, cf, cp)
        out.append((h, "%s/%s/%s" % (k, cf, cp)))
    return out


def seam_case(r, npts):
    """a header whose reference pixel lies inside the image on the RA = 0 meridian, and positions within
    half a pixel of it"""
    kind = r.choice(g.KINDS)
    h = g.gen_header(r, kind, "seam0", "inside")
    pts = [[h["crpix1"] + r.uniform(-0.4, 0.4), h["crpix2"] + r.uniform(-0.4, 0.4)] for _ in range(npts)]
    return h, "%s/seam0-straddle/inside" % kind, pts


class Base(Entry):
    def family(self, c):
        return self.name + ":" + c.get("family", "?").split("/")[0]

    def classify(self, c, out, v):
        return None

    def nontrivial(self, c, out):
        return "err" not in out


class Forward(Base):
    """image2sky: range of the outputs (exact); the outputs feed the certificates"""
    name = "forward"

    def __init__(self):
        self.results = []

    def cases(self, ctx, round=0):
        out = []
        n = ctx.n(40, 400) if round == 0 else 20
        for h, fam in header_plan(ctx, n, "fw"):
            pts = g.gen_points(ctx.rng, h, ctx.n(9, 14))
            out.append({"header": h, "pts": pts, "distort": True, "arr": ctx.rng.random() < 0.3, "family": fam})
            if ctx.rng.random() < 0.5:
                out.append({"header": h, "pts": g.gen_points(ctx.rng, h, 4, special=False), "distort": False,
                            "arr": False, "family": fam})
            # the reference pixel, wherever it is
            out.append({"header": h, "pts": [[h["crpix1"], h["crpix2"]]], "distort": True, "arr": False,
                        "family": fam, "crpix": True})
        for _ in range(ctx.n(6, 40) if round == 0 else 4):
            h, fam, pts = g.gen_special(ctx.rng)
            out.append({"header": h, "pts": pts, "distort": True, "arr": ctx.rng.random() < 0.5, "family": fam})
        # LONPOLE other than 180 (header key): the Euler-rotation reference of theorem C10_forward_matches_fits_any_lonpole
        for i in range(ctx.n(6, 40) if round == 0 else 4):
            h = g.gen_header(ctx.rng, ["tan", "tpv", "sip"][i % 3], ctx.rng.choice(g.CRVAL_FAMILIES), "inside")
            h["longpole"] = [0.0, 90.0, 270.0, 123.456, 179.0, -90.0][i % 6]
            fam = "%s/lonpole%g/inside" % (["tan", "tpv", "sip"][i % 3], h["longpole"])
            out.append({"header": h, "pts": g.gen_points(ctx.rng, h, 5, special=False), "distort": True, "arr": i % 2 == 0, "family": fam})
            out.append({"header": h, "pts": [[h["crpix1"], h["crpix2"]]], "distort": True, "arr": False, "family": fam, "crpix": True})
        # optional cards given explicitly at falsy values (0, 0.0, -0.0) where the default of a missing card is not zero
        for i in range(ctx.n(5, 40) if round == 0 else 5):
            h, fam, pts = g.gen_falsy(ctx.rng, i + ctx.rng.randrange(15))
            out.append({"header": h, "pts": pts, "distort": True, "arr": i % 2 == 0, "family": fam})
        # reference point on the RA = 0 seam written as 0.0 or 360.0, axis-aligned CD matrix, pixels exactly on
        # the meridian through the reference pixel: through the array AND the scalar code
        for _ in range(ctx.n(8, 60) if round == 0 else 6):
            h, fam, pts = g.gen_seam_meridian(ctx.rng)
            for arr in (True, False):
                out.append({"header": h, "pts": pts, "distort": True, "arr": arr, "family": fam})
        return out

    @guarded
    def impl(self, c):
        import numpy as np
        w = mk(c["header"])
        if c.get("arr"):
            x = np.array([p[0] for p in c["pts"]])
            y = np.array([p[1] for p in c["pts"]])
            lon, lat = w.image2sky(x, y, distort=c["distort"])
            ll = [[float(a), float(b)] for a, b in zip(lon, lat)]
        else:
            ll = []
            for x, y in c["pts"]:
                lon, lat = w.image2sky(x, y, distort=c["distort"])
                ll.append([float(lon), float(lat)])
        return {"ll": ll}

    def term(self, c, out):
        if "err" in out or len(out["ll"]) != len(c["pts"]) or not all(finite(p) for p in out["ll"]):
            return FAIL
        self.results.append((c, out))
        return "v_range [%s]" % "; ".join("(%s, %s)" % (cQ(a), cQ(b)) for a, b in out["ll"])


class RoundTrip(Base):
    """sky2image(image2sky(p)) = p"""
    name = "roundtrip"

    def cases(self, ctx, round=0):
        out = []
        n = ctx.n(36, 500) if round == 0 else 20
        for h, fam in header_plan(ctx, n, "rt"):
            mode = ctx.rng.choice(["find", "find", "fit", "nodistort", "find-dflag"]) if has_dist(h) else \
                ctx.rng.choice(["find", "fit", "nodistort"])
            pts = g.gen_points(ctx.rng, h, ctx.n(10, 16))
            out.append({"header": h, "pts": pts, "mode": mode, "family": fam})
        # root finding with non-default xtol: tighter than the default down to 0.0 (1e-6 px demanded), looser (MINPACK's
        # relative-error contract demanded)
        kinds_d = ["tpv", "sip", "tan-pv", "sip-noinv", "tpv-sparse", "sip-bonly", "tan"]
        for i in range(ctx.n(20, 150) if round == 0 else 10):
            kind = kinds_d[i % len(kinds_d)]
            h = g.gen_header(ctx.rng, kind, ctx.rng.choice(g.CRVAL_FAMILIES), ctx.rng.choice(["inside", "inside", "outside"]))
            xtol = g.XTOLS[i % len(g.XTOLS)]
            out.append({"header": h, "pts": g.gen_points(ctx.rng, h, ctx.n(20, 24)), "mode": "find", "xtol": xtol,
                        "family": "%s/find-xtol-%g/x" % (kind, xtol)})
        # LONPOLE other than 180: the inverse theorems hold for every LONPOLE
        for i in range(ctx.n(6, 40) if round == 0 else 4):
            h = g.gen_header(ctx.rng, ["tpv", "sip", "tan"][i % 3], ctx.rng.choice(g.CRVAL_FAMILIES), "inside")
            h["longpole"] = [0.0, 90.0, 270.0, 123.456, 179.0, -90.0][i % 6]
            out.append({"header": h, "pts": g.gen_points(ctx.rng, h, 10), "mode": ["find", "fit", "nodistort"][(i // 3) % 3],
                        "family": "%s/lonpole%g/inside" % (["tpv", "sip", "tan"][i % 3], h["longpole"])})
        # optional cards explicitly at falsy values where the code's default is not zero
        for i in range(ctx.n(5, 40) if round == 0 else 4):
            h, fam, pts = g.gen_falsy(ctx.rng, i + ctx.rng.randrange(15))
            out.append({"header": h, "pts": pts, "mode": ["find", "fit", "nodistort"][i % 3], "family": fam})
        # exact special values (CRVAL 0.0 / -0.0, CRPIX 0.0, pixel 0.0, neutral coefficient sets)
        for i in range(ctx.n(6, 40) if round == 0 else 4):
            h, fam, pts = g.gen_special(ctx.rng)
            pts = [p for p in pts if p != [h["crpix1"], h["crpix2"]] or True]
            out.append({"header": h, "pts": pts, "mode": ["find", "fit", "nodistort"][i % 3], "family": fam})
        # find=False on portrait and landscape images, TPV and SIP inverse fits, positions over the whole image
        kinds = ["tpv", "sip", "tan-pv", "sip-noinv", "tpv-sparse", "sip-bonly"]
        for i in range(ctx.n(12, 96) if round == 0 else 12):
            kind = kinds[i % len(kinds)]
            nax = g.NAX_NONSQUARE[(i // 2) % len(g.NAX_NONSQUARE)] if i % 2 else ctx.rng.choice([(2048, 4096), (1024, 4096), (300, 512)])
            h = g.gen_header(ctx.rng, kind, ctx.rng.choice(g.CRVAL_FAMILIES), ctx.rng.choice(["inside", "inside", "outside"]), nax=nax)
            out.append({"header": h, "pts": g.gen_points(ctx.rng, h, ctx.n(14, 20)), "mode": "fit",
                        "family": "%s/nonsquare-%dx%d/fit" % (kind, nax[0], nax[1])})
        return out

    @guarded
    def impl(self, c):
        h, mode = c["header"], c["mode"]
        w = mk(h)
        fdist = mode != "nodistort"
        kw = {"find": dict(find=True, distort=True), "fit": dict(find=False, distort=True),
              "find-dflag": dict(find=True, distort=False),      # root finding inverts the full transform whatever `distort`
              "nodistort": dict(find=False, distort=False)}[mode]
        if c.get("xtol") is not None:
            kw = dict(kw, xtol=c["xtol"])
        pairs = []
        for x, y in c["pts"]:
            lon, lat = w.image2sky(x, y, distort=fdist)
            xb, yb = w.sky2image(lon, lat, **kw)
            pairs.append([x, y, float(xb), float(yb)])
        rms = None
        if mode == "fit" and has_dist(h):
            # yardstick "fitted-polynomial accuracy ... over the whole image": the documented fit (normal equations,
            # one order above the forward polynomial, (2 (order + 2) 5)^2 grid) re-done by the harness on the image
            # rectangle [1,NAXIS1] x [1,NAXIS2]; its rms residual over the image, in pixels (c10_gen.reference_inverse,
            # fit_rms = the quantity of theorem C10_fit_roundtrip).  Independent of the coefficients the object holds.
            rms = g.ref_fit_yardstick(h, w=mk(h))
        return {"pairs": pairs, "rms": rms}

    def term(self, c, out):
        if "err" in out or not all(finite(p) for p in out["pairs"]):
            return FAIL
        l = "[%s]" % "; ".join("((%s, %s), (%s, %s))" % tuple(cQ(t) for t in p) for p in out["pairs"])
        if out["rms"] is not None:
            if not math.isfinite(out["rms"]):
                return FAIL
            return "v_roundtrip_fit %s %s %s %s" % (l, cQ(float(FIT_K)), cQ(out["rms"]), cQ(TOL_PX))
        xtol = c.get("xtol")
        if xtol is not None and xtol > XTOL_STATEMENT:
            # looser than the default: the statement's 1e-6 px cannot be demanded; MINPACK's own contract (relative
            # error of the iterate at most xtol) is: error <= xtol * max(|x|, |y|, 1)
            nrm = max([1.0] + [max(abs(p[0]), abs(p[1])) for p in out["pairs"]])
            return "v_roundtrip %s %s" % (l, cQ(max(TOL_PX, xtol * nrm)))
        return "v_roundtrip %s %s" % (l, cQ(TOL_PX))

    def classify(self, c, out, v):
        return classify_roundtrip(c, out)


KF_ROOT_START = "C10.rootfinder-start-coordinate-near-zero"


def classify_roundtrip(c, out):
    """known-finding class of a failing round trip: root finding (any xtol) returned essentially its START value
    (the undistorted inverse) for every failing position, and that start value has a coordinate with 0 < |c| < 0.1 px
    (MINPACK's forward-difference step 1.5e-8 * |c| is then below the round-off of the residual, the estimated Jacobian
    column vanishes and hybrd stops at once with ier = 1).  Decided from the case and the real code's own values."""
    if "err" in out or c.get("mode") not in ("find", "find-dflag") or out.get("rms") is not None:
        return None
    tol = TOL_PX
    if c.get("xtol") is not None and c["xtol"] > XTOL_STATEMENT:
        tol = max(TOL_PX, c["xtol"] * max([1.0] + [max(abs(p[0]), abs(p[1])) for p in out["pairs"]]))
    bad = [p for p in out["pairs"] if math.hypot(p[2] - p[0], p[3] - p[1]) >= tol]      # exactly the points the checker rejects
    if not bad:
        return None
    try:
        w = mk(c["header"])
        for x, y, xb, yb in bad:
            lon, lat = w.image2sky(x, y)
            gx, gy = [float(t) for t in w.sky2image(lon, lat, find=False, distort=False)]
            if math.hypot(xb - gx, yb - gy) > 1e-3 or not (0.0 < min(abs(gx), abs(gy)) < 0.1):
                return None
    except Exception:       # noqa
        return None
    return KF_ROOT_START


class ScalarArray(Base):
    """scalar calls and one array call give identical numbers"""
    name = "scalar_array"
    identical = 0

    def cases(self, ctx, round=0):
        out = []
        n = ctx.n(30, 300) if round == 0 else 20
        for h, fam in header_plan(ctx, n, "sa"):
            op = ctx.rng.choice(["i2s", "s2i", "s2i", "jac"])
            out.append({"header": h, "pts": g.gen_points(ctx.rng, h, ctx.rng.choice([1, 3, 6]), special=False),
                        "op": op, "distort": ctx.rng.random() < 0.7, "find": ctx.rng.random() < 0.5, "family": fam})
        for _ in range(ctx.n(6, 40) if round == 0 else 4):
            h, fam, pts = g.gen_seam_meridian(ctx.rng)
            out.append({"header": h, "pts": pts, "op": "i2s", "distort": True, "find": False, "family": fam})
        # jacobians whose +-step positions straddle the RA = 0 seam (both branches of wrap_ra_diff, scalar and array code)
        for _ in range(ctx.n(8, 60) if round == 0 else 6):
            h, fam, pts = seam_case(ctx.rng, ctx.rng.choice([1, 3]))
            out.append({"header": h, "pts": pts, "op": "jac", "distort": ctx.rng.random() < 0.7, "find": False, "family": fam})
        return out

    @staticmethod
    def call(w, op, a, b, c):
        if op == "i2s":
            return w.image2sky(a, b, distort=c["distort"])
        if op == "s2i":
            return w.sky2image(a, b, distort=c["distort"], find=c["find"])
        return w.get_jacobian(a, b, distort=c["distort"])

    @guarded
    def impl(self, c):
        import numpy as np
        h = c["header"]
        pts = c["pts"]
        if c["op"] == "s2i":
            w0 = mk(h)
            pts = [[float(t) for t in w0.image2sky(p[0], p[1])] for p in pts]
        ws, wa = mk(h), mk(h)
        sc = [flat(self.call(ws, c["op"], p[0], p[1], c)) for p in pts]
        ar = self.call(wa, c["op"], np.array([p[0] for p in pts]), np.array([p[1] for p in pts]), c)
        ar = [flat(t) for t in ar]
        k = len(ar)
        return {"scalar": [[s[j] for s in sc] for j in range(k)], "array": ar, "inputs": pts}

    def term(self, c, out):
        if "err" in out:
            return FAIL
        a = [t for col in out["scalar"] for t in col]
        b = [t for col in out["array"] for t in col]
        if not (finite(a) and finite(b)) or len(a) != len(b):
            return FAIL
        if a == b:
            self.identical += 1
        # numpy evaluates x ** k differently for arrays and scalars: the two call forms agree to rounding,
        # not bit for bit; "the same" is checked to the accuracies the statement names
        if c["op"] == "i2s":
            pr = lambda cols: "[%s]" % "; ".join("(%s, %s)" % (cQ(l), cQ(t)) for l, t in zip(cols[0], cols[1]))   # noqa
            return "v_sky_same %s %s %s" % (pr(out["scalar"]), pr(out["array"]), cQ(TOL_SKY_F))
        if c["op"] == "s2i":
            return "v_close_abs %s %s %s" % (cqlist(a), cqlist(b), cQ(TOL_PX))
        return "v_close_abs %s %s %s" % (cqlist(a), cqlist(b), cQ(TOL_JAC_SAME))


# ----------------------------------------------------------------------------
# input forms (header forms, pixel / sky argument forms, keywords given explicitly as their defaults)
# ----------------------------------------------------------------------------

class IterHeader:
    """fitsio-like: iteration over the keys (one of them None, as for blank cards) and item access"""

    def __init__(self, d):
        self.d = d

    def __iter__(self):
        return iter([None] + list(self.d.keys()))

    def __getitem__(self, k):
        return self.d[k]


class ItemsHeader:
    """pyfits-like: only an items() method"""

    def __init__(self, d):
        self.d = d

    def items(self):
        return [(None, 1)] + list(self.d.items())


def _record(d):
    import numpy as np
    dt = [(k, "U24" if isinstance(v, str) else ("i8" if isinstance(v, int) else "f8")) for k, v in d.items()]
    a = np.zeros(1, dtype=dt)
    for k, v in d.items():
        a[k] = v
    return a


HFORMS = ["dict", "iter-lower", "iter-upper", "items-upper", "rec1-upper", "rec-void", "recarray", "np64-values",
          "znaxis-only", "znaxis-wins", "angle-keys", "angle-kwargs", "latpole0", "ctype-lower-padded-nocunit", "int-crpix-crval"]


def f4_header_enabled():
    """header values as numpy float32 scalars / f4 record fields: generated once the repair fixes/C10/0006 is recorded
    (its witness corpus/C10/fixed-float32-header.json exists); until then the family is pending, see the report"""
    return os.path.exists(os.path.join(core.VERIF, "corpus", "C10", "fixed-float32-header.json"))


def f4_round(h):
    import numpy as np
    return {k: (float(np.float32(v)) if isinstance(v, float) else v) for k, v in h.items()}


def build(h, hform):
    """the WCS object of base header h (lower-case dict of python floats / ints / str) given in form hform; every
    form denotes the same header values"""
    import numpy as np
    W = _wcsutil().WCS
    up = {k.upper(): v for k, v in h.items()}
    if hform == "dict":
        return W(dict(h))
    if hform == "iter-lower":
        return W(IterHeader(dict(h)))
    if hform == "iter-upper":
        return W(IterHeader(up))
    if hform == "items-upper":
        return W(ItemsHeader(up))
    if hform == "rec1-upper":
        return W(_record(up))
    if hform == "rec-void":
        return W(_record(up)[0])
    if hform == "recarray":
        return W(_record(h).view(np.recarray))
    if hform == "np64-values":
        return W({k: (np.float64(v) if isinstance(v, float) else v) for k, v in h.items()})
    if hform == "f4-values":            # the same values held as numpy float32 scalars
        return W({k: (np.float32(v) if isinstance(v, float) else v) for k, v in h.items()})
    if hform == "rec1-f4":              # ... or in float32 fields of a record array
        dt = [(k, "U24" if isinstance(v, str) else ("i8" if isinstance(v, int) else "f4")) for k, v in h.items()]
        a = np.zeros(1, dtype=dt)
        for k, v in h.items():
            a[k] = v
        return W(a)
    if hform == "znaxis-only":
        d = {k: v for k, v in h.items() if not k.startswith("naxis")}
        d.update(znaxis1=h["naxis1"], znaxis2=h["naxis2"])
        return W(d)
    if hform == "znaxis-wins":          # compressed image: NAXIS* describe the binary table, ZNAXIS* the image
        d = dict(h, znaxis1=h["naxis1"], znaxis2=h["naxis2"])
        d["naxis1"], d["naxis2"] = 8, 17
        return W(d)
    if hform == "angle-keys":
        return W(dict(h, longpole=180.0, latpole=90.0, theta0=90.0))
    if hform == "angle-kwargs":
        return W(dict(h), longpole=180.0, latpole=90.0, theta0=90.0)
    if hform == "latpole0":             # LATPOLE is irrelevant for a zenithal projection (theta0 = 90)
        return W(dict(h, longpole=180, latpole=0.0))
    if hform == "ctype-lower-padded-nocunit":
        d = {k: v for k, v in h.items() if not k.startswith("cunit")}
        d["ctype1"] = h["ctype1"].lower() + "  "
        d["ctype2"] = h["ctype2"].lower() + "  "
        return W(d)
    if hform == "int-crpix-crval":      # integer-valued cards parsed as python ints
        d = dict(h)
        for k in ("crpix1", "crpix2", "crval1", "crval2"):
            if float(h[k]) == int(h[k]):
                d[k] = int(h[k])
        return W(d)
    raise ValueError(hform)


PFORMS = {
    "i2s": ["pyfloat", "np64-scalar", "pyint", "npint-scalar", "f4-scalar", "0d", "list", "tuple", "len1", "i4-arr", "i8-arr",
            "u2-arr", "f4-arr", "bigendian", "strided", "reversed", "readonly", "long4097", "long65537", "empty", "kw-explicit"],
    "s2i": ["pyfloat", "np64-scalar", "len1", "f8-arr", "bigendian", "strided", "reversed", "readonly", "long", "empty",
            "kw-explicit"],
    "jac": ["pyfloat", "pyint", "i8-arr", "f8-arr", "bigendian", "strided", "readonly", "len1", "kw-explicit"],
}


def shape_args(pform, xs, ys):
    """-> (a, b, scalar: bool) the two positional arguments in the requested form (values unchanged)"""
    import numpy as np
    if pform in ("pyfloat", "kw-explicit") and len(xs) == 1:
        return float(xs[0]), float(ys[0]), True
    if pform == "np64-scalar":
        return np.float64(xs[0]), np.float64(ys[0]), True
    if pform == "pyint":
        return int(xs[0]), int(ys[0]), True
    if pform == "npint-scalar":
        return np.int64(int(xs[0])), np.int32(int(ys[0])), True
    if pform == "f4-scalar":
        return np.float32(xs[0]), np.float32(ys[0]), True
    if pform == "0d":
        return np.array(xs[0]), np.array(ys[0]), True
    if pform == "list":
        return list(xs), list(ys), False
    if pform == "tuple":
        return tuple(xs), tuple(ys), False
    dt = {"i4-arr": "i4", "i8-arr": "i8", "u2-arr": "u2", "f4-arr": "f4", "bigendian": ">f8"}.get(pform, "f8")
    a, b = np.array(xs, dtype=dt), np.array(ys, dtype=dt)
    if pform == "strided":
        aa, bb = np.zeros(2 * len(xs) + 1), np.zeros((len(ys), 3))
        aa[1::2] = xs
        bb[:, 1] = ys
        a, b = aa[1::2], bb[:, 1]
    elif pform == "reversed":
        a, b = np.array(xs[::-1])[::-1], np.array(ys[::-1])[::-1]
    elif pform == "readonly":
        a.flags.writeable = False
        b.flags.writeable = False
    return a, b, False


class Forms(Base):
    """every accepted way of handing over the same header and the same positions gives the same numbers as the plain
    form (lower-case dict; python-float scalar calls): compared to the accuracies the statement names"""
    name = "forms"

    def cases(self, ctx, round=0):
        r = ctx.rng
        out = []
        kinds = ["tan", "tpv", "sip", "tpv-sparse", "sip-noinv", "tan-pv"]
        # header forms x operations
        hf = list(HFORMS[1:]) + (["f4-values", "rec1-f4"] if f4_header_enabled() else [])
        r.shuffle(hf)
        for i, hform in enumerate(hf if round == 0 else hf[:4]):
            for rep in range(ctx.n(1, 6)):
                kind = kinds[(i + rep) % len(kinds)]
                h = g.gen_header(r, kind, r.choice(g.CRVAL_FAMILIES), "inside")
                if hform == "int-crpix-crval":
                    for k in ("crpix1", "crpix2", "crval1"):
                        h[k] = float(math.floor(h[k] + 0.5))
                    h["crval2"] = float(max(-89, min(89, math.floor(h["crval2"] + 0.5))))
                if hform in ("f4-values", "rec1-f4"):
                    h = f4_round(h)
                op = r.choice(["i2s", "i2s", "s2i", "jac"])
                out.append({"header": h, "hform": hform, "pform": "f8-arr", "op": op, "pts": g.gen_points(r, h, 4, special=False),
                            "distort": True, "find": r.random() < 0.5, "family": "%s/hform-%s/%s" % (kind, hform, op)})
        # argument forms x operations
        for op, forms in sorted(PFORMS.items()):
            fs = list(forms)
            for i, pform in enumerate(fs):
                for rep in range(ctx.n(1, 5)):
                    kind = kinds[(i + rep + len(op)) % len(kinds)]
                    if pform.startswith("long"):
                        kind = ["tpv", "sip"][(i + rep) % 2]       # the per-element polynomial loops
                    h = g.gen_header(r, kind, r.choice(g.CRVAL_FAMILIES), r.choice(["inside", "inside", "outside"]))
                    n = 1 if pform in ("pyfloat", "np64-scalar", "pyint", "npint-scalar", "f4-scalar", "0d", "len1", "kw-explicit") else 5
                    if pform.startswith("long"):
                        n = {"long4097": 4097, "long65537": 65537}.get(pform, 257 if has_dist(h) else 4097)
                    if pform == "empty":
                        n = 0
                    pts = [[r.uniform(1.0, h["naxis1"]), r.uniform(1.0, h["naxis2"])] for _ in range(n)]
                    if pform in ("pyint", "npint-scalar", "i4-arr", "i8-arr", "u2-arr"):
                        pts = [[float(int(p[0])), float(int(p[1]))] for p in pts]
                    if pform in ("f4-scalar", "f4-arr"):
                        import numpy as np
                        pts = [[float(np.float32(p[0])), float(np.float32(p[1]))] for p in pts]
                    out.append({"header": h, "hform": "dict", "pform": pform, "op": op, "pts": pts,
                                "distort": r.random() < 0.8, "find": r.random() < 0.5,
                                "family": "%s/pform-%s/%s" % (kind, pform, op)})
        return out

    @guarded
    def impl(self, c):
        import numpy as np
        h, op = c["header"], c["op"]
        pts = c["pts"]
        w0 = mk(h)
        if op == "s2i":     # sky positions of the pixels (plain calls); these are the inputs of both sides
            pts = [[float(t) for t in w0.image2sky(p[0], p[1])] for p in pts]
        xs, ys = [p[0] for p in pts], [p[1] for p in pts]
        idx = list(range(len(pts))) if len(pts) <= 16 else sorted(set([0, len(pts) - 1] + [(i * 7919) % len(pts) for i in range(12)]))
        kw = {"distort": c["distort"]}
        if op == "s2i":
            kw["find"] = c["find"]
        fn = {"i2s": "image2sky", "s2i": "sky2image", "jac": "get_jacobian"}[op]
        wb = mk(h)
        base = [flat(getattr(wb, fn)(float(xs[i]), float(ys[i]), **kw)) for i in idx]
        wv = build(h, c["hform"])
        a, b, scalar = shape_args(c["pform"], xs, ys)
        if c["pform"] == "kw-explicit":
            # keywords omitted on one side, given explicitly as their defaults on the other
            base = [flat(getattr(wb, fn)(float(xs[i]), float(ys[i]))) for i in idx]
            kw = {"i2s": dict(distort=True), "s2i": dict(distort=True, find=True, xtol=1e-8), "jac": dict(distort=True, step=1.0)}[op]
        res = getattr(wv, fn)(a, b, **kw)
        cols = [np.atleast_1d(np.asarray(t, dtype="f8")).ravel() for t in res]
        n = 1 if scalar else len(pts)
        if any(len(col) != n for col in cols):
            return {"err": "EShape", "msg": "output lengths %s for %d input position(s)" % ([len(col) for col in cols], n)}
        var = [[float(col[i]) for col in cols] for i in idx]
        return {"base": base, "variant": var, "n": n}

    def term(self, c, out):
        if "err" in out:
            return FAIL
        a = [t for row in out["base"] for t in row]
        b = [t for row in out["variant"] for t in row]
        if not (finite(a) and finite(b)) or len(a) != len(b):
            return FAIL
        if c["op"] == "i2s":
            pr = lambda rows: "[%s]" % "; ".join("(%s, %s)" % (cQ(l), cQ(t)) for l, t in rows)   # noqa
            return "v_sky_same %s %s %s" % (pr(out["base"]), pr(out["variant"]), cQ(TOL_SKY_F))
        if c["op"] == "s2i":
            return "v_close_abs %s %s %s" % (cqlist(a), cqlist(b), cQ(TOL_PX))
        return "v_close_abs %s %s %s" % (cqlist(a), cqlist(b), cQ(TOL_JAC_SAME))

    def nontrivial(self, c, out):
        return "err" not in out and len(c["pts"]) > 0


def scribble(res):
    """overwrite in place whatever arrays a call returned (aliasing: a result that is an internal buffer of the object,
    or shares memory with a later result, changes what the next call returns)"""
    import numpy as np
    for a in (res if isinstance(res, (tuple, list)) else [res]):
        if isinstance(a, np.ndarray) and a.flags.writeable and a.size:
            a[...] = -12345.678


def run_op(w, o, keep=None):
    return flat(run_op_raw(w, o, keep))


def run_op_raw(w, o, keep=None):
    """one operation of a history; with keep (a dict) the argument arrays are created once per operation index and
    handed over again on a repetition, so that an implementation that scribbles on its inputs is seen"""
    import numpy as np
    if o["op"] == "inv":
        return w.InvertDistortion()
    if keep is not None and o.get("_k") in keep:
        a, b = keep[o["_k"]]
    else:
        if o["arr"]:
            a = np.array([p[0] for p in o["pts"]])
            b = np.array([p[1] for p in o["pts"]])
        else:
            a, b = o["pts"][0]
        if keep is not None and "_k" in o:
            keep[o["_k"]] = (a, b)
    if o["op"] == "i2s":
        return w.image2sky(a, b, distort=o["distort"])
    if o["op"] == "s2i":
        kw = {} if o.get("xtol") is None else {"xtol": o["xtol"]}
        return w.sky2image(a, b, distort=o["distort"], find=o["find"], **kw)
    return w.get_jacobian(a, b, distort=o["distort"])


class History(Base):
    """every operation of a call history returns what a fresh object returns"""
    name = "history"

    def cases(self, ctx, round=0):
        out = []
        n = ctx.n(30, 400) if round == 0 else 20
        for h, fam in header_plan(ctx, n, "hi"):
            out.append({"header": h, "ops": g.gen_history(ctx.rng, h, 12), "family": fam})
        # every kind of call once, in a random order, then the first two again (with the very same argument arrays)
        for h, fam in header_plan(ctx, ctx.n(12, 150) if round == 0 else 8, "ho"):
            out.append({"header": h, "ops": g.gen_history_orders(ctx.rng, h), "family": fam.split("/")[0] + "/orders/" + fam.split("/")[2],
                        "repeat_first": 2})
        return out

    @guarded
    def impl(self, c):
        w = mk(c["header"])
        ops = [dict(o) for o in c["ops"]]
        k = c.get("repeat_first", 0)
        for i, o in enumerate(ops):
            o["_k"] = i
        for j in range(k):                      # the repetitions reuse the argument arrays of the first k operations
            ops[len(ops) - k + j]["_k"] = j
        keep = {}
        hist = []
        for o in ops:
            res = run_op_raw(w, o, keep)
            hist.append(flat(res))
            scribble(res)           # the caller overwrites the RETURNED arrays: they must not be the object's buffers

        fresh = [run_op(mk(c["header"]), o) for o in c["ops"]]
        return {"history": hist, "fresh": fresh}

    def term(self, c, out):
        if "err" in out:
            return FAIL
        a = [t for o in out["history"] for t in o]
        b = [t for o in out["fresh"] for t in o]
        if not (finite(a) and finite(b)):
            return FAIL
        return "v_same %s %s" % (cqlist(a), cqlist(b))

    def nontrivial(self, c, out):
        return "err" not in out and len(c["ops"]) >= 2


class Sequence(Base):
    """several WCS objects alive in ONE process (look-alike headers: same NAXIS / CRPIX / CRVAL / CD / key names), calls
    interleaved over them, array arguments handed over in buffers that are overwritten in place between calls, one
    header dict object changed in place and used for the next construction: every call must return, bit for bit, what
    the same call returns when made alone on a fresh object in a fresh python process (c10_fresh.py)"""
    name = "sequence"

    def cases(self, ctx, round=0):
        return [dict(g.gen_sequence(ctx.rng), family="lookalikes/sequence/inside") for _ in range(ctx.n(5, 30) if round == 0 else 4)]

    @staticmethod
    def fresh(h, steps):
        import subprocess
        import sys
        job = json.dumps({"header": h, "steps": steps})
        r = subprocess.run([sys.executable, os.path.join(os.path.dirname(os.path.abspath(__file__)), "c10_fresh.py")],
                           input=job, stdout=subprocess.PIPE, stderr=subprocess.PIPE, text=True, timeout=600, env=dict(os.environ))
        if r.returncode != 0:
            raise RuntimeError("fresh process failed: %s" % r.stderr[-300:])
        return json.loads(r.stdout)

    @guarded
    def impl(self, c):
        import numpy as np
        W = _wcsutil().WCS
        hs = c["headers"]
        objs = {}
        d = {}
        for i in c["order"]:
            if c["dictreuse"]:              # the same dict object, contents replaced in place
                d.clear()
                d.update(hs[i])
                objs[i] = W(d)
            else:
                objs[i] = W(dict(hs[i]))
        bufs = {}
        outs = []
        for st in c["steps"]:
            w = objs[st["obj"]]
            if st["arr"]:
                k = (st["buf"], len(st["pts"]))
                if k not in bufs:
                    bufs[k] = (np.zeros(len(st["pts"])), np.zeros(len(st["pts"])))
                a, b = bufs[k]
                a[...] = [p[0] for p in st["pts"]]
                b[...] = [p[1] for p in st["pts"]]
            else:
                a, b = float(st["pts"][0][0]), float(st["pts"][0][1])
            if st["op"] == "i2s":
                o = w.image2sky(a, b, distort=st["distort"])
            elif st["op"] == "s2i":
                kw = {} if st.get("xtol") is None else {"xtol": st["xtol"]}
                o = w.sky2image(a, b, distort=st["distort"], find=st["find"], **kw)
            else:
                o = w.get_jacobian(a, b, distort=st["distort"], step=st.get("step", 1.0))
            outs.append(flat(o))
            scribble(o)
        base = [None] * len(c["steps"])
        used = sorted(set(st["obj"] for st in c["steps"]))
        idxs = {i: [k for k, st in enumerate(c["steps"]) if st["obj"] == i] for i in used}
        from concurrent.futures import ThreadPoolExecutor
        with ThreadPoolExecutor(len(used)) as ex:
            ress = list(ex.map(lambda i: self.fresh(hs[i], [c["steps"][k] for k in idxs[i]]), used))
        for i, res in zip(used, ress):
            for k, v in zip(idxs[i], res):
                base[k] = v
        for v in base:
            if isinstance(v, dict):
                return {"err": "EOther", "msg": "fresh process: " + v["err"]}
        return {"sequence": outs, "fresh": base}

    def term(self, c, out):
        if "err" in out:
            return FAIL
        a = [t for o in out["sequence"] for t in o]
        b = [t for o in out["fresh"] for t in o]
        if not (finite(a) and finite(b)):
            return FAIL
        return "v_same %s %s" % (cqlist(a), cqlist(b))


CTOR_MUTATIONS = ["none", "del:naxis1", "del:naxis2", "del:crpix1", "del:crpix2", "del:crval1", "del:crval2", "del:ctype1",
                  "del:ctype2", "del:cd1_2", "del:cd2_1", "del:cd2_2", "del:cd*", "del:cunit1", "del:a_order", "del:b_order",
                  "proj:SIN", "proj:ZPN", "proj:TAN-TPV", "proj:tan ", "proj:", "cunit:rad", "cunit: DEG ", "cunit:arcsec",
                  "cd:zero", "cd:zero-col1", "cd:zero-row", "cd:zero-col", "znaxis1-only", "znaxis-both-no-naxis"]


def mutate_header(h, m):
    h = dict(h)
    if m.startswith("del:"):
        k = m[4:]
        for key in list(h):
            if key == k or (k == "cd*" and key.startswith("cd")):
                del h[key]
    elif m.startswith("proj:"):
        pr = m[5:]
        h["ctype1"] = "RA--" + ("-" + pr if pr else "")
        h["ctype2"] = "DEC-" + ("-" + pr if pr else "")
    elif m.startswith("cunit:"):
        h["cunit1"] = m[6:]
    elif m == "cd:zero":
        h.update(cd1_1=0.0, cd1_2=0.0, cd2_1=0.0, cd2_2=0.0)
    elif m == "cd:zero-col1":        # (singular matrices without an exact zero pivot, e.g. equal rows, are NOT always
        h.update(cd1_1=0.0, cd2_1=0.0)   # detected by LAPACK: l = a * (1/a) may differ from 1; only exact cases are generated)
    elif m == "cd:zero-row":
        h.update(cd2_1=0.0, cd2_2=0.0)
    elif m == "cd:zero-col":
        h.update(cd1_2=0.0, cd2_2=0.0)
    elif m == "znaxis1-only":
        h["znaxis1"] = h.get("naxis1", 1024)
    elif m == "znaxis-both-no-naxis":
        h["znaxis1"], h["znaxis2"] = h.pop("naxis1", 1024), h.pop("naxis2", 1024)
    return h


def craw(h):
    """the abstraction Construct.raw of a header dict (what the constructor's checks read)"""
    def has(k):
        return cbool(k in h)

    def oq(k):
        return "(Some %s)" % cQ(float(h[k])) if k in h else "None"
    proj = h["ctype1"][4:].strip().upper() if "ctype1" in h else ""
    cunit = ('(Some "%s"%%string)' % h["cunit1"].strip().lower()) if "cunit1" in h else "None"
    return ("{| q_znaxis1 := %s; q_znaxis2 := %s; q_naxis1 := %s; q_naxis2 := %s; q_crpix1 := %s; q_crpix2 := %s; "
            "q_crval1 := %s; q_crval2 := %s; q_ctype1 := %s; q_ctype2 := %s; q_projection := \"%s\"%%string; q_cunit1 := %s; "
            "q_cd11 := %s; q_cd12 := %s; q_cd21 := %s; q_cd22 := %s; q_a_order := %s; q_b_order := %s |}") % (
        has("znaxis1"), has("znaxis2"), has("naxis1"), has("naxis2"), has("crpix1"), has("crpix2"), has("crval1"), has("crval2"),
        has("ctype1"), has("ctype2"), proj, cunit, oq("cd1_1"), oq("cd1_2"), oq("cd2_1"), oq("cd2_2"), has("a_order"), has("b_order"))


def cbool(b):
    return "true" if b else "false"


class Constructor(Base):
    """WCS(header) for valid headers and for headers with one or two defects: accepted / KeyError / ValueError as the model
    of the constructor says (Construct.construct_check, theorems C10_constructor_*), and whether an accepted object can
    convert at all (CD matrix present)"""
    name = "constructor"

    def cases(self, ctx, round=0):
        r = ctx.rng
        out = []
        kinds = ["tan", "tpv", "sip", "sip-noinv"]
        muts = list(CTOR_MUTATIONS)
        for i, m in enumerate(muts):
            for rep in range(ctx.n(1, 4) if round == 0 else 1):
                kind = kinds[(i + rep) % len(kinds)] if not m.endswith("_order") else ["sip", "sip-noinv"][rep % 2]
                h = g.gen_header(r, kind, "sphere", "inside")
                out.append({"header": mutate_header(h, m), "family": "%s/ctor-%s/x" % (kind, m)})
        for _ in range(ctx.n(16, 120) if round == 0 else 8):          # two defects: which one is reported
            kind = r.choice(kinds)
            m1, m2 = r.sample(muts[1:], 2)
            h = mutate_header(mutate_header(g.gen_header(r, kind, "sphere", "inside"), m1), m2)
            out.append({"header": h, "family": "%s/ctor-%s+%s/x" % (kind, m1, m2)})
        return out

    def impl(self, c):
        try:
            w = _wcsutil().WCS(dict(c["header"]))
        except KeyError as e:
            return {"code": 1, "converts": False, "msg": "KeyError: %s" % e}
        except ValueError as e:
            return {"code": 2, "converts": False, "msg": "ValueError: %s" % str(e)[:120]}
        except Exception as e:      # noqa
            return {"code": 3, "converts": False, "msg": "%s: %s" % (type(e).__name__, str(e)[:120])}
        try:
            w.image2sky(1.0, 1.0, distort=False)
            return {"code": 0, "converts": True}
        except TypeError as e:
            return {"code": 0, "converts": False, "msg": "TypeError: %s" % str(e)[:120]}
        except Exception as e:      # noqa
            return {"code": 3, "converts": False, "msg": "conversion: %s: %s" % (type(e).__name__, str(e)[:120])}

    def term(self, c, out):
        return "v_construct %s %s %s" % (craw(c["header"]), core.cz(out["code"]), cbool(out["converts"]))

    def nontrivial(self, c, out):
        return True

    def show(self, c):
        return "construct_check %s" % craw(c["header"])


class Cdinv(Base):
    """contract of numpy.linalg.inv as used by the model (exact inverse of the CD matrix)"""
    name = "cdinv"

    def cases(self, ctx, round=0):
        return [{"header": h, "family": fam} for h, fam in header_plan(ctx, ctx.n(20, 200), "cd")]

    @guarded
    def impl(self, c):
        w = mk(c["header"])
        return {"cd": flat(w.cd), "cdinv": flat(w.cdinv)}

    def term(self, c, out):
        if "err" in out or not finite(out["cd"] + out["cdinv"]):
            return FAIL
        return "v_cdinv %s %s" % (" ".join(cQ(t) for t in out["cd"] + out["cdinv"]), cQ(TOL_CDINV))


# ----------------------------------------------------------------------------
# certificates
# ----------------------------------------------------------------------------

def cert_lemma(it, level=0, refute=False):
    """it = {header, pt, distort, out:[lon,lat], kind: fwd|crpix}"""
    h = it["header"]
    lon, lat = it["out"]
    if it["kind"] == "crpix":
        st = "sky_close (unitvec %s %s) (unitvec %s %s) %s" % (
            cR(float(h["crval1"])), cR(float(h["crval2"])), cR(lon), cR(lat), TOL_SKY)
        tac = "c10_refute_close" if refute else ("c10_close_hi" if level else "c10_close")
    elif it["distort"] and float(h.get("longpole", 180.0)) != 180.0:
        st = "sky_close (fits_pix2sky_vec_lp (%s) %s %s) (unitvec %s %s) %s" % (
            chdr(h), cR(it["pt"][0]), cR(it["pt"][1]), cR(lon), cR(lat), TOL_SKY)
        tac = "c10_refute_lp" if refute else ("c10_cert_lp_hi" if level else "c10_cert_lp")
    elif it["distort"]:
        st = "sky_close (fits_pix2sky_vec (%s) %s %s) (unitvec %s %s) %s" % (
            chdr(h), cR(it["pt"][0]), cR(it["pt"][1]), cR(lon), cR(lat), TOL_SKY)
        tac = "c10_refute" if refute else ("c10_cert_hi" if level else "c10_cert")
    else:
        st = "sky_close (fits_pix2sky_vec_nodistort (%s) %s %s) (unitvec %s %s) %s" % (
            chdr(h), cR(it["pt"][0]), cR(it["pt"][1]), cR(lon), cR(lat), TOL_SKY)
        tac = "c10_refute_nodistort" if refute else ("c10_cert_nodistort_hi" if level else "c10_cert_nodistort")
    if refute:
        st = "~ " + st
    return st, tac + "."


def jac_lemma(it):
    v = it["vals"]            # centre, p0, m0, 0p, 0m  (lon, lat each)
    pr = lambda p: "(%s, %s)" % (cR(p[0]), cR(p[1]))      # noqa
    j = it["jac"]
    st = "jac_close (%s, %s, %s, %s) (jac_of %s %s %s %s %s %s) %s" % (
        cR(j[0]), cR(j[1]), cR(j[2]), cR(j[3]), pr(v[0]), pr(v[1]), pr(v[2]), pr(v[3]), pr(v[4]), cR(it["step"]), TOL_JAC)
    return st, "c10_jac."


def certify(ctx, items, tag):
    """one lemma per item; failures are retried at high precision together with the negation"""
    if not items:
        return
    lem = [jac_lemma(it) if it["kind"] == "jac" else cert_lemma(it) for it in items]
    res = core.coq_lemmas(os.path.join(ctx.work, tag), PRE_CERT, lem, shard=ctx.n(4, 12), tag=tag)
    ctx.checker_cmds.append("coqc <%d generated lemmas %s; closed by interval>" % (len(lem), tag))
    redo = [i for i, (ok, _) in enumerate(res) if not ok and items[i]["kind"] != "jac"]
    verdict = {}
    if redo:
        lem2 = []
        for i in redo:
            lem2.append(cert_lemma(items[i], level=1))
            lem2.append(cert_lemma(items[i], refute=True))
        res2 = core.coq_lemmas(os.path.join(ctx.work, tag + "_retry"), PRE_CERT, lem2, shard=2, tag=tag + "r")
        for k, i in enumerate(redo):
            verdict[i] = (res2[2 * k][0], res2[2 * k + 1][0], res2[2 * k][1])
    for i, it in enumerate(items):
        fam = it["family"].split("/")[0]
        label = "%s%s" % (it["kind"], "" if it.get("distort", True) else "-nodistort")
        name = "cert:%s:%s#%d" % (label, it["family"], i)
        ok = res[i][0] or (i in verdict and verdict[i][0])
        ctx.obligation(name, ok, "" if ok else (verdict[i][2] if i in verdict else res[i][1]))
        small = {k: it[k] for k in it if k not in ("family",)}
        ctx.case(["cert", small], True, "cert:%s:%s" % (label, fam), sample={"entry": "cert", "input": small})
        ctx.count("cert:%s:%s" % (label, "ok" if ok else "FAILED"))
        if i in verdict and ok:
            ctx.count("cert:needed-high-precision")
        if not ok:
            refuted = i in verdict and verdict[i][1]
            if it["kind"] == "jac":
                what = "get_jacobian differs from the central-difference formula of the model on the implementation's own image2sky values"
                cls = "jacobian"
            elif it["kind"] == "crpix":
                what = "the reference pixel does not map to CRVAL within 1e-9 degree"
                cls = "crpix"
            else:
                what = "image2sky(distort=%s) is not within 1e-9 degree of the FITS reference computation" % it["distort"]
                cls = "forward"
            if it.get("witness"):
                what = "regression of the repaired defect corpus/C10/%s.json (%s): %s" % (it["witness"], it.get("defect", ""), what)
            ctx.violation(what + (" [negation proved by interval]" if refuted else " [certificate not provable]"),
                          {"kind": "certificate", "entry": "cert", "case": it, "negation_proved": bool(refuted),
                           "class": None, "certificate_class": cls,
                           "no_longer_checks": "per-case certificate against Spec.fits_pix2sky_vec (C10_forward_matches_fits)"},
                          found_input=bool(refuted) or it["kind"] == "jac")


def cert_items_from(c, out):
    items = []
    for p, ll in zip(c["pts"], out["ll"]):
        items.append({"kind": "fwd", "header": c["header"], "pt": p, "distort": c["distort"], "out": ll,
                      "family": c["family"]})
        if c.get("crpix") and g.const_free(c["header"]):
            items.append({"kind": "crpix", "header": c["header"], "pt": p, "distort": True, "out": ll,
                          "family": c["family"]})
    return items


def cert_pool(fw, ctx, budget, ncrpix):
    r = ctx.rng
    fixed, byfam, crp, lp, fz = [], {}, [], [], {}
    for c, out in fw.results:
        for it in cert_items_from(c, out):
            if c["family"].startswith("corpus"):
                fixed.append(it)
            elif "/lonpole" in c["family"]:
                lp.append(it)
            elif "/falsy" in c["family"] and it["kind"] == "fwd":
                fz.setdefault(c["family"].split("/")[1].rsplit("-", 1)[0], []).append(it)
            elif it["kind"] == "crpix":
                crp.append(it)
            else:
                key = (c["family"].split("/")[0], it["distort"], bool(c.get("crpix")))
                byfam.setdefault(key, []).append(it)
    keys = sorted(byfam)
    for k in keys:
        r.shuffle(byfam[k])
    r.shuffle(crp)
    r.shuffle(lp)
    lp.sort(key=lambda it: it["kind"] != "fwd")        # LONPOLE != 180: forward certificates first, then CRPIX -> CRVAL
    chosen = list(fixed) + crp[:ncrpix] + lp[:ctx.n(3, 30)]
    for k in sorted(fz):                        # one forward certificate per falsy variant (quick), up to 6 (thorough)
        r.shuffle(fz[k])
        chosen += fz[k][:ctx.n(1, 6)]
    while len(chosen) < budget and any(byfam[k] for k in keys):
        for k in keys:
            if byfam[k] and len(chosen) < budget:
                chosen.append(byfam[k].pop())
    return chosen


def jac_item(h, pt, distort, step, fam):
    w = mk(h)
    x, y = pt
    j = flat(w.get_jacobian(x, y, distort=distort, step=step))
    w2 = mk(h)
    vals = [flat(w2.image2sky(a, b, distort=distort)) for a, b in
            ((x, y), (x + step, y), (x - step, y), (x, y + step), (x, y - step))]
    return {"kind": "jac", "header": h, "pt": pt, "distort": distort, "step": step, "jac": j, "vals": vals, "family": fam}


def jac_items(ctx, n):
    items = []
    plan = header_plan(ctx, n, "jac")
    for i, (h, fam) in enumerate(plan):
        pt = g.gen_points(ctx.rng, h, 1, special=False)[0]
        if i % 2 == 0:
            # on the RA = 0 seam: the +-step positions straddle it and wrap_ra_diff is exercised
            h, fam, pts = seam_case(ctx.rng, 1)
            pt = pts[0]
        step = ctx.rng.choice([1.0, 1.0, 0.5, 2.0])
        try:
            it = jac_item(h, pt, i % 4 != 1, step, fam)
        except Exception as e:      # noqa
            ctx.violation("get_jacobian raises: %s: %s" % (type(e).__name__, str(e)[:200]),
                          {"kind": "failing-input", "entry": "jac", "case": {"header": h, "pt": pt}, "class": None})
            continue
        if finite(it["jac"]) and all(finite(v) for v in it["vals"]):
            items.append(it)
        else:
            ctx.violation("get_jacobian returns a non-finite value",
                          {"kind": "failing-input", "entry": "jac", "case": it, "class": None})
    return items


def witness_cases(stem=None):
    """corpus/C10/<defect>.json: cases with entry "witness:<entry>" (run first, reported per defect)"""
    d = os.path.join(core.VERIF, "corpus", "C10")
    out = []
    if os.path.isdir(d):
        for f in sorted(os.listdir(d)):
            if f.endswith(".json") and (stem is None or f == stem + ".json"):
                for c in json.load(open(os.path.join(d, f))):
                    if str(c.get("entry", "")).startswith("witness:"):
                        c = dict(c)
                        c["witness"] = f[:-5]
                        c.setdefault("family", "corpus/" + f[:-5])
                        out.append(c)
    return out


def witness_pass(ctx, entries, cases):
    """the witnesses of the repaired defects: every case is evaluated like a case of its entry; a failing one is
    reported under the name of its defect.  Returns the certificate items of the forward witnesses."""
    byname = {e.name: e for e in entries}
    fw = Forward()                      # private instance: collects the outputs to certify
    byname["forward"] = fw
    terms, meta = [], []
    for c in cases:
        ent = byname[c["entry"].split(":", 1)[1]]
        out = ent.impl(c)
        terms.append(ent.term(c, out))
        meta.append((ent, c, out))
    if not terms:
        return []
    try:
        vals = core.coq_eval(os.path.join(ctx.work, "witness"), PRE_Q, terms, tag="witness")
    except core.CoqEvalError as e:
        ctx.violation("case file of the corpus witnesses does not evaluate in Coq",
                      {"kind": "case-file", "entry": "witness", "error": str(e)[-3000:]}, found_input=False)
        return []
    for (ent, c, out), v in zip(meta, vals):
        v = int(v.replace("%Z", "").strip("() "))
        ctx.case([c["entry"], c], "err" not in out, "corpus:" + c["witness"],
                 sample={"entry": c["entry"], "input": c, "impl_output": out})
        ctx.count("verdict:witness:%s:%d" % (c["witness"], v))
        if v >= 2:
            detail = out.get("msg") if "err" in out else core.VERDICT_TXT[v]
            ctx.violation("regression of the repaired defect corpus/C10/%s.json (%s): %s: %s" % (
                c["witness"], c.get("defect", ""), ent.name, detail),
                {"kind": "failing-input", "entry": c["entry"], "case": c, "impl_output": out, "verdict": v, "class": None},
                found_input=True)
    items = []
    for c, out in fw.results:
        for it in cert_items_from(c, out):
            it["witness"] = c["witness"]
            it["defect"] = c.get("defect", "")
            items.append(it)
    return items


# ----------------------------------------------------------------------------

TRUSTED = [
    "Coq 8.16.1 kernel (coqc, vm_compute; no native_compute); the theorems of C10/Properties.v depend only on the standard "
    "library's real-number axioms (ClassicalDedekindReals.sig_forall_dec, sig_not_dec, FunctionalExtensionality."
    "functional_extensionality_dep, Classical_Prop.classic); the per-case certificates closed by Interval additionally on "
    "the stdlib specification axioms of primitive floats/ints (FloatAxioms.*, Uint63.*)",
    "hand-written real-number model C10/Model.v of esutil/wcsutil.py (ExtractPVCoeffs/ExtractSIPCoeffs/"
    "ExtractDistortionModel, CreateRotationMatrix, _rotate, image2sph, sph2image, ApplyCDMatrix, Distort, Apply2DPolynomial, "
    "image2sky, sky2image, _findxy_one, _lonlatdiff, get_jacobian, wrap_ra_diff, object state) for theta0 = 90 (GetPole's other "
    "branches are not modelled; generators never set theta0); module-level tables (_scamp_map, _scamp_skip, _scamp_max_*, _ap, "
    "_allowed_projections, DEFTOL) are regenerated from the source on every run (c10_translate.py -> C10/Gen.v, fail-closed)",
    "the FITS reference Spec.fits_pix2sky_vec (papers I/II, TPV, SIP) is written by hand from the conventions; it is the "
    "specification",
    "NOT proved: IEEE rounding of the formula chain and libm/numpy sin, cos, arctan, arctan2, sqrt, pow -- measured: each sampled "
    "output of the real code is certified by a kernel-checked interval enclosure to be within 1e-9 degree on the sky of the "
    "reference direction of its exact binary64 inputs (partial w.r.t. rounding, DESIGN 3.3-R)",
    "NOT modelled: scipy.optimize.fsolve and the least-squares inverse fit (Section variables of the model; history "
    "independence is proved for arbitrary functions in their place); their accuracy is checked on samples only: round trip "
    "< 1e-6 px with root finding, <= 30 x rms(residual over the whole image of the documented inverse fit, re-done by the harness on the image rectangle [1,NAXIS1] x [1,NAXIS2]) + 1e-6 px without; numpy.linalg.inv is modelled as "
    "the exact inverse and monitored (|cdinv.cd - 1| <= 1e-9)",
    "numpy array layer (broadcasting, masks, in-place ufuncs) is not modelled; checked per run on exact values: scalar calls "
    "= array calls to the statement's accuracies; history independence checked bit for bit against fresh objects",
    "python harness (harness/props/C10.py, c10_gen.py, c10_translate.py), binary64 -> exact rational literal printers "
    "(core.cR, core.cQ), coqc evaluating Exec.v verdict terms",
]


def restore_good_gen(ctx, why):
    """copy the committed last good model tables (Gen.v.good, generated from a tree on which every tie lemma held) over
    Gen.v; the next run on a translatable tree regenerates Gen.v from its source"""
    import shutil
    good = os.path.join(core.COQDIR, "theories", "C10", "Gen.v.good")
    dst = os.path.join(core.COQDIR, "theories", "C10", "Gen.v")
    if os.path.exists(good) and open(good).read() != (open(dst).read() if os.path.exists(dst) else None):
        tmp = dst + ".tmp.%d" % os.getpid()
        shutil.copyfile(good, tmp)
        os.replace(tmp, dst)
    ctx.notes.append("Gen.v restored from Gen.v.good (%s): correspondence runs against the last good model" % why)


def run(ctx, replay=None):
    ctx.rule = ("headers: kinds {tan, tpv (full scamp PV sets), tan-pv (old scamp: -TAN with PV), tpv-sparse (PVi_1 and others "
                "omitted), tpv-axis2 (PV2 only), sip, sip-noinv (no AP/BP_ORDER), sip-bonly} x CRVAL families {sphere, "
                "|dec| in [89.9,90), dec = +-90 exactly, RA = 0, RA = 359.999} x CRPIX {inside the image, 3000-20000 px outside}; "
                "image shapes square, portrait and landscape (256^2 ... 1024x4096, 4096x1024); reference point on the seam written as 0.0 "
                "or 360.0 with axis-aligned CD and pixels exactly on the meridian (array and scalar calls); find=False round trips on "
                "non-square images for TPV and SIP fits; "
                "random CD (rotation, flip, 0.05-2 arcsec/px); positions: corners, centre, reference pixel, pixels next to "
                "a celestial pole inside the image, uniform.  Every call's outputs are checked on exact rationals in Coq; a "
                "family-balanced sample of image2sky outputs is certified by interval lemmas against the FITS reference. "
                "non-trivial: the call returned (no exception); histories need >= 2 operations; distinct by canonical JSON; "
                "families counted separately (family:* keys).")
    ctx.trusted = TRUSTED
    # 1. tables from the source of the tree under check
    try:
        consts, changed = c10_translate.regenerate(ctx.impl, core.COQDIR)
        ctx.obligation("Gen.v regenerated from esutil/wcsutil.py (%d _scamp_map entries, skip %r, DEFTOL %r)%s" % (
            len(consts["table"]), consts["skip"], consts["deftol"], " [changed]" if changed else ""), True)
    except c10_translate.TranslateError as e:
        ctx.obligation("Gen.v regenerated from esutil/wcsutil.py", False, str(e))
        ctx.violation("translation of the module-level tables of wcsutil.py failed: %s" % e,
                      {"kind": "translation", "error": str(e),
                       "no_longer_checks": "tie of C10/Gen.v (tables, formulas, control flow) to esutil/wcsutil.py"},
                      found_input=False)
        # no masking: the tie failure is reported, and everything else runs against the last good model
        restore_good_gen(ctx, "translation failed")
    # 2. theorems (re-proved against the regenerated tables)
    proofs_ok = core.proof_step(ctx, "C10", core.ALLOW_INTERVAL)
    if not proofs_ok:
        # a tie lemma / table theorem does not hold for the regenerated Gen.v (reported by proof_step).  No masking: put
        # the last good Gen.v back so that the verdict functions and certificate tactics build, and keep looking for a
        # failing input with the last good model
        restore_good_gen(ctx, "proof obligations do not build for the regenerated Gen.v")
        ok, log = core.coq_make(["theories/C10/Exec.vo"])
        if not ok:
            ctx.violation("verdict functions of C10 do not build even with the last good Gen.v",
                          {"kind": "proof-build", "log_tail": log[-2000:]}, found_input=False)
            return
    fw = Forward()
    sa = ScalarArray()
    entries = [fw, RoundTrip(), sa, History(), Cdinv(), Forms(), Sequence()]
    ctor = Constructor()
    # 3. replay of a certificate
    if replay is not None and replay.get("entry") in ("cert", "jac"):
        it = dict(replay["case"])
        it.setdefault("family", "replay")
        try:
            if it["kind"] == "jac":
                it = jac_item(it["header"], it["pt"], it["distort"], it["step"], "replay")
            else:
                w = mk(it["header"])
                it["out"] = flat(w.image2sky(it["pt"][0], it["pt"][1], distort=it["distort"]))
        except Exception as e:      # noqa
            ctx.violation("the replayed call raises %s: %s" % (type(e).__name__, str(e)[:200]),
                          {"kind": "failing-input", "entry": "cert", "case": it, "class": None})
            return
        certify(ctx, [it], "replay")
        return
    # 4. witnesses of the repaired defects (corpus), reported per defect
    if replay is not None and str(replay.get("entry", "")).startswith("witness:"):
        c = dict(replay["case"])
        c.setdefault("witness", "replay")
        certify(ctx, witness_pass(ctx, entries, [c]), "replay")
        return
    witems = witness_pass(ctx, entries, witness_cases()) if replay is None else []
    # 5. exact-rational checks
    differential(ctx, PRE_Q, entries, replay)
    differential(ctx, PRE_CTOR, [ctor], replay)
    if replay is not None:
        return
    ctx.count("observed:scalar_array-bit-identical", sa.identical)
    # 6. certificates
    t0 = time.time()
    items = witems + cert_pool(fw, ctx, ctx.n(24, 360), ctx.n(4, 40))
    items += jac_items(ctx, ctx.n(6, 40))
    certify(ctx, items, "cert")
    ctx.count("wall_s:certificates", round(time.time() - t0, 1))

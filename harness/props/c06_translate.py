"""Translator for C06: read the decision structure and the constants of match / match_multi / unique /
rem_dup out of the SOURCE of esutil/numpy_util.py of the tree under check (python ast) and print
coq/theories/C06/Gen.v (records of type Skel.mparams / mmparams / uparams / rparams).

How: every function body (docstring and comments dropped, `ast.unparse` normal form) is matched LINE BY LINE
against a template in which the source-dependent parts are holes:

    {name:cmp}   a comparison operator             -> Skel.cmpop
    {name:int}   a non-negative integer literal    -> nat
    {name:bool}  True / False                      -> bool
    {name:not}   `not ` or nothing                 -> bool (true = `not` present)
    {name:conn}  or / and                          -> Skel.conn
    {name:exc}   an exception class name           -> Base.err (ValueError -> EValue, ...)
    {name:cls}   a class named in isinstance       (str / bytes)
    {name:side}  nothing, side='left', side='right' -> Skel.side
    {name:start} s[K] or K                         -> Skel.ustart
    {name:pass}  True / False / presorted          -> Skel.passarg
    {:str}       any string literal (message texts are not part of the model)

A line `?...` of a template is optional.  Anything else - an added, removed or re-ordered statement, another
callee, another variable - is outside the recognised shape: TranslateError (fail closed; the caller reports a
broken tie and resets Gen.v to the reference values so that it never keeps the parameters of another tree).
The file is rewritten only when its text changes (atomic rename)."""
import ast
import os
import re


class TranslateError(Exception):
    pass


CMP = {"==": "CEq", "!=": "CNe", "<": "CLt", "<=": "CLe", ">": "CGt", ">=": "CGe"}
ERR = {"ValueError": "EValue", "IndexError": "EIndex", "RuntimeError": "ERuntime", "TypeError": "EType", "KeyError": "EKey"}
HOLE = {
    "cmp": r"(==|!=|<=|>=|<|>)",
    "int": r"(\d+)",
    "bool": r"(True|False)",
    "not": r"(not |)",
    "conn": r"(or|and)",
    "exc": r"([A-Za-z_][A-Za-z_0-9.]*)",
    "cls": r"([A-Za-z_][A-Za-z_0-9.]*)",
    "side": r"(|, side='left'|, side='right')",
    "start": r"(s\[\d+\]|\d+)",
    "pass": r"(True|False|presorted)",
    "str": r"(?:'(?:[^'\\\n]|\\.)*'|\"(?:[^\"\\\n]|\\.)*\")",
    "ix": r"([a-z0-9_\[\]]+)",
    "var": r"(sub1|sub2)",
    "kix": r"(i|s\[i\])",
}

_M_HEAD = """\
def match(arr1input, arr2input, presorted={presorted_default:bool}):
arr1 = np.atleast_1d(arr1input)
arr2 = np.atleast_1d(arr2input)
"""
_M_EL = """\
el = arr1[{el_index:int}]
if isinstance(el, {cls1:cls}) or isinstance(el, {cls2:cls}):
    is_string = {str_then:bool}
else:
    is_string = {str_else:bool}
"""
_M_EMPTY = """\
if arr1.size {empty_op1:cmp} {empty_k1:int} {empty_conn:conn} arr2.size {empty_op2:cmp} {empty_k2:int}:
    mess = {:str}
    raise {empty_err:exc}(mess)
"""
_M_REST = """\
test = np.unique(arr1)
if test.size {uniq_op:cmp} arr1.size:
    raise {uniq_err:exc}({:str})
if {sort_if_not:not}presorted:
    st1 = np.argsort(arr1)
else:
    st1 = None
sub1 = np.searchsorted(arr1, arr2, sorter=st1{side:side})
if is_string {clamp_conn:conn} arr2.max() {clamp_op:cmp} arr1.max():
    bad, = np.where(sub1 {bad_op:cmp} arr1.size)
    sub1[bad] = arr1.size - {clamp_minus:int}
if {filter_if_not:not}presorted:
    sub2, = np.where(arr1[{f_sorted:ix}] {eq_sorted:cmp} arr2)
    sub1 = {r_sorted:ix}
else:
    sub2, = np.where(arr1[{f_presorted:ix}] {eq_presorted:cmp} arr2)
    sub1 = {r_presorted:ix}
return ({ret1:var}, {ret2:var})
"""
# the ORDER of the two leading blocks is read from the source (mp_el_first): both orders are recognised
T_MATCH = _M_HEAD + _M_EL + _M_EMPTY + _M_REST
T_MATCH_EMPTY_FIRST = _M_HEAD + _M_EMPTY + _M_EL + _M_REST

T_MATCH_MULTI = """\
def match_multi(arr1input, arr2input, presorted={presorted_default:bool}):
return match(arr1input, arr2input, presorted={pass:pass})
"""

T_UNIQUE = """\
def unique(arr, values={values_default:bool}):
n = arr.size
keep = np.zeros(n, dtype='i8')
s = arr.argsort()
val = arr[{val_start:start}]
?keep[{keep0_pos:int}] = {keep0_start:start}
i = {i0:int}
nkeep = {nkeep0:int}
while i {while_op:cmp} n:
    ind = s[i]
    if arr[ind] {ne_op:cmp} val:
        val = arr[ind]
        nkeep += {nkeep_step:int}
        keep[nkeep] = ind
    i += {i_step:int}
keep = keep[{slice_lo:int}:nkeep + {slice_plus:int}]
if {values_if_not:not}values:
    return arr[keep]
else:
    return keep
"""

T_REM_DUP = """\
def rem_dup(arr, flag, values={values_default:bool}):
n = arr.size
if n {single_op:cmp} {single_k:int}:
    if {single_if_not:not}values:
        return ({single_ret_v:int}, arr)
    else:
        return {single_ret:int}
s = arr.argsort()
sarr = arr[s]
keep = np.zeros(n, dtype='i8')
nkeep = {nkeep0:int}
sflag = flag[s]
val = sarr[{val0:int}]
f = sflag[{f0:int}]
for i in range({range_lo:int}, n):
    if sarr[i] {ne_op:cmp} val:
        val = sarr[i]
        f = sflag[i]
        nkeep += {nkeep_step:int}
        keep[nkeep] = {keep_new:kix}
    elif sflag[i] {flag_op:cmp} f:
        f = sflag[i]
        keep[nkeep] = {keep_upd:kix}
keep = keep[{slice_lo:int}:nkeep + {slice_plus:int}]
s = s[keep]
?s.sort()
if {values_if_not:not}values:
    return (s, arr[s])
else:
    return s
"""

TEMPLATES = {"match": T_MATCH, "match_multi": T_MATCH_MULTI, "unique": T_UNIQUE, "rem_dup": T_REM_DUP}
_HOLE_RE = re.compile(r"\{([a-z_0-9]*):([a-z]+)\}")


def _compile(line):
    """template line -> (regex, [(name, kind)])"""
    names, pos, rx = [], 0, ""
    for m in _HOLE_RE.finditer(line):
        rx += re.escape(line[pos:m.start()])
        rx += HOLE[m.group(2)]
        if m.group(2) != "str":
            names.append((m.group(1), m.group(2)))
        pos = m.end()
    rx += re.escape(line[pos:])
    return re.compile(rx), names


def normal_form(fn):
    """the function as text lines: signature + body statements (docstring dropped), ast.unparse normal form"""
    body = fn.body
    if body and isinstance(body[0], ast.Expr) and isinstance(body[0].value, ast.Constant) and isinstance(body[0].value.value, str):
        body = body[1:]
    if fn.decorator_list or fn.returns is not None:
        raise TranslateError("%s: decorated / annotated definition" % fn.name)
    lines = ["def %s(%s):" % (fn.name, ast.unparse(fn.args))]
    for st in body:
        lines += ast.unparse(st).split("\n")
    return lines


def match_template(name, lines):
    """-> {hole name: raw text}; raises TranslateError at the first line outside the recognised shape"""
    if name == "match":
        try:
            got = _match_one(name, T_MATCH, lines)
            got["el_first"] = "True"
            return got
        except TranslateError as first:
            try:
                got = _match_one(name, T_MATCH_EMPTY_FIRST, lines)
                got["el_first"] = "False"
                return got
            except TranslateError:
                raise first
    return _match_one(name, TEMPLATES[name], lines)


def _match_one(name, template, lines):
    tl = template.rstrip("\n").split("\n")
    got, i = {}, 0
    for t in tl:
        optional = t.startswith("?")
        if optional:
            t = t[1:]
        rx, names = _compile(t)
        m = rx.fullmatch(lines[i]) if i < len(lines) else None
        if optional:
            got["?" + t.strip()] = m is not None
        if m is None:
            if optional:
                continue
            raise TranslateError("%s: statement outside the recognised shape: found `%s`, expected the shape `%s`"
                                 % (name, lines[i].strip() if i < len(lines) else "<end of function>", t.strip()))
        for (nm, _k), val in zip(names, m.groups()):
            got[nm] = val
        i += 1
    if i != len(lines):
        raise TranslateError("%s: statement outside the recognised shape: unexpected `%s`" % (name, lines[i].strip()))
    return got


def _func(tree, name):
    fs = [n for n in tree.body if isinstance(n, ast.FunctionDef) and n.name == name]
    if len(fs) != 1:
        raise TranslateError("expected exactly one top-level def %s, found %d" % (name, len(fs)))
    return fs[0]


def _rebound(tree):
    """the four names must not be re-bound at module level after their def (a wrapper would escape the tie)"""
    names = set(TEMPLATES)
    for n in tree.body:
        tg = []
        if isinstance(n, ast.Assign):
            tg = n.targets
        elif isinstance(n, (ast.AugAssign, ast.AnnAssign)):
            tg = [n.target]
        for t in tg:
            for x in ast.walk(t):
                if isinstance(x, ast.Name) and x.id in names:
                    raise TranslateError("module level re-binds %s" % x.id)
        if isinstance(n, (ast.Import, ast.ImportFrom)):
            for a in n.names:
                if (a.asname or a.name) in names:
                    raise TranslateError("module level imports over %s" % (a.asname or a.name))
    al = [n for n in tree.body if isinstance(n, (ast.Import,)) for a in n.names if a.name == "numpy" and a.asname == "np"]
    if not al:
        raise TranslateError("numpy is not imported as np")


def _ix(fn, txt):
    """index expression over st1 / sub1 / sub2 with x[y] -> Skel.ix term"""
    pos = [0]

    def parse():
        m = re.match(r"[a-z0-9_]+", txt[pos[0]:])
        if not m or m.group(0) not in ("st1", "sub1", "sub2"):
            raise TranslateError("%s: index expression `%s` is outside (st1, sub1, sub2, x[y])" % (fn, txt))
        pos[0] += m.end()
        e = {"st1": "XSt1", "sub1": "XSub1", "sub2": "XSub2"}[m.group(0)]
        while pos[0] < len(txt) and txt[pos[0]] == "[":
            pos[0] += 1
            inner = parse()
            if pos[0] >= len(txt) or txt[pos[0]] != "]":
                raise TranslateError("%s: index expression `%s` does not parse" % (fn, txt))
            pos[0] += 1
            e = "XAt (%s) (%s)" % (e, inner)
        return e
    e = parse()
    if pos[0] != len(txt):
        raise TranslateError("%s: index expression `%s` does not parse" % (fn, txt))
    return e


def _start(txt):
    m = re.fullmatch(r"s\[(\d+)\]", txt)
    return ("UViaSort", int(m.group(1))) if m else ("UDirect", int(txt))


def extract(src):
    tree = ast.parse(src)
    _rebound(tree)
    raw = dict((n, match_template(n, normal_form(_func(tree, n)))) for n in TEMPLATES)
    m, mm, u, r = raw["match"], raw["match_multi"], raw["unique"], raw["rem_dup"]
    p = {}
    b = lambda x: x == "True"      # noqa
    nt = lambda x: x == "not "     # noqa
    cls = {m["cls1"], m["cls2"]}
    if not cls <= {"str", "bytes"}:
        raise TranslateError("match: isinstance class outside (str, bytes): %s" % sorted(cls - {"str", "bytes"}))
    for k in ("empty_err", "uniq_err"):
        if m[k] not in ERR and m[k] not in ("Exception", "AssertionError", "AttributeError", "NotImplementedError", "OverflowError"):
            raise TranslateError("match: unknown exception class %s" % m[k])
    p["match"] = [
        ("mp_presorted_default", _b(b(m["presorted_default"]))), ("mp_el_index", m["el_index"]),
        ("mp_classes", "mkCls %s %s" % (_b("str" in cls), _b("bytes" in cls))),
        ("mp_str_then", _b(b(m["str_then"]))), ("mp_str_else", _b(b(m["str_else"]))),
        ("mp_empty_op1", CMP[m["empty_op1"]]), ("mp_empty_k1", m["empty_k1"]), ("mp_empty_conn", _conn(m["empty_conn"])),
        ("mp_empty_op2", CMP[m["empty_op2"]]), ("mp_empty_k2", m["empty_k2"]), ("mp_empty_err", ERR.get(m["empty_err"], "EOther")),
        ("mp_uniq_op", CMP[m["uniq_op"]]), ("mp_uniq_err", ERR.get(m["uniq_err"], "EOther")),
        ("mp_sort_if_not", _b(nt(m["sort_if_not"]))),
        ("mp_side", "SRight" if "right" in m["side"] else "SLeft"),
        ("mp_clamp_conn", _conn(m["clamp_conn"])), ("mp_clamp_op", CMP[m["clamp_op"]]),
        ("mp_bad_op", CMP[m["bad_op"]]), ("mp_clamp_minus", m["clamp_minus"]),
        ("mp_filter_if_not", _b(nt(m["filter_if_not"]))),
        ("mp_eq_sorted", CMP[m["eq_sorted"]]), ("mp_eq_presorted", CMP[m["eq_presorted"]]),
        ("mp_el_first", _b(b(m["el_first"]))),
        ("mp_f_sorted", _ix("match", m["f_sorted"])), ("mp_r_sorted", _ix("match", m["r_sorted"])),
        ("mp_f_presorted", _ix("match", m["f_presorted"])), ("mp_r_presorted", _ix("match", m["r_presorted"])),
        ("mp_ret_swap", _ret_swap(m["ret1"], m["ret2"])),
    ]
    p["match_multi"] = [
        ("mm_presorted_default", _b(b(mm["presorted_default"]))),
        ("mm_pass", "PassVar" if mm["pass"] == "presorted" else "PassConst %s" % _b(b(mm["pass"]))),
    ]
    vs = _start(u["val_start"])
    ks = _start(u["keep0_start"]) if "keep0_start" in u else ("UDirect", 0)     # np.zeros: keep[0] = 0
    p["unique"] = [
        ("up_values_default", _b(b(u["values_default"]))),
        ("up_val_start", "%s %d" % vs), ("up_keep0_pos", u.get("keep0_pos", "0")), ("up_keep0_start", "%s %d" % ks),
        ("up_i0", u["i0"]), ("up_nkeep0", u["nkeep0"]), ("up_while_op", CMP[u["while_op"]]), ("up_ne_op", CMP[u["ne_op"]]),
        ("up_nkeep_step", u["nkeep_step"]), ("up_i_step", u["i_step"]),
        ("up_slice_lo", u["slice_lo"]), ("up_slice_plus", u["slice_plus"]),
        ("up_values_if_not", _b(nt(u["values_if_not"]))),
    ]
    p["rem_dup"] = [
        ("rp_values_default", _b(b(r["values_default"]))),
        ("rp_single_op", CMP[r["single_op"]]), ("rp_single_k", r["single_k"]), ("rp_single_if_not", _b(nt(r["single_if_not"]))),
        ("rp_single_ret_v", r["single_ret_v"]), ("rp_single_ret", r["single_ret"]),
        ("rp_nkeep0", r["nkeep0"]), ("rp_val0", r["val0"]), ("rp_f0", r["f0"]), ("rp_range_lo", r["range_lo"]),
        ("rp_ne_op", CMP[r["ne_op"]]), ("rp_flag_op", CMP[r["flag_op"]]), ("rp_nkeep_step", r["nkeep_step"]),
        ("rp_slice_lo", r["slice_lo"]), ("rp_slice_plus", r["slice_plus"]),
        ("rp_values_if_not", _b(nt(r["values_if_not"]))),
        ("rp_keep_new_via_s", _b(r["keep_new"] != "i")), ("rp_keep_upd_via_s", _b(r["keep_upd"] != "i")),
        ("rp_sort_result", _b(r["?s.sort()"])),
    ]
    for k in p:
        for nm, v in p[k]:
            if re.fullmatch(r"\d+", v) and int(v) > 1000:
                raise TranslateError("%s: constant %s = %s is outside the modelled range" % (k, nm, v))
    return p


def _ret_swap(r1, r2):
    if (r1, r2) == ("sub1", "sub2"):
        return "false"
    if (r1, r2) == ("sub2", "sub1"):
        return "true"
    raise TranslateError("match: returns (%s, %s)" % (r1, r2))


def _b(x):
    return "true" if x else "false"


def _conn(x):
    return "COr" if x == "or" else "CAnd"


RECORD = {"match": ("gen_match", "mparams"), "match_multi": ("gen_match_multi", "mmparams"),
          "unique": ("gen_unique", "uparams"), "rem_dup": ("gen_rem_dup", "rparams")}


def gen_text(p):
    L = ["(* GENERATED by harness/props/c06_translate.py from esutil/numpy_util.py -- do not edit by hand.",
         "   Decision structure and constants of match / match_multi / unique / rem_dup read out of the source of",
         "   the working tree that is being checked (Skel.v says what each field means, Tie.v what is proved). *)",
         "From EsVerif.Common Require Import Base.",
         "From EsVerif.C06 Require Import Skel.",
         ""]
    for k in ("match", "match_multi", "unique", "rem_dup"):
        nm, ty = RECORD[k]
        L.append("Definition %s : %s := {|" % (nm, ty))
        L.append(";\n".join("  %s := %s" % (f, v if " " not in v else "(%s)" % v) for f, v in p[k]))
        L.append("|}.")
        L.append("")
    return "\n".join(L)


# what the hand model is written for (= what is read from a tree that has fix ab20950); used ONLY when the
# translation fails, so that Gen.v never keeps the parameters of another tree checked earlier
REFERENCE = {
    "match": [("mp_presorted_default", "false"), ("mp_el_index", "0"), ("mp_classes", "mkCls true true"),
              ("mp_str_then", "true"), ("mp_str_else", "false"),
              ("mp_empty_op1", "CEq"), ("mp_empty_k1", "0"), ("mp_empty_conn", "COr"), ("mp_empty_op2", "CEq"),
              ("mp_empty_k2", "0"), ("mp_empty_err", "EValue"), ("mp_uniq_op", "CNe"), ("mp_uniq_err", "EValue"),
              ("mp_sort_if_not", "true"), ("mp_side", "SLeft"), ("mp_clamp_conn", "COr"), ("mp_clamp_op", "CGt"),
              ("mp_bad_op", "CEq"), ("mp_clamp_minus", "1"), ("mp_filter_if_not", "true"),
              ("mp_eq_sorted", "CEq"), ("mp_eq_presorted", "CEq"), ("mp_el_first", "true"),
              ("mp_f_sorted", "XAt (XSt1) (XSub1)"), ("mp_r_sorted", "XAt (XSt1) (XAt (XSub1) (XSub2))"),
              ("mp_f_presorted", "XSub1"), ("mp_r_presorted", "XAt (XSub1) (XSub2)"), ("mp_ret_swap", "false")],
    "match_multi": [("mm_presorted_default", "false"), ("mm_pass", "PassConst false")],
    "unique": [("up_values_default", "false"), ("up_val_start", "UViaSort 0"), ("up_keep0_pos", "0"),
               ("up_keep0_start", "UViaSort 0"), ("up_i0", "1"), ("up_nkeep0", "0"), ("up_while_op", "CLt"),
               ("up_ne_op", "CNe"), ("up_nkeep_step", "1"), ("up_i_step", "1"), ("up_slice_lo", "0"),
               ("up_slice_plus", "1"), ("up_values_if_not", "false")],
    "rem_dup": [("rp_values_default", "false"), ("rp_single_op", "CEq"), ("rp_single_k", "1"),
                ("rp_single_if_not", "false"), ("rp_single_ret_v", "0"), ("rp_single_ret", "0"), ("rp_nkeep0", "0"),
                ("rp_val0", "0"), ("rp_f0", "0"), ("rp_range_lo", "1"), ("rp_ne_op", "CNe"), ("rp_flag_op", "CGt"),
                ("rp_nkeep_step", "1"), ("rp_slice_lo", "0"), ("rp_slice_plus", "1"), ("rp_values_if_not", "false"),
                ("rp_keep_new_via_s", "false"), ("rp_keep_upd_via_s", "false"), ("rp_sort_result", "true")],
}


def differences(p):
    """[function.field = value (modelled: value)] for every parameter that differs from the modelled one"""
    out = []
    for k in REFERENCE:
        ref = dict(REFERENCE[k])
        for f, v in p.get(k, []):
            if ref.get(f) != v:
                out.append("%s.%s = %s (modelled: %s)" % (k, f, v, ref.get(f)))
    return out


def _write(coqdir, txt):
    dst = os.path.join(coqdir, "theories", "C06", "Gen.v")
    old = open(dst).read() if os.path.exists(dst) else None
    if old == txt:
        return False
    tmp = dst + ".tmp.%d" % os.getpid()
    with open(tmp, "w") as f:
        f.write(txt)
    os.replace(tmp, dst)
    return True


def write_reference(coqdir):
    return _write(coqdir, gen_text(REFERENCE))


def regenerate(impl_dir, coqdir):
    """-> (parameters, changed: bool); raises TranslateError"""
    path = os.path.join(impl_dir, "esutil", "numpy_util.py")
    try:
        src = open(path).read()
    except OSError as e:
        raise TranslateError("cannot read %s: %s" % (path, e))
    try:
        p = extract(src)
    except SyntaxError as e:
        raise TranslateError("numpy_util.py does not parse: %s" % e)
    return p, _write(coqdir, gen_text(p))


if __name__ == "__main__":
    import sys
    print(gen_text(extract(open(sys.argv[1]).read())))

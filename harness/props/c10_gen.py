"""C10 -- header / position / history generators and a plain-float FITS reference used ONLY to
place inputs (sky positions inside the footprint, the pixel of a celestial pole); no verdict is
ever taken from these floats.  Everything is a deterministic function of the PRNG handed in."""
import math

SUPPORTED_PV = [0, 1, 2, 4, 5, 6, 7, 8, 9, 10]
PV_DEGREE = {0: 0, 1: 1, 2: 1, 4: 2, 5: 2, 6: 2, 7: 3, 8: 3, 9: 3, 10: 3}

CRVAL_FAMILIES = ["sphere", "npole", "spole", "pole-exact", "seam0", "seam359.999"]
KINDS = ["tan", "tpv", "tan-pv", "tpv-sparse", "tpv-axis2", "sip", "sip-noinv", "sip-bonly"]


def gen_cd(r):
    """rotation by any angle, optional flip, pixel scale 0.05-2 arcsec, slightly unequal axes"""
    scale = math.exp(r.uniform(math.log(0.05), math.log(2.0))) / 3600.0
    th = r.choice([r.uniform(0.0, 2 * math.pi), r.choice([0.0, math.pi / 2, math.pi, 3 * math.pi / 2])])
    flip = r.choice([1.0, -1.0])
    sx = scale * r.uniform(0.97, 1.03)
    c, s = math.cos(th), math.sin(th)
    return [c * flip * sx, -s * scale, s * flip * sx, c * scale]


def gen_crval(r, fam):
    if fam == "sphere":
        return r.uniform(0.0, 360.0), math.degrees(math.asin(r.uniform(-1.0, 1.0)))
    if fam == "npole":
        return r.uniform(0.0, 360.0), r.uniform(89.9, 90.0)
    if fam == "spole":
        return r.uniform(0.0, 360.0), -r.uniform(89.9, 90.0)
    if fam == "pole-exact":
        return r.uniform(0.0, 360.0), r.choice([90.0, -90.0])
    if fam == "seam0":
        return 0.0, r.uniform(-85.0, 85.0)
    return 359.999, r.uniform(-85.0, 85.0)


NAX_SHAPES = [(2048, 4096), (1024, 1024), (4096, 2048), (256, 256), (512, 300), (1024, 4096), (4096, 1024), (300, 512)]
NAX_NONSQUARE = [(2048, 4096), (4096, 2048), (1024, 4096), (4096, 1024), (300, 512), (512, 300)]


def gen_header(r, kind, crfam, cpfam, nax=None):
    """-> dict with lower-case FITS keys, as esutil's tests build it"""
    if nax is None:
        nax = r.choice(NAX_SHAPES)
    cd = gen_cd(r)
    scale = math.sqrt(abs(cd[0] * cd[3] - cd[1] * cd[2]))
    crval = gen_crval(r, crfam)
    if cpfam == "inside":
        cp = (r.uniform(1.0, nax[0]), r.uniform(1.0, nax[1]))
    else:
        # far outside: up to 20000 px; for distorted headers the field radius stays below 1.5 deg
        mx = 20000.0 if kind == "tan" else min(20000.0, 1.5 / scale)
        lo = min(3000.0, mx / 2)
        cp = (r.choice([-1, 1]) * r.uniform(lo, mx), r.choice([-1, 1]) * r.uniform(lo, mx))
    if kind in ("tan", "tan-pv"):
        proj = "TAN"
    elif kind.startswith("tpv"):
        proj = "TPV"
    else:
        proj = "TAN-SIP"
    h = {"naxis1": nax[0], "naxis2": nax[1], "ctype1": "RA---" + proj, "ctype2": "DEC--" + proj,
         "crpix1": cp[0], "crpix2": cp[1], "crval1": crval[0], "crval2": crval[1],
         "cd1_1": cd[0], "cd1_2": cd[1], "cd2_1": cd[2], "cd2_2": cd[3], "cunit1": "deg", "cunit2": "deg"}
    R = max(abs(1 - cp[0]), abs(nax[0] - cp[0]), abs(1 - cp[1]), abs(nax[1] - cp[1]))   # pixels
    Rd = R * scale * 1.5                                                                # degrees
    if kind in ("tpv", "tan-pv", "tpv-sparse", "tpv-axis2"):
        # realistic magnitude: every non-linear term moves a point at the field edge by at most a
        # few per cent of the field radius (DECam: ~2 per cent at 1 degree)
        for ax in (1, 2):
            if kind == "tpv-axis2" and ax == 1:
                continue
            for k in SUPPORTED_PV:
                fr = r.choice([1e-3, 1e-2, 3e-2])
                d = PV_DEGREE[k]
                if d == 0:
                    v = r.uniform(-1, 1) * fr * Rd
                elif k == 1:
                    v = 1 + r.uniform(-0.03, 0.03)
                elif k == 2:
                    v = r.uniform(-0.02, 0.02)
                else:
                    v = r.uniform(-1, 1) * fr / Rd ** (d - 1)
                if kind in ("tpv-sparse", "tpv-axis2"):
                    if k == 1 or r.random() < 0.55:
                        continue                      # PVi_1 omitted: defaults to 1
                h["pv%d_%d" % (ax, k)] = v
            if kind == "tpv" and r.random() < 0.3:
                h["pv%d_3" % ax] = 0.0                # scamp writes the radial terms as 0
        if kind in ("tpv-sparse", "tpv-axis2") and not any(k.startswith("pv2_") for k in h):
            h["pv2_4"] = r.uniform(-1, 1) * 1e-2 / Rd
        if kind == "tpv-sparse" and not any(k.startswith("pv1_") for k in h):
            h["pv1_5"] = r.uniform(-1, 1) * 1e-2 / Rd
    if kind.startswith("sip"):
        order = r.choice([2, 3, 4, 5])
        h["a_order"] = order
        h["b_order"] = order if r.random() < 0.8 else r.choice([2, 3, 4])
        if kind == "sip":
            h["ap_order"] = order
            h["bp_order"] = order
            if r.random() < 0.5:                      # a (crude) inverse in the header: never used for outputs
                h["ap_1_0"] = r.uniform(-1, 1) * 1e-6
                h["bp_0_1"] = r.uniform(-1, 1) * 1e-6
        for pre in "ab":
            if kind == "sip-bonly" and pre == "a":
                continue
            o = h[pre + "_order"]
            for p in range(o + 1):
                for q in range(o + 1 - p):
                    if p + q < 2 or r.random() < 0.15:
                        continue
                    # up to a few pixels of distortion at the field edge
                    h["%s_%d_%d" % (pre, p, q)] = r.uniform(-1, 1) * r.choice([0.3, 3.0]) / R ** (p + q) / o
            if not any(k.startswith(pre + "_") and not k.endswith("order") for k in h):
                h["%s_2_0" % pre] = 0.5 / R ** 2
    return h


def header_kind(h):
    proj = h["ctype1"][5:]
    if proj == "TAN-SIP":
        return "sip"
    if any(k.startswith("pv1_") or k.startswith("pv2_") for k in h):
        return "pv"
    return "tan"


def const_free(h):
    """the convention maps the reference pixel to intermediate coordinates (0,0)"""
    return all(float(h.get(k, 0.0)) == 0.0 for k in ("pv1_0", "pv2_0", "a_0_0", "b_0_0"))


# ----------------------------------------------------------------------------
# plain-float reference (input placement only)
# ----------------------------------------------------------------------------

def ref_intermediate(h, x, y):
    u, v = x - h["crpix1"], y - h["crpix2"]
    if h["ctype1"][5:] == "TAN-SIP":
        oa, ob = h["a_order"], h["b_order"]
        f = sum(h.get("a_%d_%d" % (p, q), 0.0) * u ** p * v ** q for p in range(oa + 1) for q in range(oa + 1 - p))
        g = sum(h.get("b_%d_%d" % (p, q), 0.0) * u ** p * v ** q for p in range(ob + 1) for q in range(ob + 1 - p))
        u, v = u + f, v + g
        return h["cd1_1"] * u + h["cd1_2"] * v, h["cd2_1"] * u + h["cd2_2"] * v
    a = h["cd1_1"] * u + h["cd1_2"] * v
    b = h["cd2_1"] * u + h["cd2_2"] * v

    def pv(ax, k):
        return h.get("pv%d_%d" % (ax, k), 1.0 if k == 1 else 0.0)

    def poly(ax, s, t):
        return (pv(ax, 0) + pv(ax, 1) * s + pv(ax, 2) * t + pv(ax, 4) * s * s + pv(ax, 5) * s * t + pv(ax, 6) * t * t
                + pv(ax, 7) * s ** 3 + pv(ax, 8) * s * s * t + pv(ax, 9) * s * t * t + pv(ax, 10) * t ** 3)
    return poly(1, a, b), poly(2, b, a)


def ref_sky(h, x, y, distort=True):
    """(lon, lat) in degrees by gnomonic deprojection about CRVAL"""
    if distort:
        xi, eta = ref_intermediate(h, x, y)
    else:
        u, v = x - h["crpix1"], y - h["crpix2"]
        xi, eta = h["cd1_1"] * u + h["cd1_2"] * v, h["cd2_1"] * u + h["cd2_2"] * v
    X, Y = math.radians(xi), math.radians(eta)
    a0, d0 = math.radians(h["crval1"]), math.radians(h["crval2"])
    vx = math.cos(d0) * math.cos(a0) - X * math.sin(a0) - Y * math.sin(d0) * math.cos(a0)
    vy = math.cos(d0) * math.sin(a0) + X * math.cos(a0) - Y * math.sin(d0) * math.sin(a0)
    vz = math.sin(d0) + Y * math.cos(d0)
    lon = math.degrees(math.atan2(vy, vx)) % 360.0
    if lon >= 360.0:
        lon = 0.0
    lat = math.degrees(math.atan2(vz, math.hypot(vx, vy)))
    return lon, lat


def ref_pole_pixel(h):
    """pixel of the celestial pole nearest to CRVAL (None when not on the tangent plane / not found)"""
    d0 = math.radians(h["crval2"])
    sgn = 1.0 if h["crval2"] >= 0 else -1.0
    # tangent-plane coordinates of the pole: xi = 0, eta = +-cot(|d0|) ... (towards the pole)
    if abs(h["crval2"]) < 1.0:
        return None
    eta = sgn * math.degrees(math.cos(d0) / abs(math.sin(d0)))
    xi = 0.0
    det = h["cd1_1"] * h["cd2_2"] - h["cd1_2"] * h["cd2_1"]
    x, y = h["crpix1"], h["crpix2"]
    for _ in range(60):
        a, b = ref_intermediate(h, x, y)
        da, db = xi - a, eta - b
        dx = (h["cd2_2"] * da - h["cd1_2"] * db) / det
        dy = (-h["cd2_1"] * da + h["cd1_1"] * db) / det
        x, y = x + dx, y + dy
        if not (math.isfinite(x) and math.isfinite(y)) or abs(x) > 1e7 or abs(y) > 1e7:
            return None
        if abs(dx) + abs(dy) < 1e-9:
            return x, y
    return None


def in_image(h, x, y):
    return 1.0 <= x <= h["naxis1"] and 1.0 <= y <= h["naxis2"]


def gen_points(r, h, n, special=True):
    """positions in the image: corners, centre, the reference pixel when inside, pixels next to a
    celestial pole when the image contains one, then uniform"""
    nx, ny = float(h["naxis1"]), float(h["naxis2"])
    pts = []
    if special:
        pts += [[1.0, 1.0], [nx, ny], [1.0, ny], [nx, 1.0], [(nx + 1) / 2, (ny + 1) / 2]]
        if in_image(h, h["crpix1"], h["crpix2"]):
            pts.append([h["crpix1"], h["crpix2"]])
        # pixels on the row / column through the reference pixel: for an unrotated CD matrix they lie on the
        # meridian RA = CRVAL1 (exactly on the RA = 0 seam for the seam families) or on the parallel's tangent
        for d in (1.0, -37.25, 300.5):
            for q in ((h["crpix1"], h["crpix2"] + d), (h["crpix1"] + d, h["crpix2"])):
                if in_image(h, q[0], q[1]) and len(pts) < n + 4:
                    pts.append([q[0], q[1]])
        pp = ref_pole_pixel(h)
        if pp is not None:
            for dx, dy in ((0.3, 0.2), (-2.0, 3.0), (0.01, 0.0), (5.0, -7.0), (-0.4, -0.1), (40.0, -30.0)):
                if in_image(h, pp[0] + dx, pp[1] + dy):
                    pts.append([pp[0] + dx, pp[1] + dy])
    while len(pts) < n:
        pts.append([r.uniform(1.0, nx), r.uniform(1.0, ny)])
    return pts


def gen_history(r, h, nmax=12):
    """operations on one object: image2sky / sky2image(find, distort) / get_jacobian, scalar or
    short array arguments; sky positions are placed inside the footprint by the float reference"""
    ops = []
    distorted = header_kind(h) != "tan"
    for _ in range(r.randrange(2, nmax + 1)):
        kind = r.choice(["i2s", "s2i", "s2i", "jac"] + (["inv"] if distorted else []))
        if kind == "inv":
            ops.append({"op": "inv", "arr": False, "pts": [], "distort": True})     # explicit InvertDistortion()
            continue
        npt = r.choice([0, 0, 1, 3])        # 0 = scalar call
        pts = [[r.uniform(1.0, h["naxis1"]), r.uniform(1.0, h["naxis2"])] for _ in range(max(npt, 1))]
        if kind == "s2i":
            sky = [list(ref_sky(h, p[0], p[1])) for p in pts]
            ops.append({"op": "s2i", "arr": npt > 0, "pts": sky, "distort": r.random() < 0.7, "find": r.random() < 0.5,
                        "xtol": r.choice([None, None, 1e-10, 1e-12, 1e-6, 0.0])})
        else:
            ops.append({"op": kind, "arr": npt > 0, "pts": pts, "distort": r.random() < 0.7})
    return ops


def poly_eval(m, x, y):
    """sum m[i][j] x^i y^j (plain floats / numpy arrays)"""
    tot = 0.0 * x
    for i, row in enumerate(m):
        for j, a in enumerate(row):
            if a != 0.0:
                tot = tot + a * x ** i * y ** j
    return tot


def fit_rms(h, name, ap, bp, ngrid=24):
    """rms (pixels) over a grid on the image of: fitted inverse polynomial (ap, bp as the object holds them)
    applied to the convention's forward distortion, minus the identity.  Independent of the code's inverse
    chain; used only as the yardstick "fitted-polynomial accuracy" of the find=False round trip."""
    import numpy as np
    xs = np.linspace(1.0, float(h["naxis1"]), ngrid)
    ys = np.linspace(1.0, float(h["naxis2"]), ngrid)
    X, Y = np.meshgrid(xs, ys)
    X, Y = X.ravel(), Y.ravel()
    u, v = X - h["crpix1"], Y - h["crpix2"]
    if name == "sip":
        oa, ob = h["a_order"], h["b_order"]
        f = sum(h.get("a_%d_%d" % (p, q), 0.0) * u ** p * v ** q for p in range(oa + 1) for q in range(oa + 1 - p))
        gg = sum(h.get("b_%d_%d" % (p, q), 0.0) * u ** p * v ** q for p in range(ob + 1) for q in range(ob + 1 - p))
        U, V = u + f, v + gg
        ub = U + poly_eval(ap, U, V)
        vb = V + poly_eval(bp, U, V)
        err2 = (ub - u) ** 2 + (vb - v) ** 2
    else:
        a = h["cd1_1"] * u + h["cd1_2"] * v
        b = h["cd2_1"] * u + h["cd2_2"] * v
        xi, eta = ref_intermediate(h, X, Y)
        da = poly_eval(ap, xi, eta) - a
        db = poly_eval(bp, xi, eta) - b
        det = h["cd1_1"] * h["cd2_2"] - h["cd1_2"] * h["cd2_1"]
        dx = (h["cd2_2"] * da - h["cd1_2"] * db) / det
        dy = (-h["cd2_1"] * da + h["cd1_1"] * db) / det
        err2 = dx ** 2 + dy ** 2
    return float(np.sqrt(err2.mean()))


def _design(a, b, order, constant):
    import numpy as np
    cols = []
    for o in range(0 if constant else 1, order + 1):
        for j in range(o + 1):
            cols.append(a ** (o - j) * b ** j)
    return np.array(cols).T


def forward_order(h):
    """order of the forward polynomial matrix the code holds (a.shape[0] - 1)"""
    return h["a_order"] if h["ctype1"][5:] == "TAN-SIP" else 3


def ref_fit_rms(h, nfit=40, ncheck=27):
    """"fitted-polynomial accuracy", independent of the code's fit: rms residual (pixels, on a separate check grid
    over the WHOLE image [1,NAXIS1] x [1,NAXIS2]) of a least-squares inverse polynomial of the order the code uses
    (forward order + 1; TPV: intermediate -> CD-rotated offsets, with constant; SIP: correction as a function of
    the undistorted pixel offsets, without constant), fitted here with numpy.linalg.lstsq on a grid over the whole
    image.  Only a yardstick for the tolerance of the find=False round trip."""
    import numpy as np
    order = forward_order(h) + 1
    sip = h["ctype1"][5:] == "TAN-SIP"
    det = h["cd1_1"] * h["cd2_2"] - h["cd1_2"] * h["cd2_1"]

    def grid(n, off):
        xs = np.linspace(1.0, float(h["naxis1"]), n)
        ys = np.linspace(1.0, float(h["naxis2"]), n)
        X, Y = np.meshgrid(xs, ys)
        return X.ravel(), Y.ravel()

    def samples(n):
        X, Y = grid(n, 0)
        u, v = X - h["crpix1"], Y - h["crpix2"]
        if sip:
            oa, ob = h["a_order"], h["b_order"]
            f = sum(h.get("a_%d_%d" % (p, q), 0.0) * u ** p * v ** q for p in range(oa + 1) for q in range(oa + 1 - p))
            gg = sum(h.get("b_%d_%d" % (p, q), 0.0) * u ** p * v ** q for p in range(ob + 1) for q in range(ob + 1 - p))
            U, V = u + f, v + gg
            return U, V, u - U, v - V                 # independent variables, targets (pixels)
        a = h["cd1_1"] * u + h["cd1_2"] * v
        b = h["cd2_1"] * u + h["cd2_2"] * v
        xi, eta = ref_intermediate(h, X, Y)
        return xi, eta, a, b                          # targets in degrees

    p1, p2, t1, t2 = samples(nfit)
    if sip:
        c1 = c2 = 0.0                                 # no constant term: the space is not translation invariant
    else:
        c1, c2 = float(p1.mean()), float(p2.mean())
    sc = float(max(np.abs(p1 - c1).max(), np.abs(p2 - c2).max())) or 1.0
    A = _design((p1 - c1) / sc, (p2 - c2) / sc, order, not sip)
    k1 = np.linalg.lstsq(A, t1, rcond=None)[0]
    k2 = np.linalg.lstsq(A, t2, rcond=None)[0]
    p1, p2, t1, t2 = samples(ncheck)
    A = _design((p1 - c1) / sc, (p2 - c2) / sc, order, not sip)
    d1, d2 = A.dot(k1) - t1, A.dot(k2) - t2
    if not sip:
        d1, d2 = (h["cd2_2"] * d1 - h["cd1_2"] * d2) / det, (-h["cd2_1"] * d1 + h["cd1_1"] * d2) / det
    return float(np.sqrt((d1 ** 2 + d2 ** 2).mean()))


def gen_seam_meridian(r):
    """header whose reference point is on the RA = 0 seam written as 0.0 or 360.0, exactly axis-aligned CD matrix
    (all four sign combinations), reference pixel inside; pixels exactly on the column and the row through the
    reference pixel (the column is the meridian RA = CRVAL1), spread over the whole image"""
    kind = r.choice(["tan", "tan", "sip", "tpv"])
    h = gen_header(r, kind, "seam0", "inside")
    h["crval1"] = r.choice([0.0, 360.0])
    scale = math.exp(r.uniform(math.log(0.05), math.log(2.0))) / 3600.0
    h["cd1_1"], h["cd1_2"], h["cd2_1"], h["cd2_2"] = r.choice([-1.0, 1.0]) * scale, 0.0, 0.0, r.choice([-1.0, 1.0]) * scale
    h["crpix1"] = float(r.randrange(2, int(h["naxis1"]) - 1)) + r.choice([0.0, 0.5])
    h["crpix2"] = float(r.randrange(2, int(h["naxis2"]) - 1)) + r.choice([0.0, 0.5])
    pts = [[h["crpix1"], h["crpix2"]]]
    for d in (1.0, -1.0, 7.5, -33.0, 250.0, -250.0):
        if in_image(h, h["crpix1"], h["crpix2"] + d):
            pts.append([h["crpix1"], h["crpix2"] + d])
        if in_image(h, h["crpix1"] + d, h["crpix2"]):
            pts.append([h["crpix1"] + d, h["crpix2"]])
    pts.append([h["crpix1"], 1.0])
    pts.append([h["crpix1"], float(h["naxis2"])])
    return h, "%s/seam-meridian%s/inside" % (kind, "360" if h["crval1"] else "0"), pts


# ----------------------------------------------------------------------------
# reference inverse fit: the documented method (normal equations of a full 2-d polynomial one order above the
# forward one, on a (2 (order + 2) 5)^2 grid), re-implemented here over the WHOLE image rectangle
# ----------------------------------------------------------------------------

def _code_grid(n, lo, hi):
    import numpy as np
    rng = np.arange(n, dtype="f8")
    a = (hi - lo) / (rng.max() - rng.min())
    b = (rng.max() * lo - rng.min() * hi) / (rng.max() - rng.min())
    return rng * a + b


def _xy_grid(n, xr, yr):
    import numpy as np
    ones = np.ones(n, dtype="f8")
    x = np.outer(_code_grid(n, xr[0], xr[1]), ones).flatten("F")
    y = np.outer(ones, _code_grid(n, yr[0], yr[1])).flatten("F")
    return x, y


def _normal_fit(p1, p2, t1, t2, order, constant):
    import numpy as np
    rows = [np.ones(p1.size)] if constant else []
    for o in range(1, order + 1):
        for j in range(o + 1):
            rows.append(p1 ** (o - j) * p2 ** j)
    A = np.array(rows)
    ata = np.inner(A, A)
    k1 = np.linalg.solve(ata, np.inner(A, t1))
    k2 = np.linalg.solve(ata, np.inner(A, t2))
    m1 = [[0.0] * (order + 1) for _ in range(order + 1)]
    m2 = [[0.0] * (order + 1) for _ in range(order + 1)]
    kk = 0
    for o in range(0 if constant else 1, order + 1):
        for j in range(o + 1):
            m1[o - j][j] = float(k1[kk])
            m2[o - j][j] = float(k2[kk])
            kk += 1
    return m1, m2


def pv_matrices(h):
    """forward coefficient matrices a[i][j] (x^i y^j) of a TPV header, PVi_1 defaulting to 1"""
    loc1 = {0: (0, 0), 1: (1, 0), 2: (0, 1), 4: (2, 0), 5: (1, 1), 6: (0, 2), 7: (3, 0), 8: (2, 1), 9: (1, 2), 10: (0, 3)}
    a = [[0.0] * 4 for _ in range(4)]
    b = [[0.0] * 4 for _ in range(4)]
    for k, (i, j) in loc1.items():
        a[i][j] = float(h.get("pv1_%d" % k, 1.0 if k == 1 else 0.0))
        b[j][i] = float(h.get("pv2_%d" % k, 1.0 if k == 1 else 0.0))
    return a, b


def reference_inverse(h, fac=5, w=None):
    """-> (name, ap, bp): inverse coefficient matrices by the documented method over the image rectangle.
    SIP: the undistorted pixel positions of the grid are, as documented, obtained through the sky (image2sky
    then sky2image(distort=False, find=False) of the object w, both certified separately); without w they are
    computed directly from the header."""
    nx, ny = float(h["naxis1"]), float(h["naxis2"])
    if h["ctype1"][5:] == "TAN-SIP":
        oa, ob = h["a_order"], h["b_order"]
        ng = 2 * (oa + 2) * fac
        x, y = _xy_grid(ng, (1.0, nx), (1.0, ny))
        u, v = x - h["crpix1"], y - h["crpix2"]
        if w is not None:
            lon, lat = w.image2sky(x, y)
            xb, yb = w.sky2image(lon, lat, distort=False, find=False)
            U, V = xb - h["crpix1"], yb - h["crpix2"]
            ap, bp = _normal_fit(U, V, x - xb, y - yb, oa + 1, False)
            return "sip", ap, bp
        f = sum(h.get("a_%d_%d" % (p, q), 0.0) * u ** p * v ** q for p in range(oa + 1) for q in range(oa + 1 - p))
        gg = sum(h.get("b_%d_%d" % (p, q), 0.0) * u ** p * v ** q for p in range(ob + 1) for q in range(ob + 1 - p))
        U, V = u + f, v + gg
        ap, bp = _normal_fit(U, V, u - U, v - V, oa + 1, False)
        return "sip", ap, bp
    ng = 2 * (3 + 2) * fac
    xd, yd = _xy_grid(ng, (1.0 - h["crpix1"], nx - h["crpix1"]), (1.0 - h["crpix2"], ny - h["crpix2"]))
    u = h["cd1_1"] * xd + h["cd1_2"] * yd
    v = h["cd2_1"] * xd + h["cd2_2"] * yd
    a, b = pv_matrices(h)
    up, vp = poly_eval(a, u, v), poly_eval(b, u, v)
    ap, bp = _normal_fit(up, vp, u, v, 4, True)
    return "scamp", ap, bp


def ref_fit_yardstick(h, w=None):
    name, ap, bp = reference_inverse(h, w=w)
    return fit_rms(h, name, ap, bp)


def gen_history_orders(r, h):
    """one call of each kind -- image2sky(distort=True/False), sky2image(find=True/False x distort=True/False),
    get_jacobian(distort=True/False), InvertDistortion() -- on the same positions, in a random order (every order is
    reachable), followed by a repetition of the first two"""
    def pts(n):
        return [[r.uniform(1.0, h["naxis1"]), r.uniform(1.0, h["naxis2"])] for _ in range(n)]

    def sky(n):
        return [list(ref_sky(h, p[0], p[1])) for p in pts(n)]
    arr = r.random() < 0.5
    n = 3 if arr else 1
    # the SAME pixel positions / sky positions for every flag combination (a cache keyed on the positions only,
    # or state left behind by one flag combination, shows up as a difference from a fresh object)
    P, S = pts(n), sky(n)
    ops = [{"op": "i2s", "arr": arr, "pts": P, "distort": True},
           {"op": "i2s", "arr": arr, "pts": P, "distort": False},
           {"op": "s2i", "arr": arr, "pts": S, "distort": True, "find": True},
           {"op": "s2i", "arr": arr, "pts": S, "distort": True, "find": True, "xtol": r.choice([1e-10, 1e-12, 1e-14, 1e-5])},
           {"op": "s2i", "arr": arr, "pts": S, "distort": False, "find": True},
           {"op": "s2i", "arr": arr, "pts": S, "distort": True, "find": False},
           {"op": "s2i", "arr": arr, "pts": S, "distort": False, "find": False},
           {"op": "jac", "arr": arr, "pts": P, "distort": True},
           {"op": "jac", "arr": arr, "pts": P, "distort": False}]
    if header_kind(h) != "tan":
        ops.append({"op": "inv", "arr": False, "pts": [], "distort": True})
    r.shuffle(ops)
    return ops + [dict(ops[0]), dict(ops[1])]


# ----------------------------------------------------------------------------
# wave 3: sequences over several objects in one process, xtol values, special points
# ----------------------------------------------------------------------------

XTOLS = [0.0, 1e-14, 1e-12, 0.0, 1e-10, 1e-14, 1e-9, 0.0, 1e-6, 1e-4]      # sky2image(find=True, xtol=...)


def lookalikes(r, kind0="tpv"):
    """headers that share everything a coarse cache key might use (NAXIS, CRPIX, CRVAL, CD, key names) but differ
    in what matters: [TPV, the same without PV keys (plain TAN), the same PV keys with other values, the same linear
    part with SIP coefficients, the same with the CD matrix rotated]"""
    h0 = gen_header(r, kind0, r.choice(CRVAL_FAMILIES), "inside", nax=r.choice([(1024, 1024), (512, 300), (2048, 4096)]))
    lin = {k: v for k, v in h0.items() if not k.startswith("pv")}
    h_tan = dict(lin, ctype1="RA---TAN", ctype2="DEC--TAN")
    h_pv2 = dict(h0)
    for k in h0:
        if k.startswith("pv") and k.split("_")[1] not in ("1",):
            h_pv2[k] = h0[k] * r.uniform(0.3, 0.7)
    hs = gen_header(r, "sip-noinv", "sphere", "inside", nax=(h0["naxis1"], h0["naxis2"]))
    h_sip = dict(lin, ctype1="RA---TAN-SIP", ctype2="DEC--TAN-SIP")
    for k, v in hs.items():
        if k.split("_")[0] in ("a", "b"):
            h_sip[k] = v
    h_cd = dict(h0, cd1_1=-h0["cd1_2"], cd1_2=h0["cd1_1"], cd2_1=-h0["cd2_2"], cd2_2=h0["cd2_1"])
    return [h0, h_tan, h_pv2, h_sip, h_cd]


def gen_sequence(r, nsteps=14):
    """-> {"headers", "order", "dictreuse", "steps"}: several objects built in ONE process (in `order`; with dictreuse
    from one dict object that is changed in place between the constructions), then calls interleaved over the
    objects.  Array arguments live in a few shared buffers that are overwritten in place between calls (same object,
    new contents; contents with equal length and equal first / last elements), scalars are python floats."""
    hs = lookalikes(r)
    hs = [hs[0], hs[1], hs[r.choice([2, 3, 4])]]      # TPV, its plain-TAN look-alike, one more (each costs a fresh process)
    r_ = list(range(len(hs)))
    order = r_[:]
    r.shuffle(order)
    if r.random() < 0.5:                   # the distorted object first, the plain TAN look-alike right after it
        order = [0, 1] + [i for i in order if i not in (0, 1)]
    steps = []
    first = {}
    for _ in range(nsteps):
        i = r.choice(r_)
        h = hs[i]
        op = r.choice(["i2s", "i2s", "s2i", "s2i", "jac"])
        arr = r.random() < 0.6
        n = 4 if arr else 1
        pts = [[r.uniform(1.0, h["naxis1"]), r.uniform(1.0, h["naxis2"])] for _ in range(n)]
        key = "px" if op != "s2i" else "sky"
        if op == "s2i":
            pts = [list(ref_sky(h, p[0], p[1])) for p in pts]
        if arr and key in first and r.random() < 0.5:      # equal length, equal first and last element
            pts[0], pts[-1] = list(first[key][0]), list(first[key][-1])
        if arr:
            first.setdefault(key, pts)
        st = {"obj": i, "op": op, "arr": arr, "pts": pts, "distort": r.random() < 0.7, "find": r.random() < 0.6,
              "xtol": r.choice([None, None, 1e-10, 1e-12, 1e-6]), "buf": "%s%d" % (key, r.randrange(2))}
        if op == "jac":
            st["step"] = r.choice([1.0, 0.5, 2.0])
        steps.append(st)
    return {"headers": hs, "order": order, "dictreuse": r.random() < 0.5, "steps": steps}


def gen_special(r):
    """exact special values: CRVAL at 0.0 / -0.0 (both axes), CRPIX exactly 0.0, pixels exactly 0.0, exactly CRPIX,
    coefficient sets that are present but neutral (TPV identity: PVi_1 = 1.0 and explicit 0.0 elsewhere; SIP with only
    zero coefficients)"""
    kind = r.choice(["tan", "tpv-identity", "sip-zero", "tpv", "sip"])
    base = {"tpv-identity": "tan", "sip-zero": "sip-noinv"}.get(kind, kind)
    h = gen_header(r, base, "sphere", "inside", nax=(1024, 1024))
    h["crval1"] = r.choice([0.0, -0.0, 180.0])
    h["crval2"] = r.choice([0.0, -0.0])
    h["crpix1"], h["crpix2"] = r.choice([(0.0, 0.0), (0.0, 512.0), (512.0, -0.0)])
    if kind == "tpv-identity":
        h["ctype1"], h["ctype2"] = "RA---TPV", "DEC--TPV"
        for ax in (1, 2):
            for k in SUPPORTED_PV:
                h["pv%d_%d" % (ax, k)] = 1.0 if k == 1 else 0.0
    if kind == "sip-zero":
        for k in [k for k in h if k.split("_")[0] in ("a", "b") and not k.endswith("order")]:
            h[k] = 0.0
    pts = [[0.0, 0.0], [h["crpix1"], h["crpix2"]], [1.0, 1.0], [0.0, 700.5], [-0.0, 3.0], [512.0, 512.0], [1024.0, 1024.0]]
    return h, "%s/special/inside" % kind, pts


def gen_falsy(r, i):
    """optional cards given EXPLICITLY at 'falsy' values (0, 0.0, -0.0) although the code's default for a missing card is
    not zero, and at other non-default values: TPV with PVi_1 = 0 (axes-exchanged form PVi_2 ~ 1; sheared forms), explicit
    zeros among non-zero coefficients (TPV and SIP), LONPOLE / LATPOLE explicitly 0.  -> (header, family, points)"""
    z = [0.0, -0.0, 0][i % 3]
    var = ["exchanged", "zero-linear-1", "zero-linear-2", "sip-zeros", "exchanged+lonpole0"][i % 5]
    if var == "sip-zeros":
        h = gen_header(r, "sip-noinv", r.choice(CRVAL_FAMILIES), "inside", nax=(1024, 1024))
        ks = [k for k in h if k.split("_")[0] in ("a", "b") and not k.endswith("order")]
        for k in ks[::2]:
            h[k] = z
        h["a_0_1"] = z                      # a card whose default is 0, given as 0
    else:
        h = gen_header(r, "tan", r.choice(CRVAL_FAMILIES), "inside", nax=r.choice([(1024, 1024), (512, 300)]))
        h["ctype1"], h["ctype2"] = "RA---TPV", "DEC--TPV"
        e = lambda s: r.uniform(-s, s)      # noqa
        if var.startswith("exchanged"):
            h.update(pv1_1=z, pv1_2=1 + e(0.02), pv2_1=z, pv2_2=1 + e(0.02), pv1_4=e(1e-2), pv2_6=e(1e-2), pv1_0=z, pv2_0=z)
        elif var == "zero-linear-1":
            h.update(pv1_1=z, pv1_2=r.uniform(0.7, 1.0), pv2_1=1 + e(0.02), pv2_2=r.uniform(0.5, 0.9), pv1_5=e(1e-2))
        else:
            h.update(pv1_1=1 + e(0.02), pv1_2=r.uniform(0.5, 0.9), pv2_1=z, pv2_2=r.uniform(0.7, 1.0), pv2_4=e(1e-2))
        if var.endswith("lonpole0"):
            h["longpole"] = [0.0, 0, -0.0][i % 3]
            h["latpole"] = 0
    return h, "%s/falsy-%s-%r/inside" % ("sip" if var == "sip-zeros" else "tpv", var, z), gen_points(r, h, 7)

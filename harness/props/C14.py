"""C14 — per-bin statistics and equal-occupancy bins equal direct computation (DESIGN.md section 7, C14).

Two entry points, both driving the REAL esutil.stat.Binner / esutil.stat.histogram:
  binned   Binner(x, y=, weights=).dohist(binsize=|nbin=, min=, max=, rev=) [+ calc_stats()]  and
           histogram(x, weights=, more=True, binsize=|nbin=, min=, max=)
  nperbin  the same with nperbin=, mergelast=
Every float travels as a hex literal.  Coq recomputes bin numbers and edges bit-exactly (PrimFloat,
C05's model) and the statistics in exact rationals (C18's wmom1 for the weighted block), compares
them with the reported floats (agree) and evaluates the verified checker of the property on the
reported values with the bin members taken from the DATA (ok).
"""
import math
import os
import warnings

from .. import core
from ..core import cz, clist, cfloat, cbool
from ..runner import Entry, differential
from . import c14_translate

PRE = ("From Coq Require Import PrimFloat QArith.\nFrom EsVerif.Common Require Import Base.\n"
       "From EsVerif.C05 Require Import Model.\nFrom EsVerif.C14 Require Import Model Spec Exec.\n"
       "Open Scope Z_scope.\n")

MAXBIN = 400
# once fixes/C14/0003 is in /repo its witness is moved into the corpus; from then on float32 scalar options are also
# generated next to plain python numbers
SMALL_INT_NBIN = os.path.exists(os.path.join(core.VERIF, "corpus", "C14", "fixed-nbin-small-int-type.json"))
F32_WEAK_MIX = os.path.exists(os.path.join(core.VERIF, "corpus", "C14", "fixed-float32-scalar-limits.json"))


# ----------------------------------------------------------------------------- values
def _num(v):
    return float.fromhex(v) if isinstance(v, str) else v


def _f(v):
    return float(_num(v))


def _enc(v):
    if isinstance(v, float):
        return v.hex()
    return int(v)


def _encl(l):
    return None if l is None else [_enc(v) for v in l]


def cfl(l):
    return clist([_f(v) for v in l], cfloat)


def copt_fl(l):
    return "None" if l is None else "(Some %s)" % cfl(l)


def copt_f(v):
    return "None" if v is None else "(Some %s)" % cfloat(_f(v))


def ccols(c):
    return "(mkCols %s %s %s)" % (cfl(c["x"]), copt_fl(c.get("y")), copt_fl(c.get("w")))


def cmode(c):
    if c["mode"] == "nbin":
        return "(ByNbin %s)" % cz(c["spec"])
    return "(ByBinsize %s)" % cfloat(_f(c["spec"]))


def chexl(l):
    return clist([float.fromhex(v) for v in l], cfloat)


def crows(rows):
    return "[" + "; ".join(chexl(r) for r in rows) + "]"


# ----------------------------------------------------------------------------- python-side expectations
def expected(c):
    """bins of the selected data computed independently (only for the non-triviality rule, the
    family statistics and to keep the number of bins small); None = outside the quantifier"""
    x = [_f(v) for v in c["x"]]
    if not x or any(not math.isfinite(v) for v in x):
        return None
    lo = None if c["min"] is None else _f(c["min"])
    hi = None if c["max"] is None else _f(c["max"])
    sel = sorted(v for v in x if (lo is None or v >= lo) and (hi is None or v <= hi))
    if not sel:
        return None
    excluded = len(x) - len(sel)
    if c["mode"] == "nperbin":
        k = c["spec"]
        if k < 1:
            return None
        n = len(sel)
        q, r = divmod(n, k)
        sizes = [k] * q + ([r] if r else [])
        if r and c["mergelast"] and q >= 1:
            sizes = [k] * (q - 1) + [k + r]
        return {"nbin": len(sizes), "sizes": sizes, "excluded": excluded, "edge": 0,
                "ties": len(sel) - len(set(sel)), "short": 1 if r else 0}
    dmin = min(x) if lo is None else lo
    dmax = max(x) if hi is None else hi
    if c["mode"] == "nbin":
        nbin = c["spec"]
        if nbin < 1:
            return None
        bs = (dmax - dmin) / nbin
    else:
        bs = _f(c["spec"])
        if not bs > 0:
            return None
        q = (dmax - dmin) / bs
        if not (q < 1e9):
            return None
        nbin = int(q) + 1
    sizes = [0] * min(nbin, 100000)
    edge = 0
    for v in sel:
        if bs == 0:
            excluded += 1
            continue
        q = (v - dmin) / bs
        b = math.floor(q) if abs(q) < 1e15 else -1
        if q == b and b > 0:
            edge += 1
        if 0 <= b < nbin and b < len(sizes):
            sizes[b] += 1
        else:
            excluded += 1
    return {"nbin": nbin, "sizes": sizes, "excluded": excluded, "edge": edge,
            "ties": len(sel) - len(set(sel)), "short": 0}


# ----------------------------------------------------------------------------- generators
def _data(r, kind, n):
    if kind == "ints":
        k = r.choice([3, 10, 100, 10**6])
        return [r.randrange(-k, k + 1) for _ in range(n)]
    if kind == "ties":
        k = r.choice([2, 3, 5])
        vals = [r.choice([r.randrange(-5, 6), round(r.uniform(-3, 3), 1)]) for _ in range(k)]
        return [r.choice(vals) for _ in range(n)]
    if kind == "constant":
        return [r.choice([0, 3, -2.5, 1e-3, 7.25, 0.1])] * n
    if kind == "floats":
        s = r.choice([1.0, 1e-3, 1e3, 1e8])
        return [r.uniform(-s, s) for _ in range(n)]
    if kind == "gauss":
        return [r.gauss(0, 1) for _ in range(n)]
    if kind == "decimal":
        return [round(0.1 * r.randrange(0, 40), 1) for _ in range(n)]
    if kind == "sparse":      # clusters far apart: many empty and single-member bins
        cs = [r.uniform(-50, 50) for _ in range(r.randrange(1, 5))]
        return [r.choice(cs) + r.uniform(0, 0.3) for _ in range(n)]
    if kind == "offset":      # ill-conditioned: spread tiny against the magnitude (cancelling formulas lose everything)
        base = r.choice([55000.0, 1e6, 1e8, -3e7, 1e12, 123456789.0])
        t = r.random()
        if t < 0.4:
            return [base + r.random() for _ in range(n)]
        if t < 0.7:
            return [base + r.randrange(0, 7) for _ in range(n)]
        vals = [base + r.choice([0.1, 0.3, 0.7]) for _ in range(3)]
        return [r.choice(vals) for _ in range(n)]
    if kind == "neartie":     # members one or two ulps apart, and exact ties of values that are inexact in binary
        import numpy as np
        base = r.choice([0.1, 0.3, 0.7, 1.1, 1e-3, 2.5e5 + 0.1])
        near = [base, float(np.nextafter(base, 2 * base + 1)), float(np.nextafter(base, -1))]
        more = [base * k for k in (3, 7, 9)]
        return [r.choice(near if r.random() < 0.6 else more) for _ in range(n)]
    raise ValueError(kind)


def _weights(r, n):
    t = r.random()
    if t < 0.2:
        return [r.choice([1, 2, 3, 5]) for _ in range(n)]
    if t < 0.4:
        return [r.uniform(0.01, 10) for _ in range(n)]
    if t < 0.55:
        return [10 ** r.uniform(-6, 6) for _ in range(n)]
    if t < 0.65:
        return [r.choice([0.5, 2.0])] * n
    return [1.0 / (0.01 + r.random()) ** 2 for _ in range(n)]


def _second(r, x):
    t = r.random()
    if t < 0.3:
        return [r.gauss(0, 1) for _ in x]
    if t < 0.5:
        return [2 * float(v) + 1 + r.gauss(0, 0.1) for v in x]
    if t < 0.7:
        return [r.randrange(-9, 10) for _ in x]
    if t < 0.8:
        return [r.choice([1.5, -2])] * len(x)
    if t < 0.9:
        return [r.uniform(-1e6, 1e6) for _ in x]
    base = r.choice([1e6, -55000.0, 1e9])
    return [base + r.gauss(0, 1) for _ in x]


def _limits(r, data, which):
    xs = sorted(float(v) for v in data)
    a, b = xs[0], xs[-1]
    w = (b - a) or 1.0
    intlike = all(isinstance(v, int) for v in data)

    def pick(side):
        t = r.random()
        if t < 0.35 and len(xs) > 2:
            v = r.choice(xs[: len(xs) // 2 + 1] if side == "lo" else xs[len(xs) // 2:])
        elif t < 0.6:
            v = a - r.choice([0.5, 1, 2]) * w * r.random() if side == "lo" else b + r.choice([0.5, 1, 2]) * w * r.random()
        else:
            v = a + w * r.uniform(0, 0.45) if side == "lo" else b - w * r.uniform(0, 0.45)
        if intlike and r.random() < 0.7:
            v = int(math.floor(v)) if side == "lo" else int(math.ceil(v))
        elif r.random() < 0.5:
            v = round(v, 1)
        return v
    lo = pick("lo") if which in ("lo", "both") else None
    hi = pick("hi") if which in ("hi", "both") else None
    return lo, hi


def _spec(r, data, lo, hi, mode):
    xs = [float(v) for v in data]
    a = min(xs) if lo is None else float(lo)
    b = max(xs) if hi is None else float(hi)
    w = abs(b - a)
    if mode == "nbin":
        return r.choice([1, 1, 2, 3, 4, 5, 7, 10, r.randrange(1, 40), r.randrange(1, 120)])
    intlike = all(isinstance(v, int) for v in data)
    if w == 0:
        return r.choice([1, 0.5, 2, 1.0])
    t = r.random()
    if intlike and t < 0.5:
        bs = r.choice([1, 2, 3, 5, 10, 0.5, 0.25])
        while w / bs > 200:
            bs *= 10
        return bs
    if t < 0.75:
        return w / r.choice([1, 2, 3, 4, 5, 8, 10, 16, 50])
    if t < 0.9:
        return float("%.1g" % (w / r.choice([3, 7, 20]))) or 1.0
    return w * r.uniform(0.01, 1.5)


def _fit_form(r, vals, role):
    """an input form for one column that can hold the values exactly: (values, form).  float32 is only chosen for
    values that are float32 numbers already (the generators round first, see _as_f4)"""
    import numpy as np
    n = len(vals)
    intlike = all(isinstance(v, int) for v in vals)
    cont = r.choice(["ndarray"] * 5 + ["list", "list", "tuple"])
    if n == 1 and r.random() < 0.4:
        cont = r.choice(["scalar", "0d"])
    dt, view, ro = None, "contig", False
    if cont in ("ndarray", "0d"):
        if intlike:
            m = max([abs(v) for v in vals] or [0])
            opts = ["i8", "i8", "f8", ">i8", ">f8"]
            if m < 2 ** 31:
                opts += ["i4", ">i4"]
            if m < 2 ** 15:
                opts += ["i2", ">i2"]
            if all(0 <= v <= 255 for v in vals):
                opts += ["u1", "u4"]
            if m < 2 ** 24:
                opts += ["f4", ">f4"]
            if all(v in (0, 1) for v in vals) and role != "w":
                opts += ["bool", "bool"]
        else:
            opts = ["f8", "f8", "f8", ">f8"]
            if all(float(np.float32(v)) == v for v in vals):
                opts += ["f4", "f4", "f4", ">f4"]
        dt = r.choice(opts)
        if cont == "ndarray":
            view = r.choice(["contig"] * 3 + ["strided", "reversed", "strided-reversed"])
            ro = r.random() < 0.25
    return {"container": cont, "dtype": dt, "view": view, "readonly": ro}


def _as_f4(r, vals, p=0.25):
    """with probability p replace float data by their float32 roundings (so that a float32 array can carry them)"""
    import numpy as np
    if vals is None or all(isinstance(v, int) for v in vals) or r.random() >= p:
        return vals
    out = [float(np.float32(v)) for v in vals]
    return out if all(math.isfinite(v) for v in out) else vals


def _num_form(r, v, kind):
    """how a scalar option is passed: python number, numpy scalar, 0-d array"""
    import numpy as np
    if v is None:
        return None
    if kind == "nbin":
        # np.uint8 only once fixes/C14/0004 is in /repo (before it, len(sort index) + nbin + 1 wraps around in uint8
        # and chist writes beyond the reverse-index array: heap corruption, see docs/reports/C14.md)
        opts = ["py", "py", "np.int64", "np.int32"] + (["np.uint8"] if 0 <= v < 256 and SMALL_INT_NBIN else [])
    elif kind == "count":                     # nperbin
        opts = ["py", "py", "np.int64", "np.int32"] + (["np.uint8"] if 0 <= v < 256 else [])
    elif isinstance(v, int):
        opts = ["py", "py", "np.int64", "np.float64", "0d"]
    else:
        opts = ["py", "py", "np.float64", "0d"] + (["np.float32"] if float(np.float32(v)) == v else [])
    return r.choice(opts)


def _mk(r, fam, x, y, w, mode, spec, lo, hi, rev=None, mergelast=True, api=None, plain=False):
    if api is None:
        api = r.choice(["binner", "binner", "binner2", "histogram"])
    if y is not None and api == "histogram":
        api = "binner"
    if rev is None:
        rev = r.random() < 0.8
    if api == "histogram":
        rev = True if w is None else rev          # histogram(more=True) implies rev
    c = {"family": fam, "x": _encl(x), "y": _encl(y), "w": _encl(w), "mode": mode,
         "spec": _enc(spec) if mode == "binsize" else int(spec),
         "min": None if lo is None else _enc(lo), "max": None if hi is None else _enc(hi),
         "rev": bool(rev), "mergelast": bool(mergelast), "api": api,
         "container": r.choice(["ndarray", "list"])}
    if not plain:
        c["forms"] = {"x": _fit_form(r, x, "x"), "y": None if y is None else _fit_form(r, y, "y"),
                      "w": None if w is None else _fit_form(r, w, "w")}
        c["numforms"] = {"min": _num_form(r, lo, "value"), "max": _num_form(r, hi, "value"),
                         "spec": _num_form(r, spec, "value" if mode == "binsize" else "nbin" if mode == "nbin" else "count")}
        # keyword style: defaults omitted or spelled out; None spelled out; a previous call on the same object
        c["kw"] = {"rev_omit": (not rev) and r.random() < 0.5, "mergelast_omit": mergelast and r.random() < 0.5,
                   "none_explicit": r.random() < 0.4, "calc_stats_explicit": r.random() < 0.3}
        if x and r.random() < 0.25:
            # (never a bin SIZE here: on data spanning 1e8 a size of 1 would ask for 1e8 bins)
            c["twice"] = r.choice([{"nbin": 2}, {"nbin": 5, "min": _num(c["x"][0])}, {"nperbin": 2, "mergelast": False},
                                   {"nperbin": 1}, {"nbin": 3, "max": _num(c["x"][-1])}, {"nbin": 1, "rev": True}])
        # numpy 2 promotion: a float32 SCALAR combined only with python numbers makes the arithmetic single precision
        # (dmax - dmin, (dmax - dmin)/binsize); see docs/reports/C14.md "float32 scalar options".  Such combinations are
        # not generated until fixes/C14/0003 is in /repo; float32 scalars next to float64 operands are.
        nfm = c["numforms"]
        strong = ("np.float64", "0d", "np.int64") if not F32_WEAK_MIX else ("np.float64", "0d", "np.int64", "py", None)
        if nfm["min"] == "np.float32" and not (hi is None or nfm["max"] in strong):
            nfm["min"] = "np.float64"
        if nfm["max"] == "np.float32" and not (lo is None or nfm["min"] in strong):
            nfm["max"] = "np.float64"
        if nfm["spec"] == "np.float32" and lo is not None and hi is not None \
                and nfm["min"] not in strong and nfm["max"] not in strong:
            nfm["spec"] = "np.float64"
    return c


def _adversarial_binned(r):
    cs = []
    base = [
        ("design-witness", [0.5, 1.5, 1.6, 2.5], None, [2, 3, 4, 5]),
        ("single", [5], None, None), ("single", [2.5], [1.0], [3.0]), ("single", [0], [7], None),
        ("single-members", [0, 1, 2, 3, 4], [5, 4, 3, 2, 1], [1, 2, 3, 4, 5]),
        ("single-members", [0.25, 1.5, 3.75], None, [0.5, 0.25, 4.0]),
        ("empty-bins", [0, 0.1, 5, 5.1, 9.9], [1, 2, 3, 4, 5], None),
        ("empty-bins", [0, 0, 10, 10, 10, 30], None, [1, 1, 2, 2, 2, 3]),
        ("ties", [1, 1, 2, 2, 2, 1, 3, 3, 1], [9, 8, 7, 6, 5, 4, 3, 2, 1], [1, 2, 1, 2, 1, 2, 1, 2, 1]),
        ("ties", [0.5, 0.25, 0.5, 0.25, 0.75, 0.5], None, None),
        ("constant", [3, 3, 3], [1, 2, 3], [1, 1, 1]), ("constant", [0.1] * 7, None, [0.1] * 7),
        ("edges", [0.0, 0.5, 1.0, 1.5, 2.0, 2.5, 3.0], [0, 1, 0, 1, 0, 1, 0], None),
        ("edges", [0.1 * k for k in range(11)], None, [1 + k for k in range(11)]),
        ("leak", [0, 1, 2, 3, 4], None, None), ("leak", [0, 1, 2, 3, 4, 4, 4], [1, 2, 3, 4, 5, 6, 7], [1] * 7),
        ("negative", [-3.5, -1, -1, 0, 2.25, 8], [1e6, -1e6, 3, 4, 5, 6], [1e-3, 1e3, 1, 1, 1, 2]),
        ("even-odd", [1, 2, 3, 4, 10, 11, 12, 20, 21], None, None),
        ("zero-mean", [-1, 1, -2, 2, 10, -10], [1, -1, 1, -1, 0, 0], [1, 1, 1, 1, 1, 1]),
    ]
    for fam, x, y, w in base:
        for mode, specs in (("nbin", [1, 2, 3, 10]), ("binsize", [1, 0.5, 2, 10])):
            for spec in specs:
                cs.append(_mk(r, "adv:" + fam, x, y, w, mode, spec, None, None, rev=True))
        xs = sorted(float(v) for v in x)
        for lo, hi in [(xs[0], xs[-1]), (xs[len(xs) // 2], None), (None, xs[len(xs) // 2]), (xs[0] - 1, xs[-1] + 1)]:
            cs.append(_mk(r, "adv:%s+limits" % fam, x, y, w, "nbin", r.choice([1, 2, 4]), lo, hi))
            cs.append(_mk(r, "adv:%s+limits" % fam, x, y, w, "binsize", r.choice([1, 0.5, 0.25]), lo, hi))
    # all-tied members in every occupied bin, with weights (weighted deviation must be 0, not the residue of a cancellation)
    tied = [v for v in (0.1, 0.3, 0.7, 1.1, 1.9, 2.3) for _ in range(3)]
    wt = [0.5 + 0.37 * (i % 5) for i in range(len(tied))]
    for bs in (0.05, 0.1, 0.2):
        cs.append(_mk(r, "adv:tied-bins", tied, [1e6 + v for v in tied], wt, "binsize", bs, None, None, rev=True))
    cs.append(_mk(r, "adv:tied-bins", [55000.1] * 4 + [55000.3] * 3, None, [1.0, 2.0, 3.0, 0.5, 1.5, 2.5, 0.25], "nbin", 2, None, None))
    # large offsets
    for base in (55000.0, 1e6, 1e8, 1e12):
        x = [base + 0.37 * k % 1.0 for k in range(9)]
        cs.append(_mk(r, "adv:offset", x, [1e6 + 0.01 * k * k for k in range(9)], [1.0 + 0.1 * k for k in range(9)], "nbin", 2, None, None))
        cs.append(_mk(r, "adv:offset", x, None, [2.0] * 9, "binsize", 0.5, None, None))
    # special points: equal bounds, signed zeros, a bound exactly 0, bin size exactly the range
    eq = [1, 1, 2, 1, 0.5, 1]
    for mode, spec in (("nbin", 1), ("nbin", 3), ("binsize", 1), ("binsize", 0.5)):
        cs.append(_mk(r, "adv:equal-bounds", eq, [3, 4, 5, 6, 7, 8], [1, 2, 3, 4, 5, 6], mode, spec, 1, 1))
        cs.append(_mk(r, "adv:equal-bounds", eq, None, None, mode, spec, 1.0, 1))
    z = [-0.0, 0.0, 0.5, -0.5, 1.0, 0.0]
    for lo, hi in ((-0.0, 1.0), (0.0, None), (None, 0.0), (0, 1), (-0.0, 0.0), (-0.5, -0.0)):
        cs.append(_mk(r, "adv:zero-bounds", z, [1, 2, 3, 4, 5, 6], [1, 1, 2, 2, 3, 3], "binsize", 0.5, lo, hi))
        cs.append(_mk(r, "adv:zero-bounds", z, None, None, "nbin", 2, lo, hi))
    cs.append(_mk(r, "adv:size=range", [0, 1, 2, 3, 4], None, [1, 1, 1, 1, 1], "binsize", 4, None, None))
    cs.append(_mk(r, "adv:size=range", [0.1, 0.4, 0.7], [1, 2, 3], None, "binsize", 0.6, 0.1, 0.7))
    # more bins than any plausible internal block (255 / 256 / 257 / 300 / 399), few data
    for nb in (255, 256, 257, 300, 399):
        n = r.choice([20, 64])
        x = [r.randrange(0, 4000) for _ in range(n)]
        cs.append(_mk(r, "adv:manybins", x, [r.randrange(-9, 10) for _ in x] if nb % 2 else None,
                      [r.choice([1, 2, 3]) for _ in x] if nb % 3 else None, "nbin", nb, None, None, rev=True))
        cs.append(_mk(r, "adv:manybins", x, None, None, "binsize", (max(x) - min(x)) / (nb - 1), None, None, rev=True))
    # no reverse indices: only edges are reported
    cs.append(_mk(r, "adv:norev", [0, 1, 2, 3, 4, 7], None, None, "binsize", 2, None, None, rev=False, api="binner"))
    cs.append(_mk(r, "adv:norev", [0, 1, 2, 3, 4, 7], None, None, "nbin", 3, -1, 9, rev=False, api="binner2"))
    # rejected inputs (no claim; the model must agree on the error class)
    cs.append(_mk(r, "rejected", [1, 2, 3], None, None, "binsize", 1, 10, 20))
    cs.append(_mk(r, "rejected", [1, 2, 3], None, [1, 1, 1], "nbin", 2, 5, None))
    return cs


def _adversarial_num(r):
    cs = []
    base = [
        ([5, 1, 4, 2, 3, 9, 7], [1, 2, 3, 4, 5, 6, 7], None),
        ([5, 1, 4, 2, 3, 9, 7], None, [1, 1, 1, 1, 1, 1, 2.0]),
        ([1, 1, 1, 2, 2, 2, 2, 3], [8, 7, 6, 5, 4, 3, 2, 1], [1, 2, 3, 4, 5, 6, 7, 8]),
        ([0.5], None, [2.0]), ([3, 3], [1, 2], None), ([2, 1], None, None),
        ([0.1 * k for k in range(10, 0, -1)], None, None),
        ([7, -7, 7, -7, 0, 0, 1e-3, -1e-3, 5, 5, 5], None, [1, 2, 3, 4, 5, 6, 7, 8, 9, 10, 11]),
    ]
    for x, y, w in base:
        n = len(x)
        for k in sorted(set([1, 2, 3, max(1, n - 1), n, n + 1, max(1, n // 2)])):
            for ml in (True, False):
                cs.append(_mk(r, "adv:nperbin", x, y, w, "nperbin", k, None, None, mergelast=ml))
        xs = sorted(float(v) for v in x)
        if n > 2:
            cs.append(_mk(r, "adv:nperbin+limits", x, y, w, "nperbin", 2, xs[1], None, mergelast=True))
            cs.append(_mk(r, "adv:nperbin+limits", x, y, w, "nperbin", 2, None, xs[-2], mergelast=False))
            cs.append(_mk(r, "adv:nperbin+limits", x, y, w, "nperbin", 3, xs[1], xs[-2], mergelast=True))
    cs.append(_mk(r, "rejected", [1, 2, 3], None, None, "nperbin", 2, 10, 20))
    # every bin all-tied (multiplicity = nperbin), float weights; large offsets; equal bounds; signed zero bounds
    tied = [v for v in (0.1, 0.3, 0.7, 1.1, 1.9, 2.3) for _ in range(3)]
    wt = [0.5 + 0.37 * (i % 5) for i in range(len(tied))]
    for ml in (True, False):
        cs.append(_mk(r, "adv:tied-bins", tied, [1e6 + v for v in tied], wt, "nperbin", 3, None, None, mergelast=ml))
        cs.append(_mk(r, "adv:tied-bins", tied + [2.3], None, [1.0] * 19, "nperbin", 3, None, None, mergelast=ml))
        cs.append(_mk(r, "adv:offset", [1e8 + 0.37 * k % 1.0 for k in range(11)], [1e6 + k for k in range(11)],
                      [1.0 + 0.1 * k for k in range(11)], "nperbin", 4, None, None, mergelast=ml))
        cs.append(_mk(r, "adv:equal-bounds", [1, 1, 2, 1, 0.5, 1], None, [1, 2, 3, 4, 5, 6], "nperbin", 2, 1, 1, mergelast=ml))
        cs.append(_mk(r, "adv:zero-bounds", [-0.0, 0.0, 0.5, -0.5, 1.0, 0.0], None, None, "nperbin", 2, -0.0, 0.0, mergelast=ml))
    return cs


KINDS = ["ints", "ints", "ties", "constant", "floats", "floats", "gauss", "decimal", "sparse", "sparse",
         "offset", "offset", "neartie"]


def _random(ctx, count, big, nperbin):
    r = ctx.rng
    cs = []
    while len(cs) < count:
        kind = r.choice(KINDS)
        n = r.choice([1, 2, 3, r.randrange(1, 12), r.randrange(1, 40), r.randrange(1, big)])
        x = _as_f4(r, _data(r, kind, n))
        y = _as_f4(r, _second(r, x)) if r.random() < 0.45 else None
        w = _as_f4(r, _weights(r, n)) if r.random() < 0.6 else None
        if y is not None and r.random() < 0.08:
            y = [r.choice([0, 1]) for _ in x]                     # a flag column (bool dtype possible)
        alias = None
        if r.random() < 0.05:                        # the SAME object as second variable and/or weights
            alias = "y" if any(float(v) <= 0 for v in x) or r.random() < 0.5 else "yw"
            y = list(x)
            if alias == "yw":
                w = list(x)
        which = r.choice(["none", "none", "lo", "hi", "both"])
        lo, hi = _limits(r, x, which)
        if nperbin:
            k = r.choice([1, 2, 3, r.randrange(1, n + 2), r.randrange(1, n + 2), max(1, n // r.choice([2, 3, 4]))])
            c = _mk(r, "%s/nperbin/%s" % (kind, which), x, y, w, "nperbin", k, lo, hi, mergelast=r.random() < 0.5)
        else:
            mode = r.choice(["nbin", "binsize"])
            c = _mk(r, "%s/%s/%s" % (kind, mode, which), x, y, w, mode, _spec(r, x, lo, hi, mode), lo, hi)
        if alias:
            c["alias"] = alias
            c["api"] = "binner" if c["api"] == "histogram" else c["api"]
            c["forms"]["y"] = c["forms"]["x"]
            if alias == "yw":
                c["forms"]["w"] = c["forms"]["x"]
        e = expected(c)
        if e is not None and e["nbin"] > MAXBIN:
            continue
        if e is None and r.random() < 0.8:
            continue
        cs.append(c)
    return cs


LONG_SIZES = [255, 256, 257, 511, 513, 1023, 1025]


def _long(ctx, count, nperbin, sizes=LONG_SIZES):
    """arrays of 2^k-1, 2^k, 2^k+1 elements, low-precision values (integers, ties, one decimal) so that the exact
    rational arithmetic in Coq stays cheap; few bins"""
    r = ctx.rng
    cs = []
    for _ in range(count):
        n = r.choice(sizes)
        kind = r.choice(["ints", "ties", "decimal"])
        x = _data(r, kind, n)
        if kind == "ints":
            x = [v % 1000 for v in x]
        y = [r.randrange(-9, 10) for _ in x] if r.random() < 0.4 else None
        w = [r.choice([1, 2, 3, 5]) for _ in x] if r.random() < 0.5 else None
        which = r.choice(["none", "none", "lo", "hi"])
        lo, hi = _limits(r, x, which)
        if nperbin:
            k = r.choice([1 if n < 300 else 7, 2 if n < 300 else 16, 64, 128, 129, n // 2, n // 2 + 1, n - 1, n, n + 1, 100])
            c = _mk(r, "long%d/nperbin/%s" % (n, which), x, y, w, "nperbin", k, lo, hi, mergelast=r.random() < 0.5)
        else:
            mode = r.choice(["nbin", "binsize"])
            if mode == "nbin":
                spec = r.choice([1, 2, 3, 5, 8, 17, 33])
            else:
                xs = [float(v) for v in x]
                a = min(xs) if lo is None else float(lo)
                b = max(xs) if hi is None else float(hi)
                spec = (abs(b - a) or 1.0) / r.choice([1, 2, 4, 7, 16, 32])
            c = _mk(r, "long%d/%s/%s" % (n, mode, which), x, y, w, mode, spec, lo, hi)
        e = expected(c)
        if e is None or e["nbin"] > MAXBIN:
            continue
        cs.append(c)
    return cs


def _rejected_forms(r):
    """inputs the code rejects, in several forms (no claim; the model must agree on the error class)"""
    cs = []
    for api in ("binner", "histogram"):
        cs.append(_mk(r, "rejected:empty", [], None, None, "nbin", 2, None, None, api=api))
        cs.append(_mk(r, "rejected:empty", [], None, None, "nperbin", 2, None, None, api=api))
    cs.append(_mk(r, "rejected:ylen", [1, 2, 3], [1, 2], None, "binsize", 1, None, None, api="binner"))
    cs.append(_mk(r, "rejected:wlen", [1, 2, 3], None, [1, 2], "nperbin", 2, None, None, api="binner"))
    cs.append(_mk(r, "rejected:wlen", [1, 2, 3], None, [1, 2, 3, 4], "nbin", 2, None, None, api="histogram"))
    cs.append(_mk(r, "rejected:range", [1.5, 2.5], [0, 1], [1, 1], "nperbin", 1, 3, None, api="binner"))
    return cs


# ----------------------------------------------------------------------------- the real code
UKEYS = ["mean", "std", "err", "median"]
WKEYS = ["mean", "std", "err", "err2"]


def _build(vals, form, legacy_container):
    """the python object handed to esutil for one column"""
    import numpy as np
    if vals is None:
        return None
    v = [_num(t) for t in vals]
    if form is None:
        return np.array(v) if legacy_container == "ndarray" else v
    cont, dt = form["container"], form["dtype"]
    if cont == "list":
        return v
    if cont == "tuple":
        return tuple(v)
    if cont == "scalar":
        return v[0]
    if cont == "0d":
        return np.array(v[0], dtype=dt)
    a = np.array(v, dtype=dt)
    assert [float(t) for t in a] == [float(t) for t in v], "dtype cannot hold the values"
    view = form["view"]
    if view != "contig" and a.size:
        rev = "reversed" in view
        src = a[::-1] if rev else a
        if "strided" in view:
            big = np.empty(2 * a.size + 1, dtype=a.dtype)
            big[...] = a[0]
            big[1::2] = src
            src = big[1::2]
        else:
            src = src.copy()
        a = src[::-1] if rev else src
        assert not a.flags.owndata
    if form["readonly"]:
        a.setflags(write=False)
    return a


def _scalar(v, how):
    import numpy as np
    if v is None or how in (None, "py"):
        return v
    if how == "0d":
        return np.array(v)
    return getattr(np, how[3:])(v)


def _collect(b, has_y, has_w):
    """canonical output of a Binner: which kind of binning it holds, hist, rev, edges or low/high, per-bin rows"""
    xp = "x" if has_y else ""
    hist = [int(v) for v in b["hist"]]
    nh = len(hist)
    out = {"hist": hist, "rev": [int(v) for v in b["rev"]] if "rev" in b else []}
    if "nperbin" in b:
        out["kind"] = "num"
        out["low"] = [float(v).hex() for v in b["low"]]
        out["high"] = [float(v).hex() for v in b["high"]]
        assert "center" not in b and "xcenter" not in b
    else:
        out["kind"] = "binned"
        lo, hi, ce = b[xp + "low"], b[xp + "high"], b[xp + "center"]
        assert len(lo) == len(hi) == len(ce)
        out["edges"] = [[float(lo[i]).hex(), float(hi[i]).hex(), float(ce[i]).hex()] for i in range(len(lo))]
    rows = []
    if "rev" in b:
        keys = [xp + k for k in UKEYS]
        if has_y:
            keys += ["y" + k for k in UKEYS]
        if has_w:
            keys += ["whist"] + ["w" + xp + k for k in WKEYS]
            if has_y:
                keys += ["wy" + k for k in WKEYS]
        colsv = [b[k] for k in keys]
        for col in colsv:
            assert len(col) == nh, "per-bin array of wrong length"
        for i in range(nh):
            rows.append([float(col[i]).hex() for col in colsv])
    else:
        assert not any(k in b for k in ("mean", "xmean", "whist"))
    out["rows"] = rows
    return out


def _drive(c):
    import numpy as np
    import esutil.stat as st
    forms = c.get("forms") or {}
    nf = c.get("numforms") or {}
    ks = c.get("kw") or {}
    x = _build(c["x"], forms.get("x"), c.get("container"))
    y = _build(c["y"], forms.get("y"), c.get("container"))
    w = _build(c["w"], forms.get("w"), c.get("container"))
    if c.get("alias"):                               # one object passed in two or three roles
        y = x
        if c["alias"] == "yw":
            w = x
    kw = {}
    if c["mode"] == "combo":
        for name in ("binsize", "nbin", "nperbin"):
            if c["opts"].get(name) is not None:
                kw[name] = _num(c["opts"][name])
        if "nperbin" in kw or not ks.get("mergelast_omit"):
            kw["mergelast"] = c["mergelast"]
    elif c["mode"] == "nbin":
        kw["nbin"] = _scalar(c["spec"], nf.get("spec"))
    elif c["mode"] == "binsize":
        kw["binsize"] = _scalar(_num(c["spec"]), nf.get("spec"))
    else:
        kw["nperbin"] = _scalar(c["spec"], nf.get("spec"))
        if not ks.get("mergelast_omit"):
            kw["mergelast"] = c["mergelast"]
    if c["min"] is not None:
        kw["min"] = _scalar(_num(c["min"]), nf.get("min"))
    elif ks.get("none_explicit"):
        kw["min"] = None
    if c["max"] is not None:
        kw["max"] = _scalar(_num(c["max"]), nf.get("max"))
    elif ks.get("none_explicit"):
        kw["max"] = None
    if not ks.get("rev_omit"):
        kw["rev"] = c["rev"]

    def snapshot(a):
        return None if not isinstance(a, np.ndarray) else (a.dtype.str, a.tobytes() if a.flags.c_contiguous else a.copy().tobytes())

    def f():
        before = [snapshot(a) for a in (x, y, w)]
        if c["api"] == "histogram":
            hk = dict(kw)
            if w is not None:
                hk["weights"] = w
                hk["more"] = bool(c["rev"])
            else:
                hk["more"] = True
                hk.pop("rev", None)
                if ks.get("none_explicit"):
                    hk["weights"] = None
            if c.get("twice"):
                st.histogram(x, **hk)
            b = st.histogram(x, **hk)
        else:
            if ks.get("none_explicit") or y is not None or w is not None:
                b = st.Binner(x, y=y, weights=w)
            else:
                b = st.Binner(x)
            if c.get("twice"):
                t = dict(c["twice"])
                try:
                    b.dohist(**t)
                    b.calc_stats()
                except Exception:           # whatever the first call does must not influence the second
                    pass
            if c["api"] == "binner2":
                b.dohist(calc_stats=False, **kw)
                b.calc_stats()
                if c.get("twice"):
                    b.calc_stats()
            elif ks.get("calc_stats_explicit"):
                b.dohist(calc_stats=True, **kw)
            else:
                b.dohist(**kw)
        assert before == [snapshot(a) for a in (x, y, w)], "an input array was modified"
        return _collect(b, y is not None, w is not None)
    with warnings.catch_warnings():
        warnings.simplefilter("ignore")
        with np.errstate(all="ignore"):
            return core.guarded(f)


def _classify(c, out):
    """class of a failing case: witnesses from the corpus keep their own name (so that each repaired defect is
    reported with its own replay); otherwise the two as-found single-member-bin rules are recognised on the output
    (Coq-side superset: Spec.has_single_weighted)"""
    fam = c.get("family", "")
    if fam.startswith("corpus:"):
        return fam
    if c["w"] is None or out[0] != "ok" or not out[1]["rows"]:
        return None
    try:
        return _classify_single(c, out[1])
    except (IndexError, KeyError, ValueError, ZeroDivisionError):      # a malformed output belongs to no known class
        return None


def _classify_single(c, o):
    rev, rows = o["rev"], o["rows"]
    wh = 8 if c["y"] is not None else 4
    cls = None
    for i, h in enumerate(o["hist"]):
        if h != 1:
            continue
        k = rev[rev[i]]
        wk = _f(c["w"][k])
        row = [float.fromhex(t) for t in rows[i]]
        if row[wh] != wk:
            return "C14.kf_single_member_whist"
        if abs(row[wh + 3] - 1 / math.sqrt(wk)) > 1e-9 / math.sqrt(wk) or row[wh + 4] != 0:
            cls = "C14.kf_single_member_werr"
    return cls


def _out_binned(out):
    if out[0] != "ok":
        return "(Err %s)" % out[1]
    o = out[1]
    if o["kind"] != "binned":
        return "(Err EOther)"                      # the wrong kind of result: never equal to the model's
    return "(Ok (mkI %s %s %s %s))" % (clist(o["hist"]), clist(o["rev"]), _cedges(o["edges"]), crows(o["rows"]))


def _out_num(out):
    if out[0] != "ok":
        return "(Err %s)" % out[1]
    d = out[1]
    if d["kind"] != "num":
        return "(Err EOther)"
    return "(Ok (mkN %s %s %s %s %s))" % (clist(d["hist"]), clist(d["rev"]), chexl(d["low"]), chexl(d["high"]), crows(d["rows"]))


def _cedges(es):
    return "[" + "; ".join("(%s, %s, %s)" % tuple(cfloat(float.fromhex(v)) for v in e) for e in es) + "]"


class Binned(Entry):
    name = "binned"
    search_rounds = 2

    def cases(self, ctx, round=0):
        cs = []
        if round == 0:
            cs += _adversarial_binned(ctx.rng)
            cs += _rejected_forms(ctx.rng)
            cs += _long(ctx, ctx.n(6, 40), False)
        cs += _random(ctx, ctx.n(380, 4000), ctx.n(120, 300), False)
        ctx.rng.shuffle(cs)
        return cs

    def impl(self, c):
        return _drive(c)

    def _input(self, c):
        return "%s %s %s %s %s" % (ccols(c), cbool(c["rev"]), copt_f(c["min"]), copt_f(c["max"]), cmode(c))

    def _out(self, out):
        return _out_binned(out)

    def term(self, c, out):
        return "v_binned %s %s" % (self._input(c), self._out(out))

    def show(self, c):
        return ("match binner true %s with Ok b => Some (b_hist b, b_rev b, b_edges b, b_rows b) | Err _ => None end"
                % self._input(c))

    def nontrivial(self, c, out):
        e = expected(c)
        if e is None or out[0] != "ok" or not out[1]["rows"]:
            return False
        occ = sum(1 for s in e["sizes"] if s > 0)
        empty = occ < e["nbin"]
        single = any(s == 1 for s in e["sizes"])
        return occ >= 2 and (empty or single or e["ties"] > 0 or e["edge"] > 0 or e["excluded"] > 0)

    def family(self, c):
        return "%s:%s:%s%s" % (c.get("family", "?").split("/")[0], c["mode"],
                               "y" if c["y"] is not None else "-", "w" if c["w"] is not None else "-")

    def classify(self, c, out, v):
        return _classify(c, out)


class NPerBin(Entry):
    name = "nperbin"
    search_rounds = 2

    def __init__(self):
        self.monitors = set()

    def cases(self, ctx, round=0):
        cs = []
        if round == 0:
            cs += _adversarial_num(ctx.rng)
            cs += _long(ctx, ctx.n(8, 50), True, LONG_SIZES + ([2047, 2049] if not ctx.quick() else []))
        cs += _random(ctx, ctx.n(280, 2500), ctx.n(120, 300), True)
        ctx.rng.shuffle(cs)
        return cs

    def impl(self, c):
        return _drive(c)

    def _input(self, c):
        return "%s %s %s %s %s" % (ccols(c), copt_f(c["min"]), copt_f(c["max"]), cz(c["spec"]), cbool(c["mergelast"]))

    def term(self, c, out):
        o = _out_num(out)
        if out[0] == "ok" and out[1]["kind"] == "num":
            d = out[1]
            n = len(d["rev"]) - len(d["hist"]) - 1
            if c["spec"] >= 1 and n >= 1:
                self.monitors.add((n, c["spec"]))
        return "v_num %s %s" % (self._input(c), o)

    def show(self, c):
        return ("match binner_num true %s with Ok b => Some (n_hist b, n_rev b, n_low b, n_high b, n_rows b) | Err _ => None end"
                % self._input(c))

    def nontrivial(self, c, out):
        e = expected(c)
        if e is None or out[0] != "ok":
            return False
        return e["nbin"] >= 2 and (e["short"] > 0 or e["ties"] > 0 or e["excluded"] > 0 or 1 in e["sizes"])

    def family(self, c):
        return "%s:nperbin:%s%s:%s" % (c.get("family", "?").split("/")[0], "y" if c["y"] is not None else "-",
                                       "w" if c["w"] is not None else "-", "merge" if c["mergelast"] else "nomerge")

    def classify(self, c, out, v):
        return _classify(c, out)


class Combo(Entry):
    """several of binsize= / nbin= / nperbin= together, or none of them: which one wins (Model.resolve)"""
    name = "combo"
    search_rounds = 1

    def cases(self, ctx, round=0):
        r = ctx.rng
        cs = []
        for _ in range(ctx.n(60, 400)):
            kind = r.choice(KINDS)
            n = r.choice([1, 2, 3, 5, r.randrange(1, 30)])
            x = _data(r, kind, n)
            y = _second(r, x) if r.random() < 0.3 else None
            w = _weights(r, n) if r.random() < 0.4 else None
            api = "histogram" if y is None and r.random() < 0.5 else "binner"
            opts = {"binsize": None, "nbin": None, "nperbin": None}
            pattern = r.choice(["bs+nb", "bs+k", "nb+k", "all", "none", "bs", "nb", "k"])
            if pattern in ("bs+nb", "bs+k", "all", "bs"):
                opts["binsize"] = _enc(r.choice([1, 0.5, 2, 2.5]))
            if pattern in ("bs+nb", "nb+k", "all", "nb"):
                opts["nbin"] = r.choice([1, 2, 3, 7])
            if pattern in ("bs+k", "nb+k", "all", "k"):
                opts["nperbin"] = r.choice([1, 2, 3, n, n + 1])
            lo, hi = _limits(r, x, r.choice(["none", "none", "lo", "hi"]))
            c = _mk(r, "combo:" + pattern, x, y, w, "combo", 0, lo, hi, mergelast=r.random() < 0.5, api=api)
            c["opts"] = opts
            c.pop("twice", None)
            # keep the number of bins small whichever bin size ends up in force (histogram's default is 1.0)
            xs = [float(v) for v in x] + [float(v) for v in (lo, hi) if v is not None]
            eff = _f(opts["binsize"]) if opts["binsize"] is not None else 1.0
            if opts["nperbin"] is None and (max(xs) - min(xs)) / eff > MAXBIN:
                continue
            cs.append(c)
        return cs

    def impl(self, c):
        return _drive(c)

    def term(self, c, out):
        o = c["opts"]
        if out[0] == "ok" and out[1]["kind"] == "num":
            res = "(ONum %s)" % _out_num(out)
        else:
            res = "(OBinned %s)" % _out_binned(out)
        rev = c["rev"] or (c["api"] == "histogram" and c["w"] is None)
        return "v_resolved %s %s %s %s %s %s %s %s %s %s" % (
            cbool(c["api"] == "histogram"), ccols(c), cbool(rev), copt_f(c["min"]), copt_f(c["max"]),
            copt_f(o["binsize"]), core.copt(o["nbin"]), core.copt(o["nperbin"]), cbool(c["mergelast"]), res)

    def nontrivial(self, c, out):
        return out[0] == "ok" and len(out[1]["hist"]) >= 2 and sum(1 for v in c["opts"].values() if v is not None) != 1

    def family(self, c):
        return "%s:%s" % (c["family"], c["api"])


class Sequence(Entry):
    """history dimension: several calls in ONE process on ONE Binner (every ordered pair of binning modes, with and
    without statistics in between, limits changed between calls), or through histogram() on the SAME argument objects
    whose contents are changed in place between calls (equal length, equal first and last element) or on a different
    object with equal contents.  Every step that produced statistics is judged like a single call (model comparison +
    verified checker, verdicts OR-ed) and additionally compared with the same call made alone on fresh objects."""
    name = "sequence"
    search_rounds = 1
    MODES = ("binsize", "nbin", "nperbin")

    def _step(self, r, x, mode, lo=None, hi=None):
        n = len(x)
        if mode == "nperbin":
            spec = r.choice([1, 2, 3, max(1, n // 2), n, n + 1])
        else:
            spec = _spec(r, x, lo, hi, mode)
        return {"mode": mode, "spec": _enc(spec) if mode == "binsize" else int(spec),
                "min": None if lo is None else _enc(lo), "max": None if hi is None else _enc(hi),
                "rev": r.random() < 0.7, "mergelast": r.random() < 0.5,
                "stats": r.choice(["auto", "auto", "explicit"])}

    def cases(self, ctx, round=0):
        r = ctx.rng
        cs = []
        pats = [(a, b, mid) for a in self.MODES for b in self.MODES for mid in ("stats", "bare")]
        reps = ctx.n(3, 14)
        for a, b, mid in pats * reps:
            kind = r.choice(["ints", "ties", "decimal", "gauss", "sparse"])
            n = r.choice([2, 3, 5, 8, r.randrange(2, 30)])
            x = _as_f4(r, _data(r, kind, n))
            if kind == "ints":
                x = [v % 60 for v in x]
            y = _second(r, x) if r.random() < 0.4 else None
            w = _weights(r, n) if r.random() < 0.5 else None
            steps = []
            for j, m in enumerate((a, b) + ((r.choice(self.MODES),) if r.random() < 0.25 else ())):
                lo, hi = _limits(r, x, r.choice(["none", "none", "lo", "hi", "both"]))
                st = self._step(r, x, m, lo, hi)
                if j == 0 and mid == "bare":
                    st["stats"] = "none"          # dohist(calc_stats=False) and nothing else before the next call
                steps.append(st)
            c = {"family": "seq:%s>%s:%s" % (a, b, mid), "api": "binner", "x": _encl(x), "y": _encl(y), "w": _encl(w),
                 "forms": {"x": _fit_form(r, x, "x"), "y": None if y is None else _fit_form(r, y, "y"),
                           "w": None if w is None else _fit_form(r, w, "w")},
                 "steps": steps, "mutate_caller": r.random() < 0.3,
                 "scribble": r.choice([None, None, "zero", "reverse"])}
            if self._ok(c):
                cs.append(c)
        # histogram(): same objects, contents changed in place between the calls / equal contents in another object
        for _ in range(ctx.n(40, 200)):
            n = r.choice([3, 4, 6, 9, r.randrange(3, 25)])
            kind = r.choice(["ints", "decimal", "gauss"])
            x1 = _data(r, kind, n)
            if kind == "ints":
                x1 = [v % 60 for v in x1]
            x1 = [float(v) for v in x1]
            inner = x1[1:-1]
            how = r.choice(["shuffle", "replace", "same"])
            if how == "shuffle":
                r.shuffle(inner)
            elif how == "replace":
                a_, b_ = min(x1), max(x1)
                inner = [r.uniform(a_, b_) for _ in inner]
            x2 = [x1[0]] + inner + [x1[-1]]            # equal length, equal first and last element
            w1 = _weights(r, n) if r.random() < 0.6 else None
            w2 = None if w1 is None else ([float(v) for v in w1][::-1] if r.random() < 0.5 else [float(v) for v in w1])
            m1, m2 = r.choice(self.MODES), r.choice(self.MODES)
            s1 = self._step(r, x1, m1)
            s2 = dict(s1) if r.random() < 0.5 else self._step(r, x2, m2)     # often literally the same options
            for st in (s1, s2):
                st["stats"] = "auto"
                st["rev"] = True if w1 is None else st["rev"]
            c = {"family": "seq:histogram:%s" % how, "api": "histogram", "x": _encl(x1), "y": None,
                 "w": None if w1 is None else _encl([float(v) for v in w1]), "x2": _encl(x2), "w2": None if w2 is None else _encl(w2),
                 "forms": None, "steps": [s1, s2], "second": r.choice(["inplace", "inplace", "newobject"])}
            if self._ok(c):
                cs.append(c)
        r.shuffle(cs)
        return cs

    def _pseudo(self, c, j):
        """the single-call case that step j of the sequence amounts to"""
        st = c["steps"][j]
        second = c["api"] == "histogram" and j >= 1
        p = {"family": c["family"], "x": c["x2"] if second else c["x"], "y": c["y"],
             "w": (c.get("w2") if second else c["w"]), "mode": st["mode"], "spec": st["spec"], "min": st["min"],
             "max": st["max"], "rev": st["rev"], "mergelast": st["mergelast"], "api": c["api"],
             "container": "ndarray", "forms": c.get("forms")}
        if c["api"] == "histogram" and p["w"] is None:
            p["rev"] = True
        return p

    def _ok(self, c):
        for j in range(len(c["steps"])):
            e = expected(self._pseudo(c, j))
            if e is not None and e["nbin"] > 120:
                return False
        return True

    def impl(self, c):
        import numpy as np
        import esutil.stat as st_
        outs, fresh = [], []

        def kwargs(step):
            kw = {("nbin" if step["mode"] == "nbin" else "binsize" if step["mode"] == "binsize" else "nperbin"): _num(step["spec"])}
            if step["mode"] == "nperbin":
                kw["mergelast"] = step["mergelast"]
            if step["min"] is not None:
                kw["min"] = _num(step["min"])
            if step["max"] is not None:
                kw["max"] = _num(step["max"])
            return kw

        def run():
            if c["api"] == "binner":
                forms = c.get("forms") or {}
                x = _build(c["x"], forms.get("x"), "ndarray")
                y = _build(c["y"], forms.get("y"), "ndarray")
                w = _build(c["w"], forms.get("w"), "ndarray")
                b = st_.Binner(x, y=y, weights=w)
                if c.get("mutate_caller"):
                    for a in (x, y, w):
                        if isinstance(a, np.ndarray) and a.flags.writeable and a.ndim == 1 and a.size:
                            a[...] = a[::-1].copy()           # the Binner must not see later changes of the caller's arrays
                for step in c["steps"]:
                    def one(step=step):
                        kw = kwargs(step)
                        if step["stats"] == "auto":
                            b.dohist(rev=step["rev"], **kw)
                        else:
                            b.dohist(rev=step["rev"], calc_stats=False, **kw)
                            if step["stats"] == "none":
                                return None
                            b.calc_stats()
                        res = _collect(b, y is not None, w is not None)
                        if c.get("scribble"):
                            # the caller overwrites every RETURNED array (not the documented handles on the sort index,
                            # see docs/reports/C14.md R6) before calling again: results must not live in internal buffers
                            for key, val in list(b.items()):
                                if isinstance(val, np.ndarray) and key not in ("sort_index", "wsort") and val.size:
                                    val[...] = val[::-1].copy() if c["scribble"] == "reverse" else 0
                        return res
                    outs.append(core.guarded(one))
            else:
                x = np.array([_num(v) for v in c["x"]], dtype="f8")
                w = None if c["w"] is None else np.array([_num(v) for v in c["w"]], dtype="f8")
                for j, step in enumerate(c["steps"]):
                    if j == 1:
                        x2 = np.array([_num(v) for v in c["x2"]], dtype="f8")
                        w2 = None if c["w2"] is None else np.array([_num(v) for v in c["w2"]], dtype="f8")
                        if c["second"] == "inplace":
                            x[...] = x2
                            if w is not None:
                                w[...] = w2
                        else:
                            x, w = x2, w2

                    def one(step=step, x=x, w=w):
                        kw = kwargs(step)
                        if w is None:
                            bb = st_.histogram(x, more=True, **kw)
                        else:
                            bb = st_.histogram(x, weights=w, more=bool(step["rev"]), rev=step["rev"], **kw)
                        return _collect(bb, False, w is not None)
                    outs.append(core.guarded(one))
        with warnings.catch_warnings():
            warnings.simplefilter("ignore")
            with np.errstate(all="ignore"):
                run()
        # the same calls alone, on fresh objects
        for j, o in enumerate(outs):
            if o[0] == "ok" and o[1] is None:
                fresh.append(None)
                continue
            f = _drive(self._pseudo(c, j))
            fresh.append(f[:2] == o[:2] if o[0] != "ok" else f == o)
        return ("ok", {"steps": outs, "fresh_equal": fresh})

    def term(self, c, out):
        ts = []
        for j, o in enumerate(out[1]["steps"]):
            if o[0] == "ok" and o[1] is None:
                continue
            p = self._pseudo(c, j)
            ent = ENTRIES[1] if p["mode"] == "nperbin" else ENTRIES[0]
            ts.append("(%s)" % ent.term(p, o))
            if out[1]["fresh_equal"][j] is False:
                ts.append("1")                      # depends on the history: differs from the same call made alone
        t = "0"
        for u in ts:
            t = "(Z.lor %s %s)" % (u, t)
        return t

    def show(self, c):
        return None

    def nontrivial(self, c, out):
        judged = [o for o in out[1]["steps"] if o[0] == "ok" and o[1] is not None]
        return len(judged) >= 2 or (len(judged) >= 1 and len(c["steps"]) >= 2)

    def family(self, c):
        return c["family"]


ENTRIES = [Binned(), NPerBin(), Combo(), Sequence()]


# ----------------------------------------------------------------------------- arrays beyond Coq's reach
HUGE_SIZES = [4095, 4097, 16383, 16385, 65535, 65537, 100001]


def _huge_case(r, n):
    return {"entry": "huge", "family": "huge%d" % n, "gen": {"seed": r.randrange(10 ** 9), "n": n,
            "kind": r.choice(["gauss", "ints", "ties", "uniform"])},
            "y": r.random() < 0.5, "w": r.random() < 0.6, "mode": r.choice(["nbin", "binsize", "nperbin", "nperbin"]),
            "nbin": r.choice([1, 2, 7, 64, 257, 1000]), "nperbin": r.choice([1, 2, 3, 255, 256, 257, 4096, n // 2 + 1, n - 1, n]),
            "mergelast": r.random() < 0.5, "limits": r.choice(["none", "none", "lo", "hi", "both"]),
            "dtype": r.choice(["f8", "f8", "f4", "i4", ">f8"]), "api": r.choice(["binner", "histogram"])}


def _huge_data(c):
    import numpy as np
    g = c["gen"]
    rs = np.random.RandomState(g["seed"])
    n = g["n"]
    if g["kind"] == "gauss":
        x = rs.normal(size=n)
    elif g["kind"] == "uniform":
        x = rs.uniform(-1000, 1000, size=n)
    elif g["kind"] == "ints":
        x = rs.randint(-500, 500, size=n).astype("f8")
    else:
        x = rs.choice(rs.normal(size=37), size=n)
    if c["dtype"] == "i4":
        x = np.round(x * 10).astype("i4")
    else:
        x = x.astype(c["dtype"])
    y = rs.normal(size=n) if c["y"] else None
    w = rs.uniform(0.1, 3.0, size=n) if c["w"] else None
    return x, y, w


def _huge_one(c):
    """run the real code on a long array and compare with a direct numpy computation per bin (python-side oracle:
    float64, relative tolerance 1e-10 against a condition-aware scale); returns a list of discrepancies"""
    import numpy as np
    import esutil.stat as st
    x, y, w = _huge_data(c)
    if c["api"] == "histogram":
        y = None
    xf = x.astype("f8")
    xs = np.sort(xf)
    lo = float(xs[len(xs) // 5]) if c["limits"] in ("lo", "both") else None
    hi = float(xs[-len(xs) // 7]) if c["limits"] in ("hi", "both") else None
    kw = {}
    if lo is not None:
        kw["min"] = lo
    if hi is not None:
        kw["max"] = hi
    if c["mode"] == "nbin":
        kw["nbin"] = c["nbin"]
    elif c["mode"] == "binsize":
        dmin = xs[0] if lo is None else lo
        dmax = xs[-1] if hi is None else hi
        kw["binsize"] = float((dmax - dmin) / c["nbin"]) or 1.0
    else:
        kw["nperbin"] = c["nperbin"]
        kw["mergelast"] = c["mergelast"]
    with warnings.catch_warnings():
        warnings.simplefilter("ignore")
        if c["api"] == "histogram":
            b = st.histogram(x, weights=w, more=True, **kw)
        else:
            b = st.Binner(x, y=y, weights=w)
            b.dohist(rev=True, **kw)
    bad = []
    sel = np.ones(len(xf), bool)
    if lo is not None:
        sel &= xf >= lo
    if hi is not None:
        sel &= xf <= hi
    order = np.argsort(xf, kind="stable")
    order = order[sel[order]]
    hist, rev = np.asarray(b["hist"]), np.asarray(b["rev"])
    if c["mode"] == "nperbin":
        k = c["nperbin"]
        n = len(order)
        cuts = list(range(0, n, k))
        groups = [order[a:a + k] for a in cuts]
        if len(groups) >= 2 and len(groups[-1]) != k and c["mergelast"]:
            groups[-2] = np.concatenate([groups[-2], groups[-1]])
            groups.pop()
    else:
        dmin = xf[order[0]] if lo is None else lo
        dmax = xf[order[-1]] if hi is None else hi
        if c["mode"] == "nbin":
            nb, bs = c["nbin"], float(dmax - dmin) / c["nbin"]
        else:
            bs = kw["binsize"]
            nb = int(np.int64((dmax - dmin) / bs)) + 1
        with np.errstate(all="ignore"):
            bn = np.floor((xf[order] - dmin) / bs) if bs != 0 else np.full(len(order), -1.0)
        groups = [order[bn == i] for i in range(nb)]
        xp = "x" if y is not None else ""
        low = dmin + np.arange(nb) * bs
        for key, ref in ((xp + "low", low), (xp + "high", low + bs), (xp + "center", low + 0.5 * bs)):
            if len(b[key]) != nb or not np.allclose(b[key], ref, rtol=1e-9, atol=1e-9 * (abs(dmin) + abs(bs) * nb)):
                bad.append(key)
    if len(hist) != len(groups):
        return ["number of bins %d, expected %d" % (len(hist), len(groups))]
    xp = "x" if y is not None else ""

    def close(a, ref, scale):
        return abs(a - ref) <= 1e-10 * (abs(ref) + scale) + 1e-300
    for i, g in enumerate(groups):
        got = rev[rev[i]:rev[i + 1]]
        if hist[i] != len(g) or not np.array_equal(got, g):
            bad.append("members of bin %d" % i)
            continue
        if c["mode"] == "nperbin" and len(g) and (b["low"][i] != xf[g[0]] or b["high"][i] != xf[g[-1]]):
            bad.append("low/high of bin %d" % i)
        cols = [(xp, xf)] + ([("y", y)] if y is not None else [])
        for pre, v in cols:
            if len(g) == 0:
                if any(b[pre + kk][i] != -9999.0 for kk in ("mean", "std", "err", "median")):
                    bad.append("sentinel of bin %d" % i)
                continue
            vv = v[g]
            A = np.abs(vv).mean()
            ok = close(b[pre + "mean"][i], vv.mean(), A) and close(b[pre + "std"][i], vv.std(), A) \
                and close(b[pre + "median"][i], np.median(vv), A) \
                and (len(g) < 2 or close(b[pre + "err"][i], vv.std() / np.sqrt(len(g)), A))
            if w is not None:
                ww = w[g]
                wm = (ww * vv).sum() / ww.sum()
                Aw = np.abs(ww * vv).sum() / ww.sum()
                ok = ok and close(b["w" + pre + "mean"][i], wm, Aw) \
                    and close(b["w" + pre + "std"][i], np.sqrt((ww * (vv - wm) ** 2).sum() / ww.sum()), Aw) \
                    and close(b["w" + pre + "err"][i], 1 / np.sqrt(ww.sum()), 0) \
                    and close(b["w" + pre + "err2"][i], np.sqrt((ww ** 2 * (vv - wm) ** 2).sum()) / ww.sum(), Aw) \
                    and close(b["whist"][i], ww.sum(), 0)
            if not ok:
                bad.append("statistics of bin %d (%s)" % (i, pre or "x"))
        if len(g) == 0 and w is not None and b["whist"][i] != 0:
            bad.append("whist of empty bin %d" % i)
        if len(bad) > 5:
            break
    return bad


def huge_checks(ctx, replay):
    if replay is not None:
        if replay.get("entry") != "huge":
            return
        cases = [replay["case"]]
    else:
        r = ctx.rng
        cases = [_huge_case(r, n) for n in HUGE_SIZES for _ in range(ctx.n(3, 10))]
    for c in cases:
        res = core.guarded(_huge_one, c)
        bad = res[1] if res[0] == "ok" else ["exception %s" % res[2]]
        ctx.case(["huge", c], c["mode"] != "nbin" or c["nbin"] > 1, "huge:%s:%s" % (c["mode"], c["dtype"]))
        ctx.count("verdict:huge:%d" % (2 if bad else 0))
        if bad:
            ctx.violation("huge: per-bin quantities of a long array differ from the direct computation",
                          {"kind": "failing-input", "entry": "huge", "case": c, "discrepancies": bad[:10]}, found_input=True)

TRUSTED = [
    "Coq 8.16.1 kernel (coqc, vm_compute; no native_compute); C14 theorems are closed under the global context except "
    "for the kernel's primitive binary64 operations (PrimFloat, Prim2SF) through which C05's bin numbers and the bin "
    "edges are computed",
    "hand-written model C14/Model.v of Binner.calc_stats, _hist_by_num, _merge_last and the rev/statistics option handling "
    "(on top of C05's model of the histogram pass and C18's exact-rational wmom1); tied to the working tree by the "
    "correspondence run on every check (hist, rev, low/high/center bit-for-bit; statistics within 1e-12 of the exact "
    "rational value relative to a condition-aware scale; differential testing, bounded by the generators)",
    "modelled, not verified: numpy reductions mean/std/median/sum/sqrt and binary64 rounding of the statistics (compared "
    "with tolerance 1e-12*(scale), not bounded by proof), numpy's stable argsort, astype(float64), view/slice assignment "
    "semantics in _merge_last, float -> int64 conversion",
    "nperbin: the bin number np.int64(i/float(nperbin)) is modelled as the integer quotient; that the binary64 computation "
    "(C05's bit-exact bin number on float positions) equals it is a theorem for all sizes and nperbin below 2^53 "
    "(C14_int_quotient_exact, C14_hist_by_num_float_model; Flocq + FloatAxioms)",
    "C14_binned_holds_finite / C14_nperbin_holds_finite / the quotient theorems depend on the standard library's FloatAxioms "
    "and real-number axioms (through Flocq and C05's float facts); all other theorems do not",
    "translator harness/props/c14_translate.py (python ast, fail-closed): re-reads on every run what each key is assigned in "
    "the single-member and several-member branches of the statistics loop and the constants -9999.0 / 0 / 0.5, compared in "
    "Coq with the tables of Model.v, which Proofs.tables_are_the_model ties to the model",
    "arrays of 4095..100001 elements (beyond what the quadratic list model evaluates in Coq) are compared with a python-side "
    "numpy oracle (direct computation per bin, float64, 1e-10 relative): not a verified checker",
    "python harness (harness/props/C14.py): drivers, key names of the result dictionary, hex-float printer; coqc "
    "evaluating Exec.v verdict terms",
]


def run(ctx, replay=None):
    ctx.rule = ("every case runs the real Binner/histogram on (x, y, weights, binsize|nbin|nperbin, min, max, rev, mergelast); "
                "Coq evaluates agree (hist, rev, edges / low, high bit-exact and every statistic within 1e-12*scale of the "
                "model's exact rational) and ok (verified checkers binned_check / num_check on the reported values with bin "
                "members taken from the data).  non-trivial: >= 2 occupied bins and (an empty bin, a single-member bin, a tie, "
                "an edge value, an excluded datum or a short last bin).  distinct by canonical JSON.")
    ctx.trusted = TRUSTED
    core.proof_step(ctx, "C14", core.ALLOW_FLOAT + core.ALLOW_REALS)
    # exact rational statistics cost 0.05-1 s per case: size the shards so that all cores are used (the
    # default of 400 terms per file would leave most of them idle)
    orig = core.coq_eval

    def sized(workdir, preamble, terms, ty="Z", shard=400, **kw):
        return orig(workdir, preamble, terms, ty=ty, shard=min(shard, max(8, min(100, -(-len(terms) // core.NCPU)))), **kw)
    core.coq_eval = sized
    # tie to the source: the assignment tables and constants of Binner.calc_stats, re-read from the tree under check
    if replay is None:
        what = ("tie: tables/constants of Binner.calc_stats read from esutil/stat/util.py (python ast) = those of "
                "C14/Model.v (single-member and several-member branch, sentinel, whist init, centre factor)")
        try:
            tabs = c14_translate.read(ctx.impl)
            vals = core.coq_eval(ctx.work + "/tie", PRE, [c14_translate.coq_term(tabs)], tag="tie", shard=1)
            ok = vals[0].strip("() ").replace("%Z", "") == "0"
            ctx.obligation(what, ok, "" if ok else str(tabs))
            if not ok:
                ctx.violation("the statistics loop of esutil/stat/util.py no longer assigns what the model says (tables read "
                              "from the source differ from C14/Model.v)",
                              {"kind": "translation", "tables": tabs,
                               "no_longer_checks": "tie of C14.Model.{single,many}_*_table / sentinel / center_factor to util.py "
                                                   "(Proofs.tables_are_the_model)"}, found_input=False)
        except (c14_translate.TranslateError, core.CoqEvalError) as e:
            ctx.obligation(what, False, str(e)[-600:])
            ctx.violation("esutil/stat/util.py: Binner.calc_stats could not be read by the fail-closed translator: %s" % str(e)[:300],
                          {"kind": "translation", "error": str(e)[-1500:],
                           "no_longer_checks": "tie of C14.Model tables to util.py"}, found_input=False)
    # second tie: the control skeleton (keyword order, defaults, exception classes, edge expressions, thresholds, the key
    # tests of calc_stats, self.clear()) translated into one Gallina record and compared with Model.model_skel.
    # Neither tie gates anything: the correspondence below always runs against the committed model.
    if replay is None:
        what = ("tie: control skeleton of Binner.__init__/dohist/_hist_by_binsize_or_nbin/_do_hist/_hist_by_num/_merge_last/"
                "calc_stats and histogram() translated from esutil/stat/util.py = Model.model_skel (Proofs.skeleton_is_the_model)")
        try:
            sk = c14_translate.read_skel(ctx.impl)
            vals = core.coq_eval(ctx.work + "/tie2", PRE, [c14_translate.skel_term(sk)], tag="tie2", shard=1)
            ok = vals[0].strip("() ").replace("%Z", "") == "0"
            ctx.obligation(what, ok, "" if ok else str(sk))
            if not ok:
                ctx.violation("the control skeleton read from esutil/stat/util.py differs from the model's (Model.model_skel)",
                              {"kind": "translation", "skeleton": sk,
                               "no_longer_checks": "tie of C14.Model.model_skel (resolve, dorev, edges, clear, thresholds, error "
                                                   "classes) to util.py"}, found_input=False)
        except (c14_translate.TranslateError, core.CoqEvalError) as e:
            ctx.obligation(what, False, str(e)[-600:])
            ctx.violation("esutil/stat/util.py: the control code of Binner/histogram could not be read by the fail-closed "
                          "translator: %s" % str(e)[:300],
                          {"kind": "translation", "error": str(e)[-1500:],
                           "no_longer_checks": "tie of C14.Model.model_skel to util.py"}, found_input=False)
    differential(ctx, PRE, ENTRIES, replay)
    huge_checks(ctx, replay)
    ent = ENTRIES[1]
    # np.int64(i/float(k)) = i // k is a theorem now (C14_int_quotient_exact, C14_nperbin_monitor_holds); the per-case
    # evaluation is kept in the thorough tier only, as a redundant cross-check of the theorem's reading of the code
    if ent.monitors and not ctx.quick():
        pairs = sorted(ent.monitors)
        try:
            vals = core.coq_eval(ctx.work + "/monitor", PRE, ["if nperbin_monitor %s %s then 0 else 1" % (cz(n), cz(k))
                                                              for n, k in pairs], tag="monitor")
            bad = [p for p, v in zip(pairs, vals) if v.strip("() ").replace("%Z", "") != "0"]
        except core.CoqEvalError as e:
            bad = None
            ctx.notes.append(str(e)[-1500:])
        ctx.obligation("nperbin monitor: binary64 bin number = integer quotient on all %d (n, nperbin) pairs explored" % len(pairs),
                       bad == [], "" if bad is None else "%d failing" % len(bad or []))
        if bad is None:
            ctx.violation("nperbin monitor case file does not evaluate in Coq", {"kind": "monitor-file"}, found_input=False)
        elif bad:
            ctx.violation("nperbin monitor fails: np.int64(i/float(k)) is not i // k (model assumption, not an esutil defect)",
                          {"kind": "contract-monitor", "pairs": bad[:5],
                           "no_longer_checks": "assumption of C14.Model.hist_by_num"}, found_input=False)
    if not ctx.quick() and replay is None:
        try:
            vals = core.coq_eval(ctx.work + "/sweep", PRE, ["if num_sweep [0; 1; 2]%float 5 then 0 else 1"], tag="sweep", shard=1)
        except core.CoqEvalError as e:
            vals = ["1"]
            ctx.notes.append(str(e)[-1500:])
        ctx.obligation("sweep: nperbin model satisfies the chunk checker for all data over {0,1,2} of length <= 5, "
                       "all nperbin in 1..n+1, mergelast on/off (vm_compute)", vals[0].strip() == "0")
        ctx.exhaustive = True

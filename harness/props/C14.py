"""C14 — per-bin statistics and equal-occupancy bins equal direct computation (DESIGN.md section 7, C14).

Two entry points, both driving the REAL esutil.stat.Binner / esutil.stat.histogram:
  binned   Binner(x, y=, weights=).dohist(binsize=|nbin=, min=, max=, rev=) [+ calc_stats()]  and
           histogram(x, weights=, more=True, binsize=|nbin=, min=, max=)
  nperbin  the same with nperbin=, mergelast=
Every float travels as a hex literal.  Coq recomputes bin numbers and edges bit-exactly (PrimFloat,
C05's model) and the statistics in exact rationals (C18's wmom1 for the weighted block), compares
them with the reported floats (agree) and evaluates the verified checker of the property on the
reported values with the bin members taken from the DATA (ok).
"""
import math
import warnings

from .. import core
from ..core import cz, clist, cfloat, cbool
from ..runner import Entry, differential
from . import c14_translate

PRE = ("From Coq Require Import PrimFloat QArith.\nFrom EsVerif.Common Require Import Base.\n"
       "From EsVerif.C05 Require Import Model.\nFrom EsVerif.C14 Require Import Model Spec Exec.\n"
       "Open Scope Z_scope.\n")

MAXBIN = 400


# ----------------------------------------------------------------------------- values
def _num(v):
    return float.fromhex(v) if isinstance(v, str) else v


def _f(v):
    return float(_num(v))


def _enc(v):
    if isinstance(v, float):
        return v.hex()
    return int(v)


def _encl(l):
    return None if l is None else [_enc(v) for v in l]


def cfl(l):
    return clist([_f(v) for v in l], cfloat)


def copt_fl(l):
    return "None" if l is None else "(Some %s)" % cfl(l)


def copt_f(v):
    return "None" if v is None else "(Some %s)" % cfloat(_f(v))


def ccols(c):
    return "(mkCols %s %s %s)" % (cfl(c["x"]), copt_fl(c.get("y")), copt_fl(c.get("w")))


def cmode(c):
    if c["mode"] == "nbin":
        return "(ByNbin %s)" % cz(c["spec"])
    return "(ByBinsize %s)" % cfloat(_f(c["spec"]))


def chexl(l):
    return clist([float.fromhex(v) for v in l], cfloat)


def crows(rows):
    return "[" + "; ".join(chexl(r) for r in rows) + "]"


# ----------------------------------------------------------------------------- python-side expectations
def expected(c):
    """bins of the selected data computed independently (only for the non-triviality rule, the
    family statistics and to keep the number of bins small); None = outside the quantifier"""
    x = [_f(v) for v in c["x"]]
    if not x or any(not math.isfinite(v) for v in x):
        return None
    lo = None if c["min"] is None else _f(c["min"])
    hi = None if c["max"] is None else _f(c["max"])
    sel = sorted(v for v in x if (lo is None or v >= lo) and (hi is None or v <= hi))
    if not sel:
        return None
    excluded = len(x) - len(sel)
    if c["mode"] == "nperbin":
        k = c["spec"]
        if k < 1:
            return None
        n = len(sel)
        q, r = divmod(n, k)
        sizes = [k] * q + ([r] if r else [])
        if r and c["mergelast"] and q >= 1:
            sizes = [k] * (q - 1) + [k + r]
        return {"nbin": len(sizes), "sizes": sizes, "excluded": excluded, "edge": 0,
                "ties": len(sel) - len(set(sel)), "short": 1 if r else 0}
    dmin = min(x) if lo is None else lo
    dmax = max(x) if hi is None else hi
    if c["mode"] == "nbin":
        nbin = c["spec"]
        if nbin < 1:
            return None
        bs = (dmax - dmin) / nbin
    else:
        bs = _f(c["spec"])
        if not bs > 0:
            return None
        q = (dmax - dmin) / bs
        if not (q < 1e9):
            return None
        nbin = int(q) + 1
    sizes = [0] * min(nbin, 100000)
    edge = 0
    for v in sel:
        if bs == 0:
            excluded += 1
            continue
        q = (v - dmin) / bs
        b = math.floor(q) if abs(q) < 1e15 else -1
        if q == b and b > 0:
            edge += 1
        if 0 <= b < nbin and b < len(sizes):
            sizes[b] += 1
        else:
            excluded += 1
    return {"nbin": nbin, "sizes": sizes, "excluded": excluded, "edge": edge,
            "ties": len(sel) - len(set(sel)), "short": 0}


# ----------------------------------------------------------------------------- generators
def _data(r, kind, n):
    if kind == "ints":
        k = r.choice([3, 10, 100, 10**6])
        return [r.randrange(-k, k + 1) for _ in range(n)]
    if kind == "ties":
        k = r.choice([2, 3, 5])
        vals = [r.choice([r.randrange(-5, 6), round(r.uniform(-3, 3), 1)]) for _ in range(k)]
        return [r.choice(vals) for _ in range(n)]
    if kind == "constant":
        return [r.choice([0, 3, -2.5, 1e-3, 7.25, 0.1])] * n
    if kind == "floats":
        s = r.choice([1.0, 1e-3, 1e3, 1e8])
        return [r.uniform(-s, s) for _ in range(n)]
    if kind == "gauss":
        return [r.gauss(0, 1) for _ in range(n)]
    if kind == "decimal":
        return [round(0.1 * r.randrange(0, 40), 1) for _ in range(n)]
    if kind == "sparse":      # clusters far apart: many empty and single-member bins
        cs = [r.uniform(-50, 50) for _ in range(r.randrange(1, 5))]
        return [r.choice(cs) + r.uniform(0, 0.3) for _ in range(n)]
    raise ValueError(kind)


def _weights(r, n):
    t = r.random()
    if t < 0.2:
        return [r.choice([1, 2, 3, 5]) for _ in range(n)]
    if t < 0.4:
        return [r.uniform(0.01, 10) for _ in range(n)]
    if t < 0.55:
        return [10 ** r.uniform(-6, 6) for _ in range(n)]
    if t < 0.65:
        return [r.choice([0.5, 2.0])] * n
    return [1.0 / (0.01 + r.random()) ** 2 for _ in range(n)]


def _second(r, x):
    t = r.random()
    if t < 0.3:
        return [r.gauss(0, 1) for _ in x]
    if t < 0.5:
        return [2 * float(v) + 1 + r.gauss(0, 0.1) for v in x]
    if t < 0.7:
        return [r.randrange(-9, 10) for _ in x]
    if t < 0.8:
        return [r.choice([1.5, -2])] * len(x)
    return [r.uniform(-1e6, 1e6) for _ in x]


def _limits(r, data, which):
    xs = sorted(float(v) for v in data)
    a, b = xs[0], xs[-1]
    w = (b - a) or 1.0
    intlike = all(isinstance(v, int) for v in data)

    def pick(side):
        t = r.random()
        if t < 0.35 and len(xs) > 2:
            v = r.choice(xs[: len(xs) // 2 + 1] if side == "lo" else xs[len(xs) // 2:])
        elif t < 0.6:
            v = a - r.choice([0.5, 1, 2]) * w * r.random() if side == "lo" else b + r.choice([0.5, 1, 2]) * w * r.random()
        else:
            v = a + w * r.uniform(0, 0.45) if side == "lo" else b - w * r.uniform(0, 0.45)
        if intlike and r.random() < 0.7:
            v = int(math.floor(v)) if side == "lo" else int(math.ceil(v))
        elif r.random() < 0.5:
            v = round(v, 1)
        return v
    lo = pick("lo") if which in ("lo", "both") else None
    hi = pick("hi") if which in ("hi", "both") else None
    return lo, hi


def _spec(r, data, lo, hi, mode):
    xs = [float(v) for v in data]
    a = min(xs) if lo is None else float(lo)
    b = max(xs) if hi is None else float(hi)
    w = abs(b - a)
    if mode == "nbin":
        return r.choice([1, 1, 2, 3, 4, 5, 7, 10, r.randrange(1, 40), r.randrange(1, 120)])
    intlike = all(isinstance(v, int) for v in data)
    if w == 0:
        return r.choice([1, 0.5, 2, 1.0])
    t = r.random()
    if intlike and t < 0.5:
        bs = r.choice([1, 2, 3, 5, 10, 0.5, 0.25])
        while w / bs > 200:
            bs *= 10
        return bs
    if t < 0.75:
        return w / r.choice([1, 2, 3, 4, 5, 8, 10, 16, 50])
    if t < 0.9:
        return float("%.1g" % (w / r.choice([3, 7, 20]))) or 1.0
    return w * r.uniform(0.01, 1.5)


def _mk(r, fam, x, y, w, mode, spec, lo, hi, rev=None, mergelast=True, api=None):
    if api is None:
        api = r.choice(["binner", "binner", "binner2", "histogram"])
    if y is not None and api == "histogram":
        api = "binner"
    if rev is None:
        rev = r.random() < 0.8
    if api == "histogram":
        rev = True if w is None else rev          # histogram(more=True) implies rev
    return {"family": fam, "x": _encl(x), "y": _encl(y), "w": _encl(w), "mode": mode,
            "spec": _enc(spec) if mode == "binsize" else int(spec),
            "min": None if lo is None else _enc(lo), "max": None if hi is None else _enc(hi),
            "rev": bool(rev), "mergelast": bool(mergelast), "api": api,
            "container": r.choice(["ndarray", "list"])}


def _adversarial_binned(r):
    cs = []
    base = [
        ("design-witness", [0.5, 1.5, 1.6, 2.5], None, [2, 3, 4, 5]),
        ("single", [5], None, None), ("single", [2.5], [1.0], [3.0]), ("single", [0], [7], None),
        ("single-members", [0, 1, 2, 3, 4], [5, 4, 3, 2, 1], [1, 2, 3, 4, 5]),
        ("single-members", [0.25, 1.5, 3.75], None, [0.5, 0.25, 4.0]),
        ("empty-bins", [0, 0.1, 5, 5.1, 9.9], [1, 2, 3, 4, 5], None),
        ("empty-bins", [0, 0, 10, 10, 10, 30], None, [1, 1, 2, 2, 2, 3]),
        ("ties", [1, 1, 2, 2, 2, 1, 3, 3, 1], [9, 8, 7, 6, 5, 4, 3, 2, 1], [1, 2, 1, 2, 1, 2, 1, 2, 1]),
        ("ties", [0.5, 0.25, 0.5, 0.25, 0.75, 0.5], None, None),
        ("constant", [3, 3, 3], [1, 2, 3], [1, 1, 1]), ("constant", [0.1] * 7, None, [0.1] * 7),
        ("edges", [0.0, 0.5, 1.0, 1.5, 2.0, 2.5, 3.0], [0, 1, 0, 1, 0, 1, 0], None),
        ("edges", [0.1 * k for k in range(11)], None, [1 + k for k in range(11)]),
        ("leak", [0, 1, 2, 3, 4], None, None), ("leak", [0, 1, 2, 3, 4, 4, 4], [1, 2, 3, 4, 5, 6, 7], [1] * 7),
        ("negative", [-3.5, -1, -1, 0, 2.25, 8], [1e6, -1e6, 3, 4, 5, 6], [1e-3, 1e3, 1, 1, 1, 2]),
        ("even-odd", [1, 2, 3, 4, 10, 11, 12, 20, 21], None, None),
        ("zero-mean", [-1, 1, -2, 2, 10, -10], [1, -1, 1, -1, 0, 0], [1, 1, 1, 1, 1, 1]),
    ]
    for fam, x, y, w in base:
        for mode, specs in (("nbin", [1, 2, 3, 10]), ("binsize", [1, 0.5, 2, 10])):
            for spec in specs:
                cs.append(_mk(r, "adv:" + fam, x, y, w, mode, spec, None, None, rev=True))
        xs = sorted(float(v) for v in x)
        for lo, hi in [(xs[0], xs[-1]), (xs[len(xs) // 2], None), (None, xs[len(xs) // 2]), (xs[0] - 1, xs[-1] + 1)]:
            cs.append(_mk(r, "adv:%s+limits" % fam, x, y, w, "nbin", r.choice([1, 2, 4]), lo, hi))
            cs.append(_mk(r, "adv:%s+limits" % fam, x, y, w, "binsize", r.choice([1, 0.5, 0.25]), lo, hi))
    # no reverse indices: only edges are reported
    cs.append(_mk(r, "adv:norev", [0, 1, 2, 3, 4, 7], None, None, "binsize", 2, None, None, rev=False, api="binner"))
    cs.append(_mk(r, "adv:norev", [0, 1, 2, 3, 4, 7], None, None, "nbin", 3, -1, 9, rev=False, api="binner2"))
    # rejected inputs (no claim; the model must agree on the error class)
    cs.append(_mk(r, "rejected", [1, 2, 3], None, None, "binsize", 1, 10, 20))
    cs.append(_mk(r, "rejected", [1, 2, 3], None, [1, 1, 1], "nbin", 2, 5, None))
    return cs


def _adversarial_num(r):
    cs = []
    base = [
        ([5, 1, 4, 2, 3, 9, 7], [1, 2, 3, 4, 5, 6, 7], None),
        ([5, 1, 4, 2, 3, 9, 7], None, [1, 1, 1, 1, 1, 1, 2.0]),
        ([1, 1, 1, 2, 2, 2, 2, 3], [8, 7, 6, 5, 4, 3, 2, 1], [1, 2, 3, 4, 5, 6, 7, 8]),
        ([0.5], None, [2.0]), ([3, 3], [1, 2], None), ([2, 1], None, None),
        ([0.1 * k for k in range(10, 0, -1)], None, None),
        ([7, -7, 7, -7, 0, 0, 1e-3, -1e-3, 5, 5, 5], None, [1, 2, 3, 4, 5, 6, 7, 8, 9, 10, 11]),
    ]
    for x, y, w in base:
        n = len(x)
        for k in sorted(set([1, 2, 3, max(1, n - 1), n, n + 1, max(1, n // 2)])):
            for ml in (True, False):
                cs.append(_mk(r, "adv:nperbin", x, y, w, "nperbin", k, None, None, mergelast=ml))
        xs = sorted(float(v) for v in x)
        if n > 2:
            cs.append(_mk(r, "adv:nperbin+limits", x, y, w, "nperbin", 2, xs[1], None, mergelast=True))
            cs.append(_mk(r, "adv:nperbin+limits", x, y, w, "nperbin", 2, None, xs[-2], mergelast=False))
            cs.append(_mk(r, "adv:nperbin+limits", x, y, w, "nperbin", 3, xs[1], xs[-2], mergelast=True))
    cs.append(_mk(r, "rejected", [1, 2, 3], None, None, "nperbin", 2, 10, 20))
    return cs


KINDS = ["ints", "ints", "ties", "constant", "floats", "floats", "gauss", "decimal", "sparse", "sparse"]


def _random(ctx, count, big, nperbin):
    r = ctx.rng
    cs = []
    while len(cs) < count:
        kind = r.choice(KINDS)
        n = r.choice([1, 2, 3, r.randrange(1, 12), r.randrange(1, 40), r.randrange(1, big)])
        x = _data(r, kind, n)
        y = _second(r, x) if r.random() < 0.45 else None
        w = _weights(r, n) if r.random() < 0.6 else None
        which = r.choice(["none", "none", "lo", "hi", "both"])
        lo, hi = _limits(r, x, which)
        if nperbin:
            k = r.choice([1, 2, 3, r.randrange(1, n + 2), r.randrange(1, n + 2), max(1, n // r.choice([2, 3, 4]))])
            c = _mk(r, "%s/nperbin/%s" % (kind, which), x, y, w, "nperbin", k, lo, hi, mergelast=r.random() < 0.5)
        else:
            mode = r.choice(["nbin", "binsize"])
            c = _mk(r, "%s/%s/%s" % (kind, mode, which), x, y, w, mode, _spec(r, x, lo, hi, mode), lo, hi)
        e = expected(c)
        if e is not None and e["nbin"] > MAXBIN:
            continue
        if e is None and r.random() < 0.8:
            continue
        cs.append(c)
    return cs


# ----------------------------------------------------------------------------- the real code
UKEYS = ["mean", "std", "err", "median"]
WKEYS = ["mean", "std", "err", "err2"]


def _drive(c):
    import numpy as np
    import esutil.stat as st

    def arr(l):
        if l is None:
            return None
        v = [_num(t) for t in l]
        return np.array(v) if c["container"] == "ndarray" else v
    x, y, w = arr(c["x"]), arr(c["y"]), arr(c["w"])
    kw = {}
    if c["mode"] == "nbin":
        kw["nbin"] = c["spec"]
    elif c["mode"] == "binsize":
        kw["binsize"] = _num(c["spec"])
    else:
        kw["nperbin"] = c["spec"]
        kw["mergelast"] = c["mergelast"]
    if c["min"] is not None:
        kw["min"] = _num(c["min"])
    if c["max"] is not None:
        kw["max"] = _num(c["max"])

    def f():
        if c["api"] == "histogram":
            if w is None:
                b = st.histogram(x, more=True, **kw)
            else:
                b = st.histogram(x, weights=w, more=bool(c["rev"]), rev=c["rev"], **kw)
        else:
            b = st.Binner(x, y=y, weights=w)
            if c["api"] == "binner2":
                b.dohist(rev=c["rev"], calc_stats=False, **kw)
                b.calc_stats()
            else:
                b.dohist(rev=c["rev"], **kw)
        xp = "x" if y is not None else ""
        hist = [int(v) for v in b["hist"]]
        nh = len(hist)
        out = {"hist": hist, "rev": [int(v) for v in b["rev"]] if "rev" in b else []}
        if c["mode"] == "nperbin":
            out["low"] = [float(v).hex() for v in b["low"]]
            out["high"] = [float(v).hex() for v in b["high"]]
            assert "center" not in b and "xcenter" not in b
        else:
            lo, hi, ce = b[xp + "low"], b[xp + "high"], b[xp + "center"]
            assert len(lo) == len(hi) == len(ce)
            out["edges"] = [[float(lo[i]).hex(), float(hi[i]).hex(), float(ce[i]).hex()] for i in range(len(lo))]
        rows = []
        if "rev" in b:
            keys = [xp + k for k in UKEYS]
            if y is not None:
                keys += ["y" + k for k in UKEYS]
            if w is not None:
                keys += ["whist"] + ["w" + xp + k for k in WKEYS]
                if y is not None:
                    keys += ["wy" + k for k in WKEYS]
            colsv = [b[k] for k in keys]
            for col in colsv:
                assert len(col) == nh, "per-bin array of wrong length"
            for i in range(nh):
                rows.append([float(col[i]).hex() for col in colsv])
        else:
            assert not any(k in b for k in ("mean", "xmean", "whist"))
        out["rows"] = rows
        return out
    with warnings.catch_warnings():
        warnings.simplefilter("ignore")
        with np.errstate(all="ignore"):
            return core.guarded(f)


def _classify(c, out):
    """class of a failing case: witnesses from the corpus keep their own name (so that each repaired defect is
    reported with its own replay); otherwise the two as-found single-member-bin rules are recognised on the output
    (Coq-side superset: Spec.has_single_weighted)"""
    fam = c.get("family", "")
    if fam.startswith("corpus:"):
        return fam
    if c["w"] is None or out[0] != "ok" or not out[1]["rows"]:
        return None
    o = out[1]
    rev, rows = o["rev"], o["rows"]
    wh = 8 if c["y"] is not None else 4
    cls = None
    for i, h in enumerate(o["hist"]):
        if h != 1:
            continue
        k = rev[rev[i]]
        wk = _f(c["w"][k])
        row = [float.fromhex(t) for t in rows[i]]
        if row[wh] != wk:
            return "C14.kf_single_member_whist"
        if abs(row[wh + 3] - 1 / math.sqrt(wk)) > 1e-9 / math.sqrt(wk) or row[wh + 4] != 0:
            cls = "C14.kf_single_member_werr"
    return cls


def _cedges(es):
    return "[" + "; ".join("(%s, %s, %s)" % tuple(cfloat(float.fromhex(v)) for v in e) for e in es) + "]"


class Binned(Entry):
    name = "binned"
    search_rounds = 2

    def cases(self, ctx, round=0):
        cs = []
        if round == 0:
            cs += _adversarial_binned(ctx.rng)
        cs += _random(ctx, ctx.n(480, 4000), ctx.n(120, 300), False)
        ctx.rng.shuffle(cs)
        return cs

    def impl(self, c):
        return _drive(c)

    def _input(self, c):
        return "%s %s %s %s %s" % (ccols(c), cbool(c["rev"]), copt_f(c["min"]), copt_f(c["max"]), cmode(c))

    def _out(self, out):
        if out[0] != "ok":
            return "(Err %s)" % out[1]
        o = out[1]
        return "(Ok (mkI %s %s %s %s))" % (clist(o["hist"]), clist(o["rev"]), _cedges(o["edges"]), crows(o["rows"]))

    def term(self, c, out):
        return "v_binned %s %s" % (self._input(c), self._out(out))

    def show(self, c):
        return ("match binner true %s with Ok b => Some (b_hist b, b_rev b, b_edges b, b_rows b) | Err _ => None end"
                % self._input(c))

    def nontrivial(self, c, out):
        e = expected(c)
        if e is None or out[0] != "ok" or not out[1]["rows"]:
            return False
        occ = sum(1 for s in e["sizes"] if s > 0)
        empty = occ < e["nbin"]
        single = any(s == 1 for s in e["sizes"])
        return occ >= 2 and (empty or single or e["ties"] > 0 or e["edge"] > 0 or e["excluded"] > 0)

    def family(self, c):
        return "%s:%s:%s%s" % (c.get("family", "?").split("/")[0], c["mode"],
                               "y" if c["y"] is not None else "-", "w" if c["w"] is not None else "-")

    def classify(self, c, out, v):
        return _classify(c, out)


class NPerBin(Entry):
    name = "nperbin"
    search_rounds = 2

    def __init__(self):
        self.monitors = set()

    def cases(self, ctx, round=0):
        cs = []
        if round == 0:
            cs += _adversarial_num(ctx.rng)
        cs += _random(ctx, ctx.n(320, 2500), ctx.n(120, 300), True)
        ctx.rng.shuffle(cs)
        return cs

    def impl(self, c):
        return _drive(c)

    def _input(self, c):
        return "%s %s %s %s %s" % (ccols(c), copt_f(c["min"]), copt_f(c["max"]), cz(c["spec"]), cbool(c["mergelast"]))

    def term(self, c, out):
        if out[0] != "ok":
            o = "(Err %s)" % out[1]
        else:
            d = out[1]
            o = "(Ok (mkN %s %s %s %s %s))" % (clist(d["hist"]), clist(d["rev"]), chexl(d["low"]), chexl(d["high"]),
                                               crows(d["rows"]))
            n = len(d["rev"]) - len(d["hist"]) - 1
            if c["spec"] >= 1 and n >= 1:
                self.monitors.add((n, c["spec"]))
        return "v_num %s %s" % (self._input(c), o)

    def show(self, c):
        return ("match binner_num true %s with Ok b => Some (n_hist b, n_rev b, n_low b, n_high b, n_rows b) | Err _ => None end"
                % self._input(c))

    def nontrivial(self, c, out):
        e = expected(c)
        if e is None or out[0] != "ok":
            return False
        return e["nbin"] >= 2 and (e["short"] > 0 or e["ties"] > 0 or e["excluded"] > 0 or 1 in e["sizes"])

    def family(self, c):
        return "%s:nperbin:%s%s:%s" % (c.get("family", "?").split("/")[0], "y" if c["y"] is not None else "-",
                                       "w" if c["w"] is not None else "-", "merge" if c["mergelast"] else "nomerge")

    def classify(self, c, out, v):
        return _classify(c, out)


ENTRIES = [Binned(), NPerBin()]

TRUSTED = [
    "Coq 8.16.1 kernel (coqc, vm_compute; no native_compute); C14 theorems are closed under the global context except "
    "for the kernel's primitive binary64 operations (PrimFloat, Prim2SF) through which C05's bin numbers and the bin "
    "edges are computed",
    "hand-written model C14/Model.v of Binner.calc_stats, _hist_by_num, _merge_last and the rev/statistics option handling "
    "(on top of C05's model of the histogram pass and C18's exact-rational wmom1); tied to the working tree by the "
    "correspondence run on every check (hist, rev, low/high/center bit-for-bit; statistics within 1e-9 of the exact "
    "rational value relative to a condition-aware scale; differential testing, bounded by the generators)",
    "modelled, not verified: numpy reductions mean/std/median/sum/sqrt and binary64 rounding of the statistics (compared "
    "with tolerance 1e-9*(scale), not bounded by proof), numpy's stable argsort, astype(float64), view/slice assignment "
    "semantics in _merge_last, float -> int64 conversion",
    "nperbin: the bin number np.int64(i/float(nperbin)) is modelled as the integer quotient; a monitor evaluates C05's "
    "bit-exact binary64 bin number against it for every (n, nperbin) explored",
    "translator harness/props/c14_translate.py (python ast, fail-closed): re-reads on every run what each key is assigned in "
    "the single-member and several-member branches of the statistics loop and the constants -9999.0 / 0 / 0.5, compared in "
    "Coq with the tables of Model.v, which Proofs.tables_are_the_model ties to the model",
    "python harness (harness/props/C14.py): drivers, key names of the result dictionary, hex-float printer; coqc "
    "evaluating Exec.v verdict terms",
]


def run(ctx, replay=None):
    ctx.rule = ("every case runs the real Binner/histogram on (x, y, weights, binsize|nbin|nperbin, min, max, rev, mergelast); "
                "Coq evaluates agree (hist, rev, edges / low, high bit-exact and every statistic within 1e-9*scale of the "
                "model's exact rational) and ok (verified checkers binned_check / num_check on the reported values with bin "
                "members taken from the data).  non-trivial: >= 2 occupied bins and (an empty bin, a single-member bin, a tie, "
                "an edge value, an excluded datum or a short last bin).  distinct by canonical JSON.")
    ctx.trusted = TRUSTED
    core.proof_step(ctx, "C14", core.ALLOW_FLOAT)
    # exact rational statistics cost 0.05-1 s per case: size the shards so that all cores are used (the
    # default of 400 terms per file would leave most of them idle)
    orig = core.coq_eval

    def sized(workdir, preamble, terms, ty="Z", shard=400, **kw):
        return orig(workdir, preamble, terms, ty=ty, shard=min(shard, max(8, min(100, -(-len(terms) // core.NCPU)))), **kw)
    core.coq_eval = sized
    # tie to the source: the assignment tables and constants of Binner.calc_stats, re-read from the tree under check
    if replay is None:
        what = ("tie: tables/constants of Binner.calc_stats read from esutil/stat/util.py (python ast) = those of "
                "C14/Model.v (single-member and several-member branch, sentinel, whist init, centre factor)")
        try:
            tabs = c14_translate.read(ctx.impl)
            vals = core.coq_eval(ctx.work + "/tie", PRE, [c14_translate.coq_term(tabs)], tag="tie", shard=1)
            ok = vals[0].strip("() ").replace("%Z", "") == "0"
            ctx.obligation(what, ok, "" if ok else str(tabs))
            if not ok:
                ctx.violation("the statistics loop of esutil/stat/util.py no longer assigns what the model says (tables read "
                              "from the source differ from C14/Model.v)",
                              {"kind": "translation", "tables": tabs,
                               "no_longer_checks": "tie of C14.Model.{single,many}_*_table / sentinel / center_factor to util.py "
                                                   "(Proofs.tables_are_the_model)"}, found_input=False)
        except (c14_translate.TranslateError, core.CoqEvalError) as e:
            ctx.obligation(what, False, str(e)[-600:])
            ctx.violation("esutil/stat/util.py: Binner.calc_stats could not be read by the fail-closed translator: %s" % str(e)[:300],
                          {"kind": "translation", "error": str(e)[-1500:],
                           "no_longer_checks": "tie of C14.Model tables to util.py"}, found_input=False)
    differential(ctx, PRE, ENTRIES, replay)
    ent = ENTRIES[1]
    if ent.monitors:
        pairs = sorted(ent.monitors)
        try:
            vals = core.coq_eval(ctx.work + "/monitor", PRE, ["if nperbin_monitor %s %s then 0 else 1" % (cz(n), cz(k))
                                                              for n, k in pairs], tag="monitor")
            bad = [p for p, v in zip(pairs, vals) if v.strip("() ").replace("%Z", "") != "0"]
        except core.CoqEvalError as e:
            bad = None
            ctx.notes.append(str(e)[-1500:])
        ctx.obligation("nperbin monitor: binary64 bin number = integer quotient on all %d (n, nperbin) pairs explored" % len(pairs),
                       bad == [], "" if bad is None else "%d failing" % len(bad or []))
        if bad is None:
            ctx.violation("nperbin monitor case file does not evaluate in Coq", {"kind": "monitor-file"}, found_input=False)
        elif bad:
            ctx.violation("nperbin monitor fails: np.int64(i/float(k)) is not i // k (model assumption, not an esutil defect)",
                          {"kind": "contract-monitor", "pairs": bad[:5],
                           "no_longer_checks": "assumption of C14.Model.hist_by_num"}, found_input=False)
    if not ctx.quick() and replay is None:
        try:
            vals = core.coq_eval(ctx.work + "/sweep", PRE, ["if num_sweep [0; 1; 2]%float 5 then 0 else 1"], tag="sweep", shard=1)
        except core.CoqEvalError as e:
            vals = ["1"]
            ctx.notes.append(str(e)[-1500:])
        ctx.obligation("sweep: nperbin model satisfies the chunk checker for all data over {0,1,2} of length <= 5, "
                       "all nperbin in 1..n+1, mergelast on/off (vm_compute)", vals[0].strip() == "0")
        ctx.exhaustive = True

"""C05 — fail-closed translator of the constants and small decisions of the anchored code.

Reads esutil/stat/util.py (python ast) and esutil/stat/chist_pywrap.c (regular expressions) of the
tree under test and prints Coq definitions `gen_*`.  Exec.v's `consts_agree` compares them with the
named constants of Model.v (which Proofs.v ties to the model's functions by reflexivity lemmas), so
a changed constant in the source changes the statement that is re-checked on every run.  Anything
the translator does not recognise raises TranslateError (the run reports a broken tie).
"""
import ast
import os
import re


class TranslateError(Exception):
    pass


def _need(cond, what):
    if not cond:
        raise TranslateError("c05_translate: cannot recognise " + what)


def _func(tree, name, cls=None):
    body = tree.body
    if cls is not None:
        cs = [n for n in body if isinstance(n, ast.ClassDef) and n.name == cls]
        _need(len(cs) == 1, "class " + cls)
        body = cs[0].body
    fs = [n for n in body if isinstance(n, ast.FunctionDef) and n.name == name]
    _need(len(fs) == 1, "function " + name)
    return fs[0]


def _src(node):
    return ast.unparse(node)


def _assigns(fn, target):
    """source text of every right-hand side assigned to the plain name `target` inside fn"""
    out = []
    for n in ast.walk(fn):
        if isinstance(n, ast.Assign) and len(n.targets) == 1 and _src(n.targets[0]) == target:
            out.append(_src(n.value))
    return out


def _int_tail(expr, prefix):
    """expr == prefix + ' + <int>' or prefix + ' - <int>'  ->  the signed int"""
    if expr == prefix:
        return 0
    m = re.fullmatch(re.escape(prefix) + r" ([+-]) (\d+)", expr)
    _need(m is not None, "%r as %r +/- constant" % (expr, prefix))
    return int(m.group(2)) * (1 if m.group(1) == "+" else -1)


def from_python(path):
    tree = ast.parse(open(path).read())
    g = {}
    # --- histogram(): default bin size, nbin overrides binsize
    h = _func(tree, "histogram")
    names = [a.arg for a in h.args.args]
    defaults = dict(zip(names[len(names) - len(h.args.defaults):], h.args.defaults))
    _need("binsize" in defaults and isinstance(defaults["binsize"], ast.Constant)
          and isinstance(defaults["binsize"].value, (int, float)), "default of histogram(binsize=)")
    g["default_binsize"] = float(defaults["binsize"].value)
    _need("nbin" in defaults and isinstance(defaults["nbin"], ast.Constant) and defaults["nbin"].value is None,
          "default None of histogram(nbin=)")
    ov = [n for n in h.body if isinstance(n, ast.If) and _src(n.test) == "nbin is not None"
          and len(n.body) == 1 and _src(n.body[0]) == "binsize = None" and not n.orelse]
    g["hist_nbin_overrides"] = len(ov) == 1
    # --- Binner.dohist(): defaults None
    d = _func(tree, "dohist", "Binner")
    names = [a.arg for a in d.args.args]
    defaults = dict(zip(names[len(names) - len(d.args.defaults):], d.args.defaults))
    for k in ("binsize", "nbin", "min", "max"):
        _need(k in defaults and isinstance(defaults[k], ast.Constant) and defaults[k].value is None,
              "default None of dohist(%s=)" % k)
    # --- _hist_by_binsize_or_nbin: which keyword is looked at first, and the + 1
    f = _func(tree, "_hist_by_binsize_or_nbin", "Binner")
    ifs = [n for n in f.body if isinstance(n, ast.If)]
    _need(len(ifs) >= 1, "if-chain of _hist_by_binsize_or_nbin")
    top = ifs[0]
    _need(_src(top.test) == "binsize is not None" and len(top.orelse) == 1 and isinstance(top.orelse[0], ast.If)
          and _src(top.orelse[0].test) == "nbin is not None", "binsize-then-nbin test order")
    g["binner_binsize_first"] = True
    rhs = _assigns(ast.Module(body=top.body, type_ignores=[]), "nbin")
    _need(len(rhs) == 1, "nbin assignment")
    g["nbin_plus"] = _int_tail(rhs[0], "np.int64((self.dmax - self.dmin) / binsize)")
    rhs = _assigns(ast.Module(body=top.orelse[0].body, type_ignores=[]), "binsize")
    _need(rhs == ["float(self.dmax - self.dmin) / nbin"], "binsize = float(dmax - dmin) / nbin")
    # --- stable sort
    f = _func(tree, "_get_sort_index", "Binner")
    rhs = _assigns(f, "self.sort_index")
    _need(len(rhs) == 1, "sort_index assignment")
    g["sort_stable"] = rhs[0] in ("self.x.argsort(kind='stable')", "self.x.argsort(kind='mergesort')")
    # --- limits are inclusive at both ends
    f = _func(tree, "_get_minmax_and_indices", "Binner")
    wh = [n for n in ast.walk(f) if isinstance(n, ast.Call) and _src(n.func) == "np.where"]
    _need(len(wh) == 1 and len(wh[0].args) == 1, "np.where selection")
    sel = _src(wh[0].args[0])
    m = re.fullmatch(r"\(self\.x\[s\] (>=|>) xmin\) & \(self\.x\[s\] (<=|<) xmax\)", sel)
    _need(m is not None, "selection expression %r" % sel)
    g["lo_inclusive"] = m.group(1) == ">="
    g["hi_inclusive"] = m.group(2) == "<="
    # --- size of the reverse-index array (both engines)
    f = _func(tree, "_do_hist", "Binner")
    rhs = _assigns(f, "revsize")
    _need(len(rhs) == 2 and rhs[0] == rhs[1], "two identical revsize assignments")
    g["rev_extra"] = _int_tail(rhs[0], "sortind.size + nbin")
    # --- the python pass
    f = _func(tree, "_dohist")
    rhs = _assigns(f, "binnum_old")
    _need(len(rhs) == 2 and rhs[1] == "binnum", "binnum_old assignments")
    g["py_binold_init"] = int(ast.literal_eval(rhs[0]))
    rhs = _assigns(f, "offset")
    _need(len(rhs) == 1, "offset initialisation")
    g["py_offset_init"] = _int_tail(rhs[0], "nbin")
    rhs = _assigns(f, "offset_end")
    _need(len(rhs) == 2, "offset_end assignments")
    g["py_offset_end_init"] = _int_tail(rhs[0], "nbin")
    g["py_offset_end_step"] = _int_tail(rhs[1], "offset")
    rhs = _assigns(f, "binnum")
    _need(rhs == ["np.int64((val - dmin) / binsize)"], "python bin number expression")
    tests = [_src(n.test) for n in ast.walk(f) if isinstance(n, ast.If)]
    _need("binnum >= 0 and binnum < nbin" in tests and "binnum > binnum_old" in tests, "python bin tests")
    return g


def from_c(path):
    txt = open(path).read()
    txt = re.sub(r"//[^\n]*", "", txt)
    txt = re.sub(r"/\*.*?\*/", "", txt, flags=re.S)
    flat = re.sub(r"\s+", "", txt)
    g = {}

    def one(pattern, what):
        ms = re.findall(pattern, flat)
        _need(len(ms) == 1, "%s in chist_pywrap.c (%d matches)" % (what, len(ms)))
        return ms[0]
    _need('"OdOdOO"' in flat, 'argument format "OdOdOO" (min and binsize are C doubles)')
    g["c_binold_init"] = int(one(r"binnum_old=(-?\d+);", "binnum_old initialisation"))
    g["c_offset_end_init"] = int(one(r"offset_end=nbin\+(\d+);", "offset_end initialisation"))
    g["c_offset_step"] = int(one(r"offset=i\+nbin\+(\d+);", "offset = i + nbin + 1"))
    g["c_offset_end_step"] = int(one(r"offset_end=offset\+(\d+);", "offset_end = offset + 1"))
    one(r"binnum=\(npy_int64\)\(\(thisdata-datamin\)/binsize\);", "C bin number expression")
    one(r"if\(binnum>=0&&binnum<nbin\)\{", "C bin validity test")
    one(r"if\(dorev&&\(binnum>binnum_old\)\)\{", "C new-bin test")
    one(r"for\(i=0;i<ndata;i\+\+\)\{", "C loop header")
    _need(len(re.findall(r"while\(tbin<=(binnum|nbin)\)\{", flat)) == 2, "C fill loops")
    # the loop bounds are the sizes of the arrays, assigned once and never adjusted
    one(r"ndata=PyArray_SIZE\(sort_pyobj\);", "ndata = PyArray_SIZE(sort_pyobj)")
    one(r"nbin=PyArray_SIZE\(hist_pyobj\);", "nbin = PyArray_SIZE(hist_pyobj)")
    _need(len(re.findall(r"ndata(=[^=]|\+=|-=|\+\+|--)", flat)) == 2 and len(re.findall(r"nbin(=[^=]|\+=|-=|\+\+|--)", flat)) == 2,
          "ndata / nbin assigned exactly once after their declaration")
    _need(len(re.findall(r"for\(", flat)) == 1 and len(re.findall(r"while\(", flat)) == 2, "exactly one for and two while loops")
    return g


def translate(impl_root):
    """returns (dict of constants, Coq text defining gen_*)"""
    g = from_python(os.path.join(impl_root, "esutil", "stat", "util.py"))
    g.update(from_c(os.path.join(impl_root, "esutil", "stat", "chist_pywrap.c")))
    lines = ["(* generated by harness/props/c05_translate.py from the tree under test *)"]
    for k in sorted(g):
        v = g[k]
        if isinstance(v, bool):
            lines.append("Definition gen_%s : bool := %s." % (k, "true" if v else "false"))
        elif isinstance(v, float):
            lines.append("Definition gen_%s : PrimFloat.float := %s%%float." % (k, v.hex()))
        else:
            lines.append("Definition gen_%s : Z := (%d)%%Z." % (k, v))
    return g, "\n".join(lines) + "\n"


if __name__ == "__main__":
    import sys
    print(translate(sys.argv[1])[1])

"""C05 — fail-closed translator of the constants and small decisions of the anchored code.

Reads esutil/stat/util.py (python ast) and esutil/stat/chist_pywrap.c (regular expressions) of the
tree under test and prints Coq definitions `gen_*`.  Exec.v's `consts_agree` compares them with the
named constants of Model.v (which Proofs.v ties to the model's functions by reflexivity lemmas), so
a changed constant in the source changes the statement that is re-checked on every run.  Anything
the translator does not recognise raises TranslateError (the run reports a broken tie).
"""
import ast
import os
import re


class TranslateError(Exception):
    pass


def _need(cond, what):
    if not cond:
        raise TranslateError("c05_translate: cannot recognise " + what)


def _func(tree, name, cls=None):
    body = tree.body
    if cls is not None:
        cs = [n for n in body if isinstance(n, ast.ClassDef) and n.name == cls]
        _need(len(cs) == 1, "class " + cls)
        body = cs[0].body
    fs = [n for n in body if isinstance(n, ast.FunctionDef) and n.name == name]
    _need(len(fs) == 1, "function " + name)
    return fs[0]


def _src(node):
    return ast.unparse(node)


def _assigns(fn, target):
    """source text of every right-hand side assigned to the plain name `target` inside fn"""
    out = []
    for n in ast.walk(fn):
        if isinstance(n, ast.Assign) and len(n.targets) == 1 and _src(n.targets[0]) == target:
            out.append(_src(n.value))
    return out


def _int_tail(expr, prefix):
    """expr == prefix + ' + <int>' or prefix + ' - <int>'  ->  the signed int"""
    if expr == prefix:
        return 0
    m = re.fullmatch(re.escape(prefix) + r" ([+-]) (\d+)", expr)
    _need(m is not None, "%r as %r +/- constant" % (expr, prefix))
    return int(m.group(2)) * (1 if m.group(1) == "+" else -1)


def from_python(path):
    tree = ast.parse(open(path).read())
    g = {}
    # --- histogram(): default bin size, nbin overrides binsize
    h = _func(tree, "histogram")
    names = [a.arg for a in h.args.args]
    defaults = dict(zip(names[len(names) - len(h.args.defaults):], h.args.defaults))
    _need("binsize" in defaults and isinstance(defaults["binsize"], ast.Constant)
          and isinstance(defaults["binsize"].value, (int, float)), "default of histogram(binsize=)")
    g["default_binsize"] = float(defaults["binsize"].value)
    _need("nbin" in defaults and isinstance(defaults["nbin"], ast.Constant) and defaults["nbin"].value is None,
          "default None of histogram(nbin=)")
    ov = [n for n in h.body if isinstance(n, ast.If) and _src(n.test) == "nbin is not None"
          and len(n.body) == 1 and _src(n.body[0]) == "binsize = None" and not n.orelse]
    g["hist_nbin_overrides"] = len(ov) == 1
    # --- Binner.dohist(): defaults None
    d = _func(tree, "dohist", "Binner")
    names = [a.arg for a in d.args.args]
    defaults = dict(zip(names[len(names) - len(d.args.defaults):], d.args.defaults))
    for k in ("binsize", "nbin", "min", "max"):
        _need(k in defaults and isinstance(defaults[k], ast.Constant) and defaults[k].value is None,
              "default None of dohist(%s=)" % k)
    # --- _hist_by_binsize_or_nbin: which keyword is looked at first, and the + 1
    f = _func(tree, "_hist_by_binsize_or_nbin", "Binner")
    ifs = [n for n in f.body if isinstance(n, ast.If)]
    _need(len(ifs) >= 1, "if-chain of _hist_by_binsize_or_nbin")
    top = ifs[0]
    _need(_src(top.test) == "binsize is not None" and len(top.orelse) == 1 and isinstance(top.orelse[0], ast.If)
          and _src(top.orelse[0].test) == "nbin is not None", "binsize-then-nbin test order")
    g["binner_binsize_first"] = True
    rhs = _assigns(ast.Module(body=top.body, type_ignores=[]), "nbin")
    _need(len(rhs) == 1, "nbin assignment")
    g["nbin_plus"] = _int_tail(rhs[0], "np.int64((self.dmax - self.dmin) / binsize)")
    rhs = _assigns(ast.Module(body=top.orelse[0].body, type_ignores=[]), "binsize")
    _need(rhs == ["float(self.dmax - self.dmin) / nbin"], "binsize = float(dmax - dmin) / nbin")
    # --- stable sort
    f = _func(tree, "_get_sort_index", "Binner")
    rhs = _assigns(f, "self.sort_index")
    _need(len(rhs) == 1, "sort_index assignment")
    g["sort_stable"] = rhs[0] in ("self.x.argsort(kind='stable')", "self.x.argsort(kind='mergesort')")
    # --- limits are inclusive at both ends
    f = _func(tree, "_get_minmax_and_indices", "Binner")
    wh = [n for n in ast.walk(f) if isinstance(n, ast.Call) and _src(n.func) == "np.where"]
    _need(len(wh) == 1 and len(wh[0].args) == 1, "np.where selection")
    sel = _src(wh[0].args[0])
    m = re.fullmatch(r"\(self\.x\[s\] (>=|>) xmin\) & \(self\.x\[s\] (<=|<) xmax\)", sel)
    _need(m is not None, "selection expression %r" % sel)
    # (pinned) limits: the keyword as a float, else the first / last element in sort order; the selection is
    # made whenever a limit is given; an empty selection raises ValueError
    _need(_assigns(f, "xmin") == ["float(min)", "self.x[s[0]]"] and _assigns(f, "xmax") == ["float(max)", "self.x[s[-1]]"],
          "xmin / xmax assignments")
    _need(_assigns(f, "dowhere") == ["False", "True", "True"], "dowhere assignments")
    emp = [n for n in ast.walk(f) if isinstance(n, ast.If) and _src(n.test) == "w.size == 0"]
    _need(len(emp) == 1 and len(emp[0].body) == 1 and isinstance(emp[0].body[0], ast.Raise)
          and _src(emp[0].body[0]).startswith("raise ValueError("), "ValueError on an empty selection")
    _need(_assigns(f, "self['wsort']") == ["s[w]", "s"], "wsort assignments")
    g["lo_inclusive"] = m.group(1) == ">="
    g["hi_inclusive"] = m.group(2) == "<="
    # --- size of the reverse-index array (both engines)
    f = _func(tree, "_do_hist", "Binner")
    rhs = _assigns(f, "revsize")
    _need(len(rhs) == 2 and rhs[0] == rhs[1], "two identical revsize assignments")
    g["rev_extra"] = _int_tail(rhs[0], "sortind.size + nbin")
    # --- the python pass
    f = _func(tree, "_dohist")
    rhs = _assigns(f, "binnum_old")
    _need(len(rhs) == 2 and rhs[1] == "binnum", "binnum_old assignments")
    g["py_binold_init"] = int(ast.literal_eval(rhs[0]))
    rhs = _assigns(f, "offset")
    _need(len(rhs) == 1, "offset initialisation")
    g["py_offset_init"] = _int_tail(rhs[0], "nbin")
    rhs = _assigns(f, "offset_end")
    _need(len(rhs) == 2, "offset_end assignments")
    g["py_offset_end_init"] = _int_tail(rhs[0], "nbin")
    g["py_offset_end_step"] = _int_tail(rhs[1], "offset")
    # (bin number expression and bin tests: translated by gen_terms, tied by lemmas)
    return g


def from_c(path):
    txt = open(path).read()
    txt = re.sub(r"//[^\n]*", "", txt)
    txt = re.sub(r"/\*.*?\*/", "", txt, flags=re.S)
    flat = re.sub(r"\s+", "", txt)
    g = {}

    def one(pattern, what):
        ms = re.findall(pattern, flat)
        _need(len(ms) == 1, "%s in chist_pywrap.c (%d matches)" % (what, len(ms)))
        return ms[0]
    _need('"OdOdOO"' in flat, 'argument format "OdOdOO" (min and binsize are C doubles)')
    g["c_binold_init"] = int(one(r"binnum_old=(-?\d+);", "binnum_old initialisation"))
    g["c_offset_end_init"] = int(one(r"offset_end=nbin\+(\d+);", "offset_end initialisation"))
    g["c_offset_step"] = int(one(r"offset=i\+nbin\+(\d+);", "offset = i + nbin + 1"))
    g["c_offset_end_step"] = int(one(r"offset_end=offset\+(\d+);", "offset_end = offset + 1"))
    # (bin number expression and bin tests: translated by gen_terms, tied by lemmas)
    one(r"for\(i=0;i<ndata;i\+\+\)\{", "C loop header")
    _need(len(re.findall(r"while\(tbin<=(binnum|nbin)\)\{", flat)) == 2, "C fill loops")
    # the loop bounds are the sizes of the arrays, assigned once and never adjusted
    one(r"ndata=PyArray_SIZE\(sort_pyobj\);", "ndata = PyArray_SIZE(sort_pyobj)")
    one(r"nbin=PyArray_SIZE\(hist_pyobj\);", "nbin = PyArray_SIZE(hist_pyobj)")
    _need(len(re.findall(r"ndata(=[^=]|\+=|-=|\+\+|--)", flat)) == 2 and len(re.findall(r"nbin(=[^=]|\+=|-=|\+\+|--)", flat)) == 2,
          "ndata / nbin assigned exactly once after their declaration")
    _need(len(re.findall(r"for\(", flat)) == 1 and len(re.findall(r"while\(", flat)) == 2, "exactly one for and two while loops")
    return g


# ----------------------------------------------------------------------------- expressions -> Gallina
# Typed translation of the few expressions the theorems are about.  Types: F (binary64), Z, B (bool),
# OF / OZ (optional float / int keyword).  Anything else raises TranslateError (fail closed).
PYVARS = {"self.dmax": ("dmax", "F"), "self.dmin": ("dmin", "F"), "dmin": ("dmin", "F"), "binsize": ("binsize", "F"),
          "nbin": ("nbin", "Z"), "val": ("val", "F"), "xmin": ("xmin", "F"), "xmax": ("xmax", "F"), "self.x[s]": ("v", "F"),
          "binnum": ("binnum", "Z"), "binnum_old": ("binnum_old", "Z")}
FOP = {ast.Sub: "PrimFloat.sub", ast.Add: "PrimFloat.add", ast.Mult: "PrimFloat.mul", ast.Div: "PrimFloat.div"}
ZOP = {ast.Sub: "Z.sub", ast.Add: "Z.add", ast.Mult: "Z.mul"}


def _coerceF(t):
    term, ty = t
    if ty == "F":
        return term
    _need(ty == "Z", "a number where %s stands" % term)
    return "(float_of_Z %s)" % term


def _cmp(op, a, b):
    """a `op` b on operands of one type; written the way Model.v writes comparisons (<= and < only)"""
    (ta, tya), (tb, tyb) = a, b
    if tya == "Z" and tyb == "Z":
        le, lt = "(%s <=? %s)%%Z", "(%s <? %s)%%Z"
    else:
        ta, tb = _coerceF(a), _coerceF(b)
        le, lt = "(PrimFloat.leb %s %s)", "(PrimFloat.ltb %s %s)"
    if op in (ast.GtE, ">="):
        return le % (tb, ta), "B"
    if op in (ast.Gt, ">"):
        return lt % (tb, ta), "B"
    if op in (ast.LtE, "<="):
        return le % (ta, tb), "B"
    if op in (ast.Lt, "<"):
        return lt % (ta, tb), "B"
    raise TranslateError("c05_translate: comparison operator %r outside the subset" % (op,))


def py_expr(e, optvars=()):
    if isinstance(e, ast.Constant) and isinstance(e.value, int) and not isinstance(e.value, bool):
        return "(%d)%%Z" % e.value, "Z"
    src = _src(e)
    if src in optvars:
        return src, "O"
    if src in PYVARS:
        return PYVARS[src]
    if isinstance(e, ast.Call) and not e.keywords and len(e.args) == 1:
        f = _src(e.func)
        a = py_expr(e.args[0], optvars)
        if f == "np.int64":
            _need(a[1] == "F", "np.int64 of a float expression")
            return "(f2z_trunc %s)" % a[0], "Z"
        if f == "float":
            return _coerceF(a), "F"
    if isinstance(e, ast.BinOp) and type(e.op) in FOP:
        a, b = py_expr(e.left, optvars), py_expr(e.right, optvars)
        if a[1] == "Z" and b[1] == "Z" and type(e.op) in ZOP:
            return "(%s %s %s)" % (ZOP[type(e.op)], a[0], b[0]), "Z"
        return "(%s %s %s)" % (FOP[type(e.op)], _coerceF(a), _coerceF(b)), "F"
    if isinstance(e, ast.BinOp) and isinstance(e.op, ast.BitAnd):
        a, b = py_expr(e.left, optvars), py_expr(e.right, optvars)
        _need(a[1] == "B" and b[1] == "B", "& of two comparisons")
        return "(%s && %s)" % (a[0], b[0]), "B"
    if isinstance(e, ast.BoolOp):
        parts = [py_expr(v, optvars) for v in e.values]
        _need(all(p[1] == "B" for p in parts), "and/or of tests")
        return "(" + (" && " if isinstance(e.op, ast.And) else " || ").join(p[0] for p in parts) + ")", "B"
    if isinstance(e, ast.Compare) and len(e.ops) == 1:
        l, r = e.left, e.comparators[0]
        if isinstance(e.ops[0], (ast.IsNot, ast.Is)) and isinstance(r, ast.Constant) and r.value is None:
            _need(_src(l) in optvars, "`is None` test of a keyword")
            t = "(is_some %s)" % _src(l)
            return (t if isinstance(e.ops[0], ast.IsNot) else "(negb %s)" % t), "B"
        return _cmp(type(e.ops[0]), py_expr(l, optvars), py_expr(r, optvars))
    raise TranslateError("c05_translate: expression %r outside the subset" % src)


# --- C: a recursive-descent parser for casts, + - * / and parentheses over known variables
CVARS = {"thisdata": ("thisdata", "F"), "datamin": ("datamin", "F"), "binsize": ("binsize", "F"),
         "binnum": ("binnum", "Z"), "nbin": ("nbin", "Z"), "binnum_old": ("binnum_old", "Z")}


def c_expr(text):
    toks = re.findall(r"[A-Za-z_]\w*|\d+|[()+\-*/]", text)
    _need("".join(toks) == re.sub(r"\s+", "", text), "C expression %r" % text)
    pos = [0]

    def peek():
        return toks[pos[0]] if pos[0] < len(toks) else None

    def eat(t=None):
        tok = peek()
        _need(tok is not None and (t is None or tok == t), "C expression %r" % text)
        pos[0] += 1
        return tok

    def primary():
        tok = peek()
        if tok == "(":
            if pos[0] + 2 < len(toks) and toks[pos[0] + 1] == "npy_int64" and toks[pos[0] + 2] == ")":
                pos[0] += 3
                a = unary()
                _need(a[1] == "F", "(npy_int64) of a double expression")
                return "(f2z_trunc %s)" % a[0], "Z"
            eat("(")
            a = expr()
            eat(")")
            return a
        tok = eat()
        if tok.isdigit():
            return "(%s)%%Z" % tok, "Z"
        _need(tok in CVARS, "C variable %r" % tok)
        return CVARS[tok]

    def unary():
        return primary()

    def term():
        a = unary()
        while peek() in ("*", "/"):
            op = eat()
            b = unary()
            a = ("(%s %s %s)" % ("PrimFloat.mul" if op == "*" else "PrimFloat.div", _coerceF(a), _coerceF(b)), "F")
        return a

    def expr():
        a = term()
        while peek() in ("+", "-"):
            op = eat()
            b = term()
            if a[1] == "Z" and b[1] == "Z":
                a = ("(%s %s %s)" % ("Z.add" if op == "+" else "Z.sub", a[0], b[0]), "Z")
            else:
                a = ("(%s %s %s)" % ("PrimFloat.add" if op == "+" else "PrimFloat.sub", _coerceF(a), _coerceF(b)), "F")
        return a
    a = expr()
    _need(peek() is None, "C expression %r" % text)
    return a


def c_cond(text):
    """conjunction of simple comparisons; the flag dorev is on (the reverse indices are what C05 is about)"""
    parts = []
    for piece in text.split("&&"):
        piece = piece.strip()
        while piece.startswith("(") and piece.endswith(")"):
            piece = piece[1:-1].strip()
        if piece == "dorev":
            continue
        m = re.fullmatch(r"(\w+)\s*(>=|<=|>|<)\s*(\w+)", piece)
        _need(m is not None, "C condition %r" % piece)
        parts.append(_cmp(m.group(2), c_expr(m.group(1)), c_expr(m.group(3)))[0])
    _need(parts, "C condition %r" % text)
    return "(" + " && ".join(parts) + ")"


def gen_terms(pypath, cpath):
    """Gallina definitions translated from the expressions / tests / keyword handling of the source"""
    tree = ast.parse(open(pypath).read())
    d = []
    # bin count from bin size, bin size from bin count
    f = _func(tree, "_hist_by_binsize_or_nbin", "Binner")
    top = [n for n in f.body if isinstance(n, ast.If)][0]
    a_nbin = [n for n in top.body if isinstance(n, ast.Assign) and _src(n.targets[0]) == "nbin"]
    a_bs = [n for n in top.orelse[0].body if isinstance(n, ast.Assign) and _src(n.targets[0]) == "binsize"]
    _need(len(a_nbin) == 1 and len(a_bs) == 1, "derivations of nbin / binsize")
    t = py_expr(a_nbin[0].value)
    _need(t[1] == "Z", "an integer bin count")
    d.append("Definition gen_nbin_of_binsize (dmin dmax binsize : PrimFloat.float) : Z := %s." % t[0])
    t = py_expr(a_bs[0].value)
    d.append("Definition gen_binsize_of_nbin (dmin dmax : PrimFloat.float) (nbin : Z) : PrimFloat.float := %s." % _coerceF(t))
    # which keyword decides: the if-chain as a match on the optional keywords
    def chain(node):
        if isinstance(node, ast.If):
            test = _src(node.test)
            m = re.fullmatch(r"(binsize|nbin) is not None", test)
            _need(m is not None and len(node.orelse) == 1, "if-chain of _hist_by_binsize_or_nbin")
            var = m.group(1)
            other = "nbin" if var == "binsize" else "binsize"
            _need(any(isinstance(n, ast.Assign) and _src(n.targets[0]) == other for n in node.body), "branch derives " + other)
            return "match %s with Some v => Some (%s v) | None => %s end" % (
                var, "ByBinsize" if var == "binsize" else "ByNbin", chain(node.orelse[0]))
        _need(isinstance(node, ast.Raise), "final raise of the if-chain")
        return "None"
    d.append("Definition gen_mode (binsize : option PrimFloat.float) (nbin : option Z) : option mode := %s." % chain(top))
    # dohist: which calls reach _hist_by_binsize_or_nbin
    f = _func(tree, "dohist", "Binner")
    ifs = [n for n in f.body if isinstance(n, ast.If) and _src(n.test) == "nperbin is not None"]
    _need(len(ifs) == 1 and len(ifs[0].orelse) == 1 and isinstance(ifs[0].orelse[0], ast.If), "dohist dispatch")
    disp = ifs[0].orelse[0]
    _need(any("_hist_by_binsize_or_nbin" in _src(n) for n in disp.body) and len(disp.orelse) == 1
          and isinstance(disp.orelse[0], ast.Raise) and "ValueError" in _src(disp.orelse[0]), "dohist dispatch branches")
    d.append("Definition gen_dohist_accepts (binsize : option PrimFloat.float) (nbin : option Z) : bool := %s."
             % py_expr(disp.test, ("binsize", "nbin"))[0])
    # histogram(): nbin switches the bin size off
    f = _func(tree, "histogram")
    pre = [n for n in f.body if isinstance(n, ast.If) and "binsize" in _src(n)]
    if pre:
        _need(len(pre) == 1 and len(pre[0].body) == 1 and _src(pre[0].body[0]) == "binsize = None" and not pre[0].orelse,
              "histogram(): binsize switched off")
        body = "if %s then None else binsize" % py_expr(pre[0].test, ("binsize", "nbin"))[0]
    else:
        body = "binsize"
    d.append("Definition gen_hist_binsize (binsize : option PrimFloat.float) (nbin : option Z) : option PrimFloat.float := %s." % body)
    # the selection
    f = _func(tree, "_get_minmax_and_indices", "Binner")
    wh = [n for n in ast.walk(f) if isinstance(n, ast.Call) and _src(n.func) == "np.where"]
    _need(len(wh) == 1 and len(wh[0].args) == 1, "np.where selection")
    t = py_expr(wh[0].args[0])
    _need(t[1] == "B", "selection test")
    d.append("Definition gen_within (xmin xmax v : PrimFloat.float) : bool := %s." % t[0])
    # the python pass
    f = _func(tree, "_dohist")
    a = [n for n in ast.walk(f) if isinstance(n, ast.Assign) and _src(n.targets[0]) == "binnum"]
    _need(len(a) == 1, "python bin number")
    t = py_expr(a[0].value)
    _need(t[1] == "Z", "integer bin number")
    d.append("Definition gen_py_binnum (val dmin binsize : PrimFloat.float) : Z := %s." % t[0])
    tests = [n.test for n in ast.walk(f) if isinstance(n, ast.If)]
    valid = [t for t in tests if "binnum" in _src(t) and "nbin" in _src(t) and "binnum_old" not in _src(t)]
    newb = [t for t in tests if "binnum_old" in _src(t)]
    _need(len(valid) == 1 and len(newb) == 1, "python bin tests")
    d.append("Definition gen_py_valid (binnum nbin : Z) : bool := %s." % py_expr(valid[0])[0])
    d.append("Definition gen_py_newbin (binnum binnum_old : Z) : bool := %s." % py_expr(newb[0])[0])
    # the C pass
    txt = open(cpath).read()
    txt = re.sub(r"//[^\n]*", "", txt)
    txt = re.sub(r"/\*.*?\*/", "", txt, flags=re.S)
    m = re.findall(r"\bbinnum\s*=\s*([^;]+);", txt)
    m = [x for x in m if "," not in x]                                         # not the declaration list
    _need(len(m) == 1, "C bin number assignment")
    t = c_expr(m[0].strip())
    _need(t[1] == "Z", "integer C bin number")
    d.append("Definition gen_c_binnum (thisdata datamin binsize : PrimFloat.float) : Z := %s." % t[0])
    conds = re.findall(r"\bif\s*\((.*?)\)\s*\{", txt, flags=re.S)
    conds = [re.sub(r"\s+", " ", c).strip() for c in conds]
    valid = [c for c in conds if "binnum" in c and "binnum_old" not in c]
    newb = [c for c in conds if "binnum_old" in c]
    _need(len(valid) == 1 and len(newb) == 1, "C bin tests %r" % conds)
    d.append("Definition gen_c_valid (binnum nbin : Z) : bool := %s." % c_cond(valid[0]))
    d.append("Definition gen_c_newbin (binnum binnum_old : Z) : bool := %s." % c_cond(newb[0]))
    return "\n".join(d) + "\n"


GLUE = """
Definition is_some {A} (o : option A) : bool := match o with Some _ => true | None => false end.
"""

GLUE2 = """
(* signature defaults: histogram(binsize=<gen_default_binsize>), dohist(binsize=None); nbin=None in both *)
Definition gen_resolve (a : api) (k : kw) (nbin : option Z) : option mode :=
  let binsize := match a with
                 | ApiHistogram => gen_hist_binsize (match k with KwVal v => Some v | KwNone => None | KwOmit => Some gen_default_binsize end) nbin
                 | ApiBinner => match k with KwVal v => Some v | _ => None end
                 end in
  if gen_dohist_accepts binsize nbin then gen_mode binsize nbin else None.
"""

# tie lemmas: every translated term is what the model's definitions use (re-proved on every run)
TIES = [
    ("derive(binsize) uses the translated bin count",
     "forall dmin dmax b, derive dmin dmax (ByBinsize b) = Ok (b, gen_nbin_of_binsize dmin dmax b)", "reflexivity."),
    ("derive(nbin) uses the translated bin size",
     "forall dmin dmax n, n <> 0%Z -> derive dmin dmax (ByNbin n) = Ok (gen_binsize_of_nbin dmin dmax n, n)",
     "intros dmin dmax n H. unfold derive. destruct (n =? 0)%Z eqn:E; [apply Z.eqb_eq in E; contradiction|reflexivity]."),
    ("binnum = translated python bin number", "forall x dmin bs k, binnum x dmin bs k = gen_py_binnum (fget x k) dmin bs", "reflexivity."),
    ("binnum = translated C bin number", "forall x dmin bs k, binnum x dmin bs k = gen_c_binnum (fget x k) dmin bs", "reflexivity."),
    ("within = translated selection", "forall a b v, within a b v = gen_within a b v", "reflexivity."),
    ("valid_bin = translated python test", "forall nbin b, valid_bin nbin b = gen_py_valid b nbin", "reflexivity."),
    ("valid_bin = translated C test", "forall nbin b, valid_bin nbin b = gen_c_valid b nbin", "reflexivity."),
    ("resolve = translated keyword handling", "forall a k nb, resolve a k nb = gen_resolve a k nb", "intros a k nb; destruct a, k, nb; reflexivity."),
    ("one step of the C loop, with the translated tests and regenerated constants",
     "forall bn nbin k ss i binold oe hist rev, c_loop bn nbin (k :: ss) i binold oe hist rev = "
     "(let offset := i + nbin + gen_c_offset_step in let rev := zset rev offset k in "
     "if gen_c_valid (bn k) nbin then c_loop bn nbin ss (i + 1) (bn k) (offset + gen_c_offset_end_step) "
     "(zset hist (bn k) (zget hist (bn k) + 1)) (if gen_c_newbin (bn k) binold then fill rev (binold + 1) (Z.to_nat (bn k - binold)) offset else rev) "
     "else c_loop bn nbin ss (i + 1) binold oe hist rev)%Z", "reflexivity."),
    ("one step of the python loop, with the translated tests and regenerated constants",
     "forall bn nbin k ss offset binold oe hist rev, py_loop bn nbin (k :: ss) offset binold oe hist rev = "
     "(let rev := zset rev offset k in "
     "if gen_py_valid (bn k) nbin then py_loop bn nbin ss (offset + 1) (bn k) (offset + gen_py_offset_end_step) "
     "(zset hist (bn k) (zget hist (bn k) + 1)) (if gen_py_newbin (bn k) binold then fill rev (binold + 1) (Z.to_nat (bn k - binold)) offset else rev) "
     "else py_loop bn nbin ss (offset + 1) binold oe hist rev)%Z",
     "intros; cbn [py_loop]; unfold gen_py_newbin; rewrite Z.gtb_ltb; reflexivity."),
    ("initialisation of the C pass with the regenerated constants",
     "forall bn nbin s, chist bn nbin s = (let nrev := Z.of_nat (length s) + nbin + gen_rev_extra in "
     "let '(binold, offset_end, hist, rev) := c_loop bn nbin s 0 gen_c_binold_init (nbin + gen_c_offset_end_init) (zeros nbin) (zeros nrev) in "
     "(hist, fill rev (binold + 1) (Z.to_nat (nbin - binold)) offset_end))%Z", "reflexivity."),
    ("initialisation of the python pass with the regenerated constants",
     "forall bn nbin s, pyhist bn nbin s = (let nrev := Z.of_nat (length s) + nbin + gen_rev_extra in "
     "let '(binold, offset_end, hist, rev) := py_loop bn nbin s (nbin + gen_py_offset_init) gen_py_binold_init (nbin + gen_py_offset_end_init) (zeros nbin) (zeros nrev) in "
     "(hist, fill rev (binold + 1) (Z.to_nat (nbin - binold)) offset_end))%Z", "reflexivity."),
]


def translate(impl_root):
    """returns (dict of constants, Coq text defining gen_*)"""
    g = from_python(os.path.join(impl_root, "esutil", "stat", "util.py"))
    g.update(from_c(os.path.join(impl_root, "esutil", "stat", "chist_pywrap.c")))
    lines = ["(* generated by harness/props/c05_translate.py from the tree under test *)"]
    for k in sorted(g):
        v = g[k]
        if isinstance(v, bool):
            lines.append("Definition gen_%s : bool := %s." % (k, "true" if v else "false"))
        elif isinstance(v, float):
            lines.append("Definition gen_%s : PrimFloat.float := %s%%float." % (k, v.hex()))
        else:
            lines.append("Definition gen_%s : Z := (%d)%%Z." % (k, v))
    terms = gen_terms(os.path.join(impl_root, "esutil", "stat", "util.py"),
                      os.path.join(impl_root, "esutil", "stat", "chist_pywrap.c"))
    return g, "\n".join(lines) + "\n" + GLUE + terms + GLUE2


if __name__ == "__main__":
    import sys
    print(translate(sys.argv[1])[1])

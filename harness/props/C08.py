"""C08 -- angular separations equal the true great-circle angle (DESIGN.md section 7, C08).

Per-run obligations on the REAL esutil.coords.sphdist / gcirc of the tree under check:
  * translation (c08_translate.py, fail-closed): constants -> Gen.v; the four functions statement by
    statement -> Src.v (real-number reading; SrcProofs.v proves it equal to the model, hence to the true
    angle) and SrcF.v (binary64 reading with libm oracles);
  * model = implementation (differential runner, ExecF.v `v_full`): every call of <= 64 pairs is
    reproduced BIT FOR BIT inside Coq by the binary64 reading of the source, with sin / cos / arcsin /
    arccos taken from the values libm returned inside that very call;
  * exact-rational property checks (Exec.v `props_check`, vm_compute over Q): every call returns one
    finite value per pair, in [0,180] degrees, bit-identical when the two points are swapped, exactly
    zero for identical inputs, bit-identical between scalar / length-1 / length-n / list / broadcast
    calls, and within twice the tolerance when 360 degrees is added (exactly) to a longitude;
  * per-pair interval certificates (generated lemmas `sphdist_src_cert ...` / `gcirc_src_cert ...`):
    the implementation's output is within the statement's tolerance (1e-11 degree chord-based, 2e-6
    degree cosine-based) of the true great-circle angle of the exact binary64 inputs, hence (theorem
    C08_certificate_ties_source) of the real-number reading of its own source.
"""
import math
import os
import warnings
from fractions import Fraction

from .. import core
from ..core import cR, cfloat
from ..runner import Entry, differential, corpus_cases
from . import c08_translate

PRE_Q = ("From Coq Require Import QArith PrimFloat.\nFrom EsVerif.Common Require Import Base.\n"
         "From EsVerif.C08 Require Import Model Spec Exec SrcLibF SrcF ExecF.\n")
PRE_CERT_SPEC = ("From Coq Require Import Reals.\nFrom Interval Require Import Tactic.\n"
                 "From EsVerif.C08 Require Import Model Spec Proofs.\nOpen Scope R_scope.\n")
PRE_CERT = ("From Coq Require Import Reals.\nFrom Interval Require Import Tactic.\n"
            "From EsVerif.C08 Require Import Model Spec Proofs Code SrcLib Src SrcProofs.\nOpen Scope R_scope.\n")
UNFOLD = "cbv [from_rad r2d sep_small sep_large dminus dplus cx cy cz to_rad d2r tol_in]"

TOL = {"sphdist": "1e-11", "gcirc": "2e-6"}            # degrees, from the statement
TOLQ = {"sphdist": Fraction(1, 10**11), "gcirc": Fraction(2, 10**6)}
PI_HI = Fraction(7074237752028441, 2251799813685248)   # nextafter(np.pi, 4) > PI  (Spec.pi_hi)
HALF_PI = math.pi / 2                                    # binary64 value below PI/2
UNIT = {"deg": "Deg", "rad": "Rad"}
GRID = 2.0 ** -40                                        # longitudes on this grid make ra + 360 exact


# ----------------------------------------------------------------------------
# generators: pairs (ra1, dec1, ra2, dec2) in DEGREES, latitudes in [-90, 90]
# ----------------------------------------------------------------------------

def _unif(r):
    return r.uniform(0.0, 360.0), math.degrees(math.asin(r.uniform(-1.0, 1.0)))


def _offset(ra, dec, sep, pa):
    """point at separation ~sep (deg), position angle pa (deg) from (ra, dec); plain floats, only
    approximately at that separation -- the certificates use whatever floats come out"""
    s, p, d = math.radians(sep), math.radians(pa), math.radians(dec)
    sd = math.sin(d) * math.cos(s) + math.cos(d) * math.sin(s) * math.cos(p)
    sd = max(-1.0, min(1.0, sd))
    d2 = math.asin(sd)
    y = math.sin(p) * math.sin(s) * math.cos(d)
    x = math.cos(s) - math.sin(d) * sd
    return ra + math.degrees(math.atan2(y, x)), math.degrees(d2)


def _clipdec(d):
    return max(-90.0, min(90.0, d))


def _grid(x):
    return round(x / GRID) * GRID


def thr_sep(thr):
    """separation (degrees) at which |u-v|^2 equals the branch threshold of sphdist"""
    return math.degrees(2 * math.asin(math.sqrt(min(4.0, max(0.0, thr))) / 2))


# ~174.27 deg for the literal 3.99; run() replaces it by the value for the literal found in the source of the
# tree under check, so that the `large` family always straddles the branch point that is actually coded
BRANCH = {"sep": thr_sep(3.99)}


def gen_pair(r, fam):
    """one pair of family `fam`; returns [ra1, dec1, ra2, dec2] (degrees)"""
    if fam == "uniform":
        a, b = _unif(r), _unif(r)
    elif fam == "tiny":                       # separations 1e-12 .. 1e-3 degree
        a = _unif(r)
        if r.random() < 0.25:                 # away from the poles so that the offset is resolvable
            a = (a[0], r.uniform(-60, 60))
        b = _offset(a[0], a[1], 10 ** r.uniform(-12, -3), r.uniform(0, 360))
    elif fam == "antipodal":                  # separations 180-1e-9 .. 180 degrees
        a = _unif(r)
        k = r.random()
        if k < 0.25:
            b = (a[0] + 180.0, -a[1])         # exactly antipodal inputs
        elif k < 0.35:
            b = (a[0] - 180.0, -a[1])
        else:
            b = _offset(a[0], a[1], 180.0 - 10 ** r.uniform(-13, -9), r.uniform(0, 360))
    elif fam == "large":                      # the whole cross-product branch and its threshold
        a = _unif(r)
        k = r.random()
        T = BRANCH["sep"]
        if k < 0.4:
            sep = r.uniform(min(170.0, T - 4.0), 180.0) if T >= 90.0 else r.uniform(max(0.0, T - 4.0), min(180.0, T + 10.0))
        elif k < 0.7:
            sep = min(180.0, max(0.0, T + r.choice([-1, 1]) * 10 ** r.uniform(-12, -0.3)))
        else:
            sep = 180.0 - 10 ** r.uniform(-9, 0.7)
        b = _offset(a[0], a[1], sep, r.uniform(0, 360))
    elif fam == "poles":                      # both points at or near a pole
        def lat():
            s = r.choice([-1.0, 1.0])
            return s * (90.0 - r.choice([0.0, 10 ** r.uniform(-12, -1), 10 ** r.uniform(-9, -2)]))
        a = (r.uniform(0, 360), lat())
        b = (r.choice([a[0], r.uniform(0, 360)]), lat())
    elif fam == "seam":                       # longitudes straddling 0/360
        def lon():
            e = r.choice([0.0, 10 ** r.uniform(-13, -6), 10 ** r.uniform(-6, 0.5)])
            return r.choice([e, 360.0 - e, -e, 360.0 + e, 720.0 - e, -360.0 + e])
        d = _unif(r)[1]
        a = (lon(), d)
        b = (lon(), d + r.choice([0.0, r.uniform(-1e-5, 1e-5), 10 ** r.uniform(-12, -6)]))
    elif fam == "turns":                      # any longitudes: several turns, both directions, both points independently
        a, b = _unif(r), _unif(r)
        if r.random() < 0.4:                  # ... also for close / far pairs
            b = _offset(a[0], a[1], r.choice([10 ** r.uniform(-9, -2), 180.0 - 10 ** r.uniform(-9, 0), r.uniform(0, 180)]),
                        r.uniform(0, 360))

        def wind(x):
            k = r.choice([-3, -2, -1, -1, 0, 1, 2, 3])
            return x - 360.0 if (k == 0 and r.random() < 0.5) else x + 360.0 * k     # k = 0: the [-180, 180] convention
        a = (wind(a[0]), a[1])
        b = (wind(b[0]), b[1])
    elif fam == "equal":                      # identical inputs (exact zero required)
        a = _unif(r)
        k = r.random()
        if k < 0.2:
            a = (r.choice([0.0, 360.0, 180.0, 90.0, -0.0]), r.choice([0.0, 90.0, -90.0, 45.0, -0.0]))
        b = a
    elif fam == "same-direction":             # same point of the sphere, different inputs
        a = _unif(r)
        a = (_grid(a[0]), a[1])
        k = r.random()
        if k < 0.6:
            b = (a[0] + r.choice([360.0, -360.0]), a[1])
        elif k < 0.8:                         # one ulp apart
            b = (math.nextafter(a[0], 1e9), a[1]) if r.random() < 0.5 else (a[0], math.nextafter(a[1], 0.0))
        else:
            a = (a[0], r.choice([90.0, -90.0]))
            b = (r.uniform(0, 360), a[1])
    else:
        raise ValueError(fam)
    p = [a[0], _clipdec(a[1]), b[0], _clipdec(b[1])]
    if r.random() < 0.5:
        p = [p[2], p[3], p[0], p[1]]
    return [float(x) for x in p]


FAMILIES = ["uniform", "tiny", "antipodal", "large", "poles", "seam", "equal", "same-direction", "turns"]


def to_unit(p, uin, snap):
    """pair in degrees -> the call's input unit; snap: put longitudes on the 2^-40 grid (degrees only)"""
    if uin == "deg":
        if snap:
            ident = (p[0] == p[2])
            p = [_grid(p[0]), p[1], _grid(p[2]), p[3]]
            if ident:
                p[2] = p[0]
        return p
    q = [math.radians(x) for x in p]
    q[1] = max(-HALF_PI, min(HALF_PI, q[1]))
    q[3] = max(-HALF_PI, min(HALF_PI, q[3]))
    if p[0] == p[2]:
        q[2] = q[0]
    if p[1] == p[3]:
        q[3] = q[1]
    return q


def shift_exact(pts, which, uin="deg", k=1):
    """the points with k full turns (k any non-zero integer) added to the chosen longitude(s), in the unit of the call.
    Degrees: 360 k, and None unless every addition is exact.  Radians: k * fl(2 pi), rounded once more by the
    addition -- the denoted point moves by at most |k| * 2.5e-16 + half an ulp of the longitude (radians), far below
    the tolerance of the comparison, for the longitudes generated (|lon| < 2000 rad); None beyond that."""
    out = []
    for p in pts:
        q = list(p)
        for i in ((0,) if which == "ra1" else (2,) if which == "ra2" else (0, 2)):
            if uin == "deg":
                q[i] = p[i] + 360.0 * k
                if Fraction(q[i]) != Fraction(p[i]) + 360 * k:
                    return None
            else:
                q[i] = p[i] + 2 * math.pi * k
                if abs(q[i]) > 2000.0 or abs(p[i]) > 2000.0:
                    return None
        out.append(q)
    return out


# ----------------------------------------------------------------------------
# driver of the real code
# ----------------------------------------------------------------------------

WARN_COUNT = {"n": 0}

# ---- libm oracle tables: the values sin / cos / arcsin / arccos returned INSIDE one observed call --------
ORC = ("sin", "cos", "arcsin", "arccos")
ORC_MAX_PAIRS = 64          # longer calls are not shipped to the float model (property checker only)
ORC_STATS = {"recorded": 0, "inconsistent": 0, "too-long": 0}


class _Rec:
    def __init__(self):
        self.t = {k: {} for k in ORC}
        self.bad = False

    def wrap(self, name, real):
        import numpy as np

        def f(x, *a, **k):
            r = real(x, *a, **k)
            try:
                xs = np.asarray(x, dtype="f8").ravel()
                rs = np.asarray(r, dtype="f8").ravel()
                if xs.shape != rs.shape:
                    self.bad = True
                    return r
                tab = self.t[name]
                for u, v in zip(xs.tolist(), rs.tolist()):
                    key = u.hex()
                    old = tab.get(key)
                    if old is not None and old[1].hex() != v.hex() and not (math.isnan(old[1]) and math.isnan(v)):
                        self.bad = True          # one argument, two values: not a function; no table for this call
                    tab[key] = (u, v)
            except Exception:  # noqa
                self.bad = True
            return r
        return f


class _NPProxy:
    """stands for the module object `np` inside esutil.coords during one observed call"""

    def __init__(self, real, rec):
        self.__dict__["_real"] = real
        self.__dict__["_rec"] = rec

    def __getattr__(self, k):
        v = getattr(self._real, k)
        return self._rec.wrap(k, v) if k in ORC else v


def recorded_call(co, fn, *args, **kw):
    """fn(*args, **kw) with the four libm-backed ufuncs of esutil.coords (bare names imported from numpy and
    np.<name>) wrapped so that every (argument, value) pair is recorded; observation only"""
    rec, saved = _Rec(), {}
    try:
        for k in ORC + ("np",):
            if k in co.__dict__:
                saved[k] = co.__dict__[k]
        for k in ORC:
            if k in saved:
                co.__dict__[k] = rec.wrap(k, saved[k])
        if "np" in saved:
            co.__dict__["np"] = _NPProxy(saved["np"], rec)
        return fn(*args, **kw), rec
    finally:
        for k, v in saved.items():
            co.__dict__[k] = v


INT_FORMS = ("i4", "i8", "u2", "pyint")
DTYPE = {"plain": "f8", "f4": "f4", "i4": "i4", "i8": "i8", "u2": "u2", "be": ">f8"}
# forms a case may carry (key "form"; default "plain") -- how the four arguments are presented to the function:
#   plain      python float / list of floats / float64 array, according to the container
#   tuple      tuple of floats (container list)          pyint   python ints (scalar, list)
#   0d         0-d float64 arrays (scalar)               npscalar  numpy float64 scalars (scalar)
#   f4 i4 i8 u2  arrays (or numpy scalars) of that dtype; the values are exactly representable in it
#   be         big-endian (non-native) float64 arrays    readonly  arrays with writeable=False
#   strided    every second element of a larger array    reversed  negative-stride view
#   alias      the SAME array object for ra1/ra2 (dec1/dec2) when their values are identical
#   mixedforms list, tuple, array, strided array in one call
# key "kw" (default "given"): given = units=[uin, uout]; tuple = units=(uin, uout); positional = 5th positional
# argument; omitted = no units argument (deg/deg only); gcirc: omitted / getangle-false / getangle-true (first result)
FORMS_ARRAY = ["f4", "i4", "i8", "u2", "be", "readonly", "strided", "reversed", "alias", "mixedforms"]
FORMS_SCALAR = ["0d", "npscalar", "pyint", "f4", "i8"]
FORMS_LIST = ["tuple", "pyint"]


def f4_exact(x):
    import numpy as np
    return float(np.float32(x)) == x


def conform(p, form, uin):
    """the pair with every coordinate exactly representable in the form's dtype (identical stays identical,
    latitudes stay inside [-90, 90] degrees)"""
    import numpy as np
    if form == "f4":
        q = [float(np.float32(x)) for x in p]
        lim = 90.0 if uin == "deg" else HALF_PI
        for i in (1, 3):
            if abs(q[i]) > lim:
                q[i] = math.copysign(float(np.nextafter(np.float32(abs(q[i])), np.float32(0.0))), q[i])
        return q
    if form in INT_FORMS:
        lim = 90 if uin == "deg" else 1
        q = [float(round(x)) for x in p]
        for i in (1, 3):
            q[i] = float(max(-lim, min(lim, q[i])))
        if form == "u2":
            turn = 360.0 if uin == "deg" else 6.0
            q = [q[0] % turn, abs(q[1]), q[2] % turn, abs(q[3])]
        return [x + 0.0 for x in q]          # no -0.0: an integer has no signed zero
    return list(p)


def build_args(container, form, pts):
    """the four arguments (ra1, dec1, ra2, dec2) of one call on the n pairs `pts`"""
    import numpy as np
    n = len(pts)
    cols = [[p[i] for p in pts] for i in range(4)]

    def arr(c, fm):
        if fm == "strided":
            base = np.full(2 * len(c) + 1, 12.5)
            base[1::2] = c
            return base[1::2]
        if fm == "reversed":
            return np.array(c[::-1], dtype="f8")[::-1]
        a = np.array(c, dtype=DTYPE.get(fm, "f8"))
        if fm == "readonly":
            a.flags.writeable = False
        return a

    if container == "scalar":
        assert n == 1
        x = [c[0] for c in cols]
        if form == "pyint":
            return [int(v) for v in x]
        if form == "0d":
            return [np.array(float(v)) for v in x]
        if form == "npscalar":
            return [np.float64(v) for v in x]
        if form == "f4":
            return [np.float32(v) for v in x]
        if form == "i8":
            return [np.int64(v) for v in x]
        return [float(v) for v in x]
    if container == "list":
        if form == "tuple":
            return [tuple(c) for c in cols]
        if form == "pyint":
            return [[int(v) for v in c] for c in cols]
        return [list(c) for c in cols]
    if container == "bcast":                      # first point scalar, second point an array
        return [float(cols[0][0]), float(cols[1][0]), arr(cols[2], form), arr(cols[3], form)]
    if form == "mixedforms":
        return [list(cols[0]), tuple(cols[1]), arr(cols[2], "plain"), arr(cols[3], "strided")]
    args = [arr(c, form) for c in cols]
    if form == "alias":
        if cols[0] == cols[2]:
            args[2] = args[0]
        if cols[1] == cols[3]:
            args[3] = args[1]
    return args


def invoke(fn, uin, uout, args, n, tables=None, kw="given", scribble=False):
    """one call of the real function -> ("ok", [float]*n) | ("err", class, message)"""
    import numpy as np
    import esutil.coords as co
    try:
        with warnings.catch_warnings(record=True) as wl:
            warnings.simplefilter("always")
            if fn == "sphdist":
                f = co.sphdist
                if kw == "omitted" and (uin, uout) == ("deg", "deg"):
                    pa, ka = list(args), {}
                elif kw == "tuple":
                    pa, ka = list(args), {"units": (uin, uout)}
                elif kw == "positional":
                    pa, ka = list(args) + [[uin, uout]], {}
                else:
                    pa, ka = list(args), {"units": [uin, uout]}
            else:
                f = co.gcirc
                pa, ka = list(args), ({"getangle": False} if kw == "getangle-false" else
                                      {"getangle": True} if kw == "getangle-true" else {})
            if tables is not None:
                out, rec = recorded_call(co, f, *pa, **ka)
                if rec.bad:
                    ORC_STATS["inconsistent"] += 1
                else:
                    ORC_STATS["recorded"] += 1
                    tables.update({k: [[u, v] for u, v in rec.t[k].values()] for k in ORC})
            else:
                out = f(*pa, **ka)
        WARN_COUNT["n"] += sum(1 for w in wl if issubclass(w.category, RuntimeWarning))
        if fn == "gcirc" and kw == "getangle-true":
            if not (isinstance(out, tuple) and len(out) == 2):
                return ("err", "EOther", "getangle=True did not return a pair")
            out = out[0]
        out = np.asarray(out)
        if out.shape != (n,):
            return ("err", "EOther", "shape %r for %d pair(s)" % (out.shape, n))
        if out.dtype != np.dtype("f8"):
            return ("err", "EOther", "result dtype %s" % out.dtype)
        if any(isinstance(a, np.ndarray) and a.size and np.shares_memory(out, a) for a in args):
            return ("err", "EOther", "the result shares memory with an argument")
        vals = out.tolist()                        # non-finite values are rejected inside Coq (Exec.qs)
        if scribble and out.flags.writeable:       # the caller overwrites the array it was given back
            out[...] = np.nan
        return ("ok", vals)
    except Exception as e:  # noqa
        return ("err", core.errclass(e), "%s: %s" % (type(e).__name__, str(e)[:160]))


def call_impl(fn, uin, uout, container, pts, tables=None, form="plain", kw="given"):
    return invoke(fn, uin, uout, build_args(container, form, pts), len(pts), tables, kw)


def long_points(lg, uin, form="plain"):
    """the n pairs of a long-array case, regenerated from its seed (exactly representable in the form's dtype)"""
    import random
    r = random.Random("C08-long/%s/%d" % (lg["seed"], lg["n"]))
    return [conform(to_unit(gen_pair(r, r.choice(FAMILIES)), uin, False), form, uin) for _ in range(lg["n"])]


def long_indices(n, r):
    """positions of a long call that are judged inside Coq: both ends, both sides of every power-of-two block
    boundary, and a random sample"""
    idx = {0, 1, n - 2, n - 1}
    b = 64
    while b < n:
        idx.update((b - 1, b, b + 1))
        b *= 2
    idx.update(r.sample(range(n), min(n, 96)))
    return sorted(i for i in idx if 0 <= i < n)


# ---- sequences: several calls in ONE process, arranged so that state carried across calls would show ----------
STEP_KEYS = ("fn", "uin", "uout", "container", "form", "kw", "pts", "reuse", "scribble")


def step_of(c):
    """the call spec of a case / step (JSON-able)"""
    return {k: c[k] for k in STEP_KEYS if k in c}


def run_steps(steps, tables=None):
    """execute the call specs in order in THIS process -> (results, argument objects of the last call).
    A step with reuse=True is called with the argument OBJECTS of the previous array step, their contents
    overwritten in place with this step's values (same object, new contents); tables (libm oracle recording)
    applies to the last step only."""
    import numpy as np
    res, kept, args = [], None, None
    for i, st in enumerate(steps):
        cont, form, pts = st["container"], st.get("form", "plain"), st["pts"]
        if st.get("reuse") and kept is not None and all(isinstance(a, np.ndarray) and a.shape == (len(pts),) and
                                                        a.flags.writeable for a in kept):
            for j, a in enumerate(kept):
                a[...] = [p[j] for p in pts]
            args = kept
        else:
            args = build_args(cont, form, pts)
        if all(isinstance(a, np.ndarray) and a.ndim == 1 for a in args):
            kept = args
        res.append(invoke(st["fn"], st["uin"], st["uout"], args, len(pts), tables if i == len(steps) - 1 else None,
                          st.get("kw", "given"), scribble=bool(st.get("scribble"))))
    return res, args


CHILD = {"jobs": {}, "pool": None, "runs": 0, "full": {}}     # full: sequence id -> all its steps


def _child_run(steps):
    """the steps executed in order in a FRESH python process (nothing else has been called in it)"""
    import json
    import subprocess
    CHILD["runs"] += 1
    r = subprocess.run([core.PY, "-c", "from harness.props import c08_seq; c08_seq.main()"], input=json.dumps(steps),
                       stdout=subprocess.PIPE, stderr=subprocess.PIPE, text=True, cwd=core.VERIF, timeout=300)
    if r.returncode != 0:
        return [("err", "EOther", "child process failed: %s" % r.stderr[-200:])] * len(steps)
    return [tuple(x) for x in json.loads(r.stdout)]


def child_submit(steps):
    """start the fresh process for these steps in the background (results are collected by child_result)"""
    import json
    from concurrent.futures import ThreadPoolExecutor
    key = json.dumps(steps, sort_keys=True)
    if key not in CHILD["jobs"]:
        if CHILD["pool"] is None:
            CHILD["pool"] = ThreadPoolExecutor(8)
        CHILD["jobs"][key] = CHILD["pool"].submit(_child_run, steps)


def child_result(steps):
    import json
    key = json.dumps(steps, sort_keys=True)
    if key not in CHILD["jobs"]:
        child_submit(steps)
    return CHILD["jobs"][key].result()


def run_seq_case(c):
    """one step of a sequence, self-contained (its history travels with the case):
       main     the step's call after its history, in this process (float model + property checker as usual)
       swapped  the same call with the points exchanged (same argument objects)
       elem     the same call made ALONE in a fresh process            -- must be bit-identical
       shifted  the same call after the same history in a fresh process -- must agree (slot of the +360 comparison)"""
    hist, me = c["seq"]["hist"], step_of(c)
    n = len(c["pts"])
    tabs = {} if n <= ORC_MAX_PAIRS else None
    res, args = run_steps(hist + [me], tables=tabs)
    out = {"main": res[-1], "orc": tabs if tabs else None}
    if c["container"] == "bcast":
        out["swapped"] = res[-1]
    else:
        out["swapped"] = invoke(c["fn"], c["uin"], c["uout"], [args[2], args[3], args[0], args[1]], n, None,
                                c.get("kw", "given"))
    alone = dict(me)
    alone.pop("reuse", None)
    out["elem"] = child_result([alone])[0]
    full = CHILD["full"].get(c["seq"]["sid"])
    if full is not None and full[:len(hist) + 1] == hist + [me]:
        out["shifted"] = child_result(full)[len(hist)]        # one fresh process runs the whole sequence
    else:
        out["shifted"] = child_result(hist + [me])[-1]         # replay of a single step: its own history only
    out["shifted_pts"] = c["pts"]
    return out


def run_case(c):
    import numpy as np
    if c.get("seq") is not None:
        return run_seq_case(c)
    fn, uin, uout, cont, pts = c["fn"], c["uin"], c["uout"], c["container"], c["pts"]
    form, kw, lg = c.get("form", "plain"), c.get("kw", "given"), c.get("long")
    if lg is not None:
        # one call on all n pairs (and one with the points exchanged, on the SAME array objects); the positions
        # lg["idx"] (= c["pts"]) and the extremes of the whole output go to the checker
        full = long_points(lg, uin, form)
        idx = lg["idx"]
        args = build_args("array", form, full)
        m = invoke(fn, uin, uout, args, len(full), None, kw)
        s = invoke(fn, uin, uout, [args[2], args[3], args[0], args[1]], len(full), None, kw)
        ORC_STATS["too-long"] += 1
        out = {"orc": None, "shifted": None}
        out["main"] = ("ok", [m[1][i] for i in idx]) if m[0] == "ok" else m
        out["swapped"] = ("ok", [s[1][i] for i in idx]) if s[0] == "ok" else s
        if m[0] == "ok":
            a = np.array(m[1])
            out["ext"] = ("ok", [float(np.min(a)), float(np.max(a))])     # NaN propagates
        else:
            out["ext"] = m
        rs = [call_impl(fn, uin, uout, "scalar", [p]) for p in pts]
        bad = [x for x in rs if x[0] != "ok"]
        out["elem"] = bad[0] if bad else ("ok", [x[1][0] for x in rs])
        return out
    tabs = {} if len(pts) <= ORC_MAX_PAIRS else None
    if tabs is None:
        ORC_STATS["too-long"] += 1
    args = build_args(cont, form, pts)
    out = {"main": invoke(fn, uin, uout, args, len(pts), tabs, kw)}
    out["orc"] = tabs if tabs else None            # None: no float-model comparison for this call
    sw = [[p[2], p[3], p[0], p[1]] for p in pts]
    if cont == "bcast":                           # the swap of a broadcast call: element-wise length-1 calls
        rs = [call_impl(fn, uin, uout, "len1", [q], form=form if form in DTYPE else "plain") for q in sw]
        bad = [x for x in rs if x[0] != "ok"]
        out["swapped"] = bad[0] if bad else ("ok", [x[1][0] for x in rs])
    else:                                         # the SAME argument objects, exchanged
        out["swapped"] = invoke(fn, uin, uout, [args[2], args[3], args[0], args[1]], len(pts), None, kw)
    if c.get("elem") == "permuted" and cont not in ("scalar", "bcast") and len(pts) > 1:
        # the same pairs in reverse order, in one call of the same form: element i must not depend on its position
        o = call_impl(fn, uin, uout, cont, pts[::-1], form=form, kw=kw)
        out["elem"] = ("ok", o[1][::-1]) if o[0] == "ok" else o
    else:
        other = "len1" if cont == "scalar" else "scalar"
        rs = [call_impl(fn, uin, uout, other, [p]) for p in pts]   # plain float64, keyword given
        bad = [x for x in rs if x[0] != "ok"]
        out["elem"] = bad[0] if bad else ("ok", [x[1][0] for x in rs])
    out["shifted"] = None
    if c.get("shift") and (uin == "deg" or form in ("plain", "be", "strided", "reversed", "readonly", "alias", "mixedforms",
                                                  "npscalar", "0d", "tuple")):
        sp = shift_exact(pts, c["shift"], uin, int(c.get("turns", 1)))
        if sp is not None and form == "f4" and not all(f4_exact(x) for q in sp for x in q):
            sp = None
        if sp is not None and form == "u2" and any(x > 65535 or x < 0 for q in sp for x in q):
            sp = None
        if sp is not None and not (cont == "bcast" and c["shift"] != "ra2"):
            out["shifted"] = call_impl(fn, uin, uout, cont, sp, form=form, kw=kw)
            out["shifted_pts"] = sp
    return out


# ----------------------------------------------------------------------------
# Coq printers
# ----------------------------------------------------------------------------

def cqfrac(fr):
    return "(%d # %d)%%Q" % (fr.numerator, fr.denominator)


def cres(o):
    if o[0] == "ok":
        return "(Ok [%s])" % "; ".join(cfloat(x) for x in o[1])
    return "(Err %s)" % o[1]


def cpts(pts):
    return "[" + "; ".join("(%s, %s, %s, %s)" % tuple(cfloat(x) for x in p) for p in pts) + "]"


def tol2_q(fn, uout):
    t = 2 * TOLQ[fn]
    return t if uout == "deg" else t * PI_HI / 180


def props_args(c, out):
    sh = out.get("shifted")
    return "%s %s %s %s %s %s %s" % (UNIT[c["uout"]], cqfrac(tol2_q(c["fn"], c["uout"])), cpts(c["pts"]),
                                     cres(out["main"]), cres(out["swapped"]), cres(out["elem"]),
                                     "None" if sh is None else "(Some %s)" % cres(sh))


FN_T = {"sphdist": "FSphdist", "gcirc": "FGcirc"}


def ctables(orc):
    return "(" + ", ".join("[" + "; ".join("(%s, %s)" % (cfloat(u), cfloat(v)) for u, v in orc[k]) + "]" for k in ORC) + ")"


def full_args(c, out):
    orc = out.get("orc")
    a = "%s %s %s %s" % (FN_T[c["fn"]], "None" if not orc else "(Some %s)" % ctables(orc), UNIT[c["uin"]],
                         props_args(c, out))
    if c.get("long") is not None:
        a += " " + cres(out["ext"])
    return a


class Sep(Entry):
    """exact-rational property checks on one entry point"""

    def __init__(self, fn):
        self.fn = fn
        self.name = fn
        self.results = []            # (case, out) of the last generation, for the certificate pool

    def units(self, r):
        if self.fn == "gcirc":
            return "deg", "rad"
        return r.choice([("deg", "deg")] * 5 + [("rad", "rad"), ("rad", "deg"), ("deg", "rad")] * 1)

    def mk(self, ctx, fam, container, n, shift_ok=True, label=None, form="plain", kw="given", elem=None, units=None):
        r = ctx.rng
        uin, uout = units or self.units(r)
        snap = uin == "deg" and fam not in ("tiny",) and r.random() < 0.5
        if form in INT_FORMS and fam in ("tiny", "same-direction"):
            fam = "uniform"                           # integer coordinates cannot express these
        fams = FAMILIES if fam == "mixed" else [fam]
        pts = [conform(to_unit(gen_pair(r, r.choice(fams)), uin, snap), form, uin) for _ in range(n)]
        if container == "bcast":
            pts = [[pts[0][0], pts[0][1], p[2], p[3]] for p in pts]
        shift = r.choice(["ra1", "ra2", "both"]) if ((snap or form in INT_FORMS or uin == "rad") and shift_ok) else None
        c = {"fn": self.fn, "uin": uin, "uout": uout, "container": container, "pts": pts, "shift": shift,
             "family": label or ("%s/%s" % (fam, container))}
        if shift and r.random() < 0.6:            # several turns, both directions (default: one turn forward)
            # radians: occasionally many turns (longitudes beyond 360 rad are legal radian input)
            c["turns"] = r.choice([-3, -2, -1, 2, 3] + ([r.choice([-60, -11, 17, 59])] if uin == "rad" else []))
        if form != "plain":
            c["form"] = form
        if kw != "given":
            c["kw"] = kw
        if elem:
            c["elem"] = elem
        return c

    def mk_long(self, ctx, n, form="plain"):
        r = ctx.rng
        uin, uout = self.units(r)
        lg = {"n": n, "seed": r.randrange(10 ** 9)}
        lg["idx"] = long_indices(n, r)
        full = long_points(lg, uin, form)
        c = {"fn": self.fn, "uin": uin, "uout": uout, "container": "long", "pts": [full[i] for i in lg["idx"]],
             "shift": None, "family": "mixed/long", "long": lg}
        if form != "plain":
            c["form"] = form
        return c

    def form_cases(self, ctx, k):
        """the input forms of the audit (docs/reports/C08.md): every form with adversarial families"""
        r, cs = ctx.rng, []
        fams = ["poles", "antipodal", "large", "seam", "equal", "uniform", "tiny", "same-direction", "turns"]
        kws = ["tuple", "positional", "omitted"] if self.fn == "sphdist" else ["getangle-false", "getangle-true"]
        for rep_ in range(k):
            for form in FORMS_ARRAY:
                for cont, n in (("len1", 1), ("len3", 3), ("array", r.choice([2, 5, 8, 17, 33]))):
                    cs.append(self.mk(ctx, r.choice(fams), cont, n, form=form, label="form:%s/%s" % (form, cont),
                                      elem=r.choice([None, "permuted"])))
                cs.append(self.mk(ctx, "mixed", "array", r.choice([6, 12, 40]), form=form, label="form:%s/mixed" % form,
                                  elem="permuted"))
            for form in ("f4", "i8", "be", "strided"):
                cs.append(self.mk(ctx, r.choice(fams), "bcast", r.choice([1, 3, 6]), form=form, label="form:%s/bcast" % form))
            for form in FORMS_SCALAR:
                for _ in range(3):
                    cs.append(self.mk(ctx, r.choice(fams), "scalar", 1, form=form, label="form:%s/scalar" % form))
            for form in FORMS_LIST:
                for n in (1, 3, 5):
                    cs.append(self.mk(ctx, r.choice(fams), "list", n, form=form, label="form:%s/list" % form))
            for kw in kws:                             # keyword omitted / given in another way; twice in a row on purpose
                for cont, n in (("scalar", 1), ("len3", 3), ("array", 9), ("list", 2)):
                    for _ in range(2):
                        cs.append(self.mk(ctx, r.choice(fams), cont, n, kw=kw, label="kw:%s/%s" % (kw, cont),
                                          units=("deg", "deg") if kw == "omitted" else None))
            for _ in range(4):                        # plain arrays, permuted-order comparison
                cs.append(self.mk(ctx, "mixed", "array", r.choice([4, 9, 33]), elem="permuted", label="permuted/array"))
        return cs

    def seq_cases(self, ctx, k):
        """sequences of calls in one process (DESIGN: state carried across calls).  Every step is a case of its own
        that carries its history; the numbers of a sequence are valid coordinates in BOTH units (longitude in
        [0, 2 pi], |latitude| <= 1.5), so that the same values can be presented under different options."""
        r, fn, out = ctx.rng, self.fn, []

        def both_units(npts, ints=False):
            ps = []
            for _ in range(npts):
                if ints:
                    p = [float(r.randrange(0, 7)), float(r.choice([-1, 0, 1])), float(r.randrange(0, 7)), float(r.choice([-1, 0, 1]))]
                else:
                    lo, hi = r.choice([(0.0, 6.28), (-3.14, 3.14), (-20.0, 20.0)])     # both conventions, several turns
                    p = [r.uniform(lo, hi), r.uniform(-1.5, 1.5), r.uniform(lo, hi), r.uniform(-1.5, 1.5)]
                    k_ = r.random()
                    if k_ < 0.2:
                        p[2] = p[0]
                    elif k_ < 0.3:
                        p[3] = p[1]
                ps.append(p)
            return ps

        def units_list():
            if fn == "gcirc":
                return [("deg", "rad")]
            us = [("deg", "deg"), ("rad", "rad"), ("deg", "rad"), ("rad", "deg")]
            r.shuffle(us)
            return us

        def step(pts, cont, units, form="plain", kw="given", reuse=False, scribble=False):
            st = {"fn": fn, "uin": units[0], "uout": units[1], "container": cont, "pts": pts}
            if form != "plain":
                st["form"] = form
            if kw != "given":
                st["kw"] = kw
            if reuse:
                st["reuse"] = True
            if scribble:
                st["scribble"] = True
            return st

        def emit(kind, steps):
            sid = "%s-%s-%d" % (fn, kind, r.randrange(10 ** 9))
            CHILD["full"][sid] = [dict(x) for x in steps]
            child_submit(CHILD["full"][sid])
            for i, st in enumerate(steps):
                c = dict(st)
                c.update({"shift": None, "family": "seq:%s/%d" % (kind, i), "elem": "fresh",
                          "seq": {"sid": sid, "i": i, "hist": [dict(x) for x in steps[:i]]}})
                out.append(c)
                alone = dict(st)
                alone.pop("reuse", None)
                child_submit([alone])

        gk = ["omitted", "getangle-true", "getangle-false"]
        for _ in range(k):
            # (b) the same numbers under every unit combination / keyword form, scalars then arrays
            p = both_units(1)
            us = units_list()
            steps = [step(p, "scalar", u) for u in us] + [step(p, "scalar", us[0])]
            steps += [step(p, "len1", us[1 % len(us)]), step(p, "list", us[-1])]
            if fn == "sphdist":
                steps += [step(p, "scalar", ("deg", "deg"), kw="omitted"), step(p, "scalar", ("rad", "rad"), kw="tuple")]
            else:
                steps += [step(p, "scalar", us[0], kw=q) for q in gk[1:]]
            if ctx.quick():
                steps = steps[:5] + [r.choice(steps[5:])] if fn == "sphdist" else steps[:1] + r.sample(steps[1:], 3)
            emit("same-numbers", steps)
            # (b') equal numbers in other dtypes (python int 1 == 1.0 == float32 1.0 as a key)
            p = both_units(1, ints=True)
            us = units_list()
            steps = [step(p, "scalar", us[0], form="pyint"), step(p, "scalar", us[-1]),
                     step(p, "scalar", us[0], form="f4"), step(p, "len1", us[-1], form="i8"),
                     step(p, "scalar", us[-1], form="npscalar"), step(p, "scalar", us[0], form="0d")]
            if ctx.quick():
                steps = steps[:2] + r.sample(steps[2:], 2)
            emit("same-numbers-dtypes", steps)
            # (a) the same argument objects again after their contents were changed in place; then other objects
            #     with the first contents; then the first objects under another option
            n = r.choice([3, 5, 9])
            p1, p2 = both_units(n), both_units(n)
            us = units_list()
            steps = [step(p1, "array", us[0]), step(p2, "array", us[0], reuse=True), step(p1, "array", us[0]),
                     step(p1, "array", us[-1], reuse=True), step(p2, "array", us[0], form="strided")]
            if ctx.quick():
                steps = steps[:4]
            emit("same-objects", steps)
            # (a') ownership of results: the caller overwrites the RETURNED array and calls again (same objects, then
            #      new objects with equal contents, then the points exchanged) -- a result that is an internal buffer
            #      or a cached array shows up as a changed answer
            n = r.choice([1, 3, 7])
            p1 = both_units(n)
            us = units_list()
            steps = [step(p1, "array", us[0], scribble=True), step(p1, "array", us[0], reuse=True, scribble=True),
                     step(p1, "array", us[0]), step([q[2:] + q[:2] for q in p1], "array", us[0], scribble=True),
                     step(p1, "scalar" if n == 1 else "list", us[0])]
            if ctx.quick():
                steps = steps[:3]
            emit("returned-array", steps)
            # (b'') inputs that agree in what a lazy key would use: length, first and last pair, sum (permutation)
            n = r.choice([4, 6])
            p1 = both_units(n)
            p2 = [p1[0]] + both_units(n - 2) + [p1[-1]]
            p3 = [p1[0]] + p1[1:-1][::-1] + [p1[-1]]
            us = units_list()
            steps = [step(p1, "array", us[0]), step(p2, "array", us[0]), step(p3, "array", us[0]),
                     step(p1[::-1], "array", us[0]), step(p1, "list", us[0]), step(p2, "array", us[-1])]
            if ctx.quick():
                steps = steps[:3] + [r.choice(steps[3:])]
            emit("lazy-key", steps)
            # (d) special points: 0.0, -0.0, exactly equal coordinates, one coordinate exactly zero
            x, y = r.uniform(0.1, 6.0), r.uniform(-1.4, 1.4)
            us = units_list()
            sp = [[0.0, 0.0, x, y], [-0.0, 0.0, x, y], [0.0, -0.0, x, y], [x, 0.0, x, y], [0.0, y, x, y],
                  [0.0, 0.0, 0.0, 0.0], [-0.0, 0.0, 0.0, -0.0], [x, y, x, y],
                  [0.25, 0.0, 0.25 + r.uniform(3.3, 5.9), 0.0], [x, y, x, -y], [0.0, y, 0.0, -y], [x, 0.0, 0.0, 0.0]]
            r.shuffle(sp)
            steps = [step([q], "scalar", us[i % len(us)]) for i, q in enumerate(sp[:ctx.n(3, 5)])]
            steps += [step([sp[0]], "scalar", us[-1]), step(sp[:3], "len3", us[0])]
            emit("special-points", steps)
        return out

    def cases(self, ctx, round=0):
        cs = self.seq_cases(ctx, ctx.n(1, 4)) if round == 0 else []
        k = ctx.n(1, 8) * (1 if round == 0 else 2)
        for fam in FAMILIES:
            for _ in range(6 * k):
                cs.append(self.mk(ctx, fam, "scalar", 1))
            for _ in range(4 * k):
                cs.append(self.mk(ctx, fam, "len1", 1))
            for _ in range(4 * k):
                cs.append(self.mk(ctx, fam, "len3", 3))
            for _ in range(3 * k):
                cs.append(self.mk(ctx, fam, "array", ctx.rng.choice([2, 4, 5, 7, 8, 9, 16, 17, 33])))
            for _ in range(1 * k):
                cs.append(self.mk(ctx, fam, "list", ctx.rng.choice([1, 2, 3, 5])))
            for _ in range(1 * k):
                cs.append(self.mk(ctx, fam, "bcast", ctx.rng.choice([1, 3, 6])))
        for _ in range(6 * k):                    # arrays mixing all families (both branches, zeros)
            cs.append(self.mk(ctx, "mixed", "len3", 3))
            cs.append(self.mk(ctx, "mixed", "array", ctx.rng.choice([6, 12, 40])))
        cs.extend(self.form_cases(ctx, ctx.n(1, 4) * (1 if round == 0 else 2)))
        # long arrays: beyond numpy's internal buffer (8192 elements) and plausible block sizes, 2^k +- 1
        sizes = ctx.n([4097, 8193, 65537], [1023, 4095, 4097, 8191, 8193, 16385, 32769, 65537, 100000, 131073])
        for i, n in enumerate(sizes):
            cs.append(self.mk_long(ctx, n, form=["plain", "f4", "strided", "plain"][i % 4]))
        return cs

    def impl(self, c):
        out = run_case(c)
        self.results.append((c, out))
        return out

    def term(self, c, out):
        return ("v_long " if c.get("long") is not None else "v_full ") + full_args(c, out)

    def show(self, c):
        # ([outs_ok; swapped identical; other container form identical; +360 within 2 tol],   for a sequence step the
        #  3rd = the call made alone in a fresh process, the 4th = the call after the same history in a fresh process
        #  outputs of the binary64 reading of the source on the case's inputs with the call's own libm values)
        out = run_case(c)
        orc = out.get("orc")
        m = "[]" if not orc else "model_outs %s %s %s %s %s" % (FN_T[c["fn"]], ctables(orc), UNIT[c["uin"]],
                                                                   UNIT[c["uout"]], cpts(c["pts"]))
        return "(props_detail %s, %s)" % (props_args(c, out), m)

    def nontrivial(self, c, out):
        return any(p[0] != p[2] or p[1] != p[3] for p in c["pts"])

    def classify(self, c, out, v):
        if v == 1:
            return "%s:float-model-differs" % self.fn
        for k in ("main", "swapped", "elem", "shifted", "ext"):
            o = out.get(k)
            if o is not None and o[0] == "err":
                return "%s:%s-call-%s" % (self.fn, k, o[1])
        return "%s:value-check" % self.fn


# ----------------------------------------------------------------------------
# interval certificates
# ----------------------------------------------------------------------------

def approx_dot(p, uin):
    f = math.pi / 180 if uin == "deg" else 1.0
    a1, d1, a2, d2 = [x * f for x in p]
    return math.cos(d1) * math.cos(d2) * math.cos(a1 - a2) + math.sin(d1) * math.sin(d2)


def cert_lemma(item, with_model, prec=None, refute=False):
    """(statement, script) certifying item = {fn, uin, uout, pt, out}"""
    fn, uin, uout, p, out = item["fn"], item["uin"], item["uout"], item["pt"], item["out"]
    form = "small" if approx_dot(p, uin) >= 0 else "large"
    prec = prec or (100 if fn == "sphdist" else 70)
    vals = "%s %s" % (" ".join(cR(x) for x in p), cR(out))
    spec = "sep_ok %s %s %s %s" % (UNIT[uin], UNIT[uout], TOL[fn], vals)
    reduce_ = "unfold sep_ok. rewrite true_sep_%s by (%s; interval with (i_prec %d)). %s." % (form, UNFOLD, min(prec, 40), UNFOLD)
    if refute:
        return "~ " + spec, "%s apply Rlt_not_le. interval with (i_prec %d)." % (reduce_, prec)
    if with_model:
        st = ("sphdist_src_cert %s %s %s %s" % (UNIT[uin], UNIT[uout], TOL[fn], vals)) if fn == "sphdist" else \
             ("gcirc_src_cert %s %s" % (TOL[fn], vals))
        return st, "apply %s_src_cert_intro. %s interval with (i_prec %d)." % (fn, reduce_, prec)
    return spec, "%s interval with (i_prec %d)." % (reduce_, prec)


def certify(ctx, items, with_model, tag, base=0):
    """compile one certificate per item; failures are retried at high precision together with the
    refutation lemma.  Returns the number of violations reported."""
    pre = PRE_CERT if with_model else PRE_CERT_SPEC
    lem = [cert_lemma(it, with_model) for it in items]
    res = core.coq_lemmas(os.path.join(ctx.work, tag), pre, lem, shard=max(6, -(-len(lem) // core.NCPU)) if ctx.quick() else 20, tag=tag)
    ctx.checker_cmds.append("coqc <%d generated lemmas %s; closed by interval>" % (len(lem), tag))
    nviol = 0
    redo = [i for i, (ok, _) in enumerate(res) if not ok]
    verdict = {}
    if redo:
        lem2 = []
        for i in redo:
            lem2.append(cert_lemma(items[i], with_model, prec=300))
            lem2.append(cert_lemma(items[i], False, prec=300, refute=True))
        res2 = core.coq_lemmas(os.path.join(ctx.work, tag + "_retry"), pre, lem2, shard=2, tag=tag + "r")
        for k, i in enumerate(redo):
            verdict[i] = (res2[2 * k][0], res2[2 * k + 1][0], res2[2 * k][1])
    for i, it in enumerate(items):
        name = "cert:%s:%s/%s:%s#%d" % (it["fn"], it["uin"], it["uout"], it["family"], base + i)
        ok = res[i][0] or verdict[i][0]
        ctx.obligation(name, ok, "" if ok else verdict[i][2])
        nontriv = it["pt"][0] != it["pt"][2] or it["pt"][1] != it["pt"][3]
        ctx.case(["cert", it["fn"], it["uin"], it["uout"], it["pt"]], nontriv, "cert:" + it["family"].split("/")[0],
                 sample={"entry": "cert", "input": it["pt"], "units": [it["uin"], it["uout"]], "fn": it["fn"], "impl_output": it["out"]})
        ctx.count("cert:%s:%s" % (it["fn"], "ok" if ok else "FAILED"))
        if i in verdict and ok:
            ctx.count("cert:needed-high-precision")
        if not ok:
            refuted = verdict[i][1]
            nviol += 1
            what = ("%s(%s) = %r is NOT within %s degree of the true great-circle angle (units %s->%s)%s" % (
                it["fn"], ", ".join(repr(x) for x in it["pt"]), it["out"], TOL[it["fn"]], it["uin"], it["uout"],
                " [negation proved by interval]" if refuted else " [certificate not provable at 300 bits]"))
            ctx.violation("%s: output outside the statement's tolerance" % it["fn"],
                          {"kind": "certificate", "entry": "cert", "case": it, "detail": what,
                           "negation_proved": bool(refuted), "class": "%s:tolerance" % it["fn"],
                           "no_longer_checks": "per-case certificate %s_src_cert (C08_certificate_ties_source)" % it["fn"]},
                          found_input=bool(refuted))
    return nviol


def cert_pool(entries, ctx, budget):
    """choose the pairs to certify: all corpus pairs, then a family-balanced sample of the elements
    of the calls made by the exact-rational pass (main outputs and exactly shifted outputs)."""
    r = ctx.rng
    fixed, byfam = [], {}
    for ent in entries:
        for c, out in ent.results:
            if out["main"][0] != "ok" or not all(math.isfinite(x) for x in out["main"][1]):
                continue
            n = len(c["pts"])
            idx = range(n) if n <= 40 else r.sample(range(n), 40)
            for i in idx:
                it = {"fn": c["fn"], "uin": c["uin"], "uout": c["uout"], "pt": c["pts"][i],
                      "out": out["main"][1][i], "family": c["family"]}
                if c["family"].startswith("corpus"):
                    fixed.append(it)
                else:
                    g = c["family"].split("/")[0]
                    g = "forms" if g.startswith(("form:", "kw:", "permuted")) else "seq" if g.startswith("seq:") else g
                    byfam.setdefault((c["fn"], g, c["uin"], c["uout"]), []).append(it)
            sh = out.get("shifted")
            if sh is not None and sh[0] == "ok" and n <= 40 and all(math.isfinite(x) for x in sh[1]):
                i = r.randrange(n)
                byfam.setdefault((c["fn"], "shifted+360", c["uin"], c["uout"]), []).append(
                    {"fn": c["fn"], "uin": c["uin"], "uout": c["uout"], "pt": out["shifted_pts"][i],
                     "out": sh[1][i], "family": "shifted+360/" + c["family"]})
    # round-robin over (function, family) groups, the families of the quantifier's adversarial list first, so that
    # every prefix of the pool (the first batch always runs) is spread over all of them; units are mixed inside a group
    prio = ["poles", "tiny", "antipodal", "large", "turns", "forms", "seq", "seam", "uniform", "same-direction", "shifted+360", "mixed", "equal"]
    groups = {}
    for k in sorted(byfam):
        groups.setdefault((prio.index(k[1]) if k[1] in prio else len(prio), k[1], k[0]), []).extend(byfam[k])
    keys = sorted(groups)
    for k in keys:
        r.shuffle(groups[k])
    chosen, seen = list(fixed), set()
    while len(chosen) < budget and any(groups[k] for k in keys):
        for k in keys:
            if groups[k] and len(chosen) < budget:
                it = groups[k].pop()
                key = (it["fn"], it["uin"], it["uout"], tuple(it["pt"]))
                if key not in seen:
                    seen.add(key)
                    chosen.append(it)
    return chosen


# ----------------------------------------------------------------------------

TRUSTED = [
    "Coq 8.16.1 kernel (coqc, vm_compute; no native_compute); theorems of C08/Properties.v depend only on the standard "
    "library's real-number axioms (ClassicalDedekindReals.sig_forall_dec, sig_not_dec, FunctionalExtensionality."
    "functional_extensionality_dep, Classical_Prop.classic) and, where closed by Interval (pi_lo < PI < pi_hi, the numeric "
    "instances of the conditioning theorem and every per-case certificate), on the stdlib specification axioms of the "
    "primitive floats/ints (FloatAxioms.*, Uint63.*); the float-level theorem C08_float_zero_identical uses the primitive "
    "float type and its equality only",
    "translator harness/props/c08_translate.py (python ast -> Gallina, fail-closed): the element-wise reading of the numpy "
    "statements of _thetaphi2xyz, eq2xyz, sphdist, gcirc (array conversion = identity, in-place ufuncs, masks, masked "
    "stores, np.where, (3,n) vector selection, np.cross) is the translator's; it is emitted twice from one ast walk: over R "
    "(Src.v; proved equal to the hand-written model Model.v + Gen.v constants in SrcProofs.v) and over binary64 (SrcF.v)",
    "binary64 reading SrcF.v: + - * / sqrt, comparisons are Coq PrimFloat operations (IEEE-754, no FMA: numpy evaluates "
    "one ufunc per operation); x**2 = x*x, np.deg2rad(x) = x*fl(pi/180), np.rad2deg(x) = x*fl(180/pi), np.cross "
    "component = fl(fl(ab)-fl(cd)) are assumptions about numpy, confirmed on every case by bit-for-bit agreement with the "
    "real output; libm sin, cos, arcsin, arccos are NOT modelled: their values are recorded inside the observed call "
    "(wrappers around esutil.coords' names, observation only) and passed as tables",
    "NOT proved: that IEEE rounding and libm keep the result within the tolerance for ALL inputs -- measured instead: each "
    "sampled output of the real code is certified by a kernel-checked interval enclosure to be within the statement's "
    "tolerance of the true angle of its exact binary64 inputs (partial w.r.t. rounding, DESIGN 3.3-R); real PI stands for "
    "np.pi and the constants of deg2rad/rad2deg in the real-number reading",
    "numpy array layer (broadcasting, container conversion) beyond the element-wise reading is checked per run on exact "
    "values: scalar = length-1 = length-n = list = broadcast calls bit for bit",
    "python harness (harness/props/C08.py, c08_translate.py), binary64 -> exact literal printers (core.cR rationals for the "
    "certificates, core.cfloat hexadecimal floats decoded by Exec.f2q), coqc evaluating Exec.v / ExecF.v verdict terms",
]


def _killed(v):
    """the violation was produced by a coqc / coqchk process that was killed (no compiler output; SIGKILL from the
    kernel's OOM killer on the shared machine): that says nothing about the property"""
    import json
    try:
        r = json.load(open(v["replay"]))
    except Exception:  # noqa
        return False
    if r.get("kind") == "case-file":
        return str(r.get("error", "")).strip().endswith(".v:")
    if r.get("kind") == "coqchk":
        return r.get("returncode") in (-9, 137) and not str(r.get("log_tail", "")).strip()
    if r.get("kind") == "assumptions":
        bad = r.get("bad") or []
        return bool(bad) and all(b[0] == "<compile>" and "Error" not in str(b[1]) for b in bad)
    return False


def retry_if_killed(ctx, step, what, attempts=3):
    """run step() (which may report violations); when ALL violations it reported stem from killed Coq processes,
    undo its bookkeeping and run it again (at most `attempts` times in total).  A real failure is never retried."""
    import time
    for k in range(attempts):
        snap = (len(ctx.violations), len(ctx.obligations), len(ctx.notes), len(ctx.assumptions_txt), len(ctx.checker_cmds))
        res = step()
        new = ctx.violations[snap[0]:]
        if not new or k == attempts - 1 or not all(_killed(v) for v in new):
            return res
        for v in new:
            try:
                os.remove(v["replay"])
            except OSError:
                pass
        del ctx.violations[snap[0]:], ctx.obligations[snap[1]:], ctx.notes[snap[2]:]
        del ctx.assumptions_txt[snap[3]:], ctx.checker_cmds[snap[4]:]
        ctx.count("retry:%s:coq-process-killed" % what)
        time.sleep(10)


def tag_classes(ctx):
    """one VIOLATION line per class of failing call (ctx.finish prints one line per distinct text)"""
    import json
    for v in ctx.violations:
        try:
            cls = json.load(open(v["replay"])).get("class")
        except Exception:  # noqa
            cls = None
        if cls and ("[%s]" % cls) not in v["what"]:
            v["what"] += " [%s]" % cls


def run(ctx, replay=None):
    ctx.rule = ("pairs from the families of the quantifier (uniform; separations 1e-12..1e-3 deg; 180-1e-13..180 deg and exactly "
                "antipodal inputs; the whole large-angle branch and the branch point of the threshold literal found in the "
                "source; poles; seam; identical inputs; same direction with different inputs) in scalar / length-1 / "
                "length-3 / array / list / broadcast / long-array calls and all four unit combinations; every call is (a) "
                "reproduced bit for bit inside Coq by the binary64 reading of the translated source with the call's own libm "
                "values (calls of <= 64 pairs), (b) checked on exact rationals inside Coq (finite, range, bit-level symmetry, "
                "exact zero, container forms identical, +360 within 2 tol), and (c) a family-balanced sample of pairs is "
                "certified by interval lemmas against the true angle (as many as fit the tier's time budget; corpus pairs "
                "first).  non-trivial: the two points differ; distinct by canonical JSON; families counted separately "
                "(family:* and cert:* keys).")
    ctx.trusted = TRUSTED
    # 1. constants from the source of the tree under check
    gen_ok = True
    try:
        consts, changed = c08_translate.regenerate(ctx.impl, core.COQDIR)
        ctx.obligation("Gen.v regenerated from esutil/coords.py (threshold %r, clip %r..%r)%s" % (
            consts["thr"], consts["lo"], consts["hi"], " [changed]" if changed else ""), True)
        BRANCH["sep"] = thr_sep(consts["thr"])
    except c08_translate.TranslateError as e:
        gen_ok = False
        ctx.obligation("Gen.v regenerated from esutil/coords.py", False, str(e))
        ctx.violation("translation of the constants of sphdist/gcirc failed: %s" % e,
                      {"kind": "translation", "error": str(e),
                       "no_longer_checks": "tie of C08/Gen.v (sphdist_thr, gcirc_clip_lo/hi) to esutil/coords.py"},
                      found_input=False)
    # 1b. the formulas: element-wise reading of the source text -> Src.v (SrcProofs.v proves it is the model)
    try:
        changed = c08_translate.regenerate_source(ctx.impl, core.COQDIR)
        ctx.obligation("Src.v, SrcF.v, GenMeta.v regenerated from esutil/coords.py (_thetaphi2xyz, eq2xyz, sphdist, gcirc: "
                       "formulas, statement sequence, keyword defaults)%s" % (
            " [changed]" if changed else ""), True)
    except c08_translate.TranslateError as e:
        gen_ok = False
        c08_translate.restore_last_good(core.COQDIR)     # the theorems then speak about the last translation that checked
        ctx.obligation("Src.v regenerated from esutil/coords.py", False, str(e))
        ctx.violation("translation of the source of sphdist/gcirc failed (the code no longer has a shape whose "
                      "element-wise reading is known): %s" % e,
                      {"kind": "translation", "error": str(e),
                       "no_longer_checks": "tie of C08/Src.v (thetaphi2xyz_src, eq2xyz_src, sphdist_src, gcirc_src) to "
                                           "esutil/coords.py; theorems C08_source_is_model, C08_source_exact"},
                      found_input=False)
    # 1c. the numpy constants of the binary64 reading, from the numpy that runs this check (tie lemma in TieProofs.v)
    try:
        ch = c08_translate.regenerate_numpy_constants(core.COQDIR)
        ctx.obligation("GenNp.v regenerated from the running numpy (deg2rad(1), rad2deg(1), pi)%s" % (" [changed]" if ch else ""), True)
    except Exception as e:  # noqa
        ctx.obligation("GenNp.v regenerated from the running numpy", False, str(e))
    # 2. theorems
    proofs_ok = retry_if_killed(ctx, lambda: core.proof_step(ctx, "C08", core.ALLOW_INTERVAL,
                                                             extra_targets=["theories/C08/ExecF.vo"]), "proof-step")
    if proofs_ok and gen_ok:
        c08_translate.remember_good(core.COQDIR)
    if not proofs_ok:
        # the general theorems (Proofs.v) do not depend on the constants: keep searching for a failing
        # input with certificates stated against the specification only
        ok, log = core.coq_make(["theories/C08/Proofs.vo", "theories/C08/Exec.vo", "theories/C08/ExecF.vo"])
        if not ok:
            return
    with_model = proofs_ok and gen_ok
    entries = [Sep("sphdist"), Sep("gcirc")]
    # 3. replay of a certificate
    if replay is not None and replay.get("entry") == "cert":
        it = dict(replay["case"])
        o = call_impl(it["fn"], it["uin"], it["uout"], "len1", [it["pt"]])
        if o[0] != "ok":
            ctx.violation("%s raises / returns no finite value on the replayed pair: %s" % (it["fn"], o[2]),
                          {"kind": "failing-input", "entry": "cert", "case": it, "impl_output": o, "class": "%s:main-call-%s" % (it["fn"], o[1])})
            return
        it["out"] = o[1][0]
        certify(ctx, [it], with_model, "replay")
        tag_classes(ctx)
        return
    # 4. exact-rational checks on every call
    for ent in entries:          # one entry at a time: a case file whose coqc was killed leaves nothing counted
        def one(ent=ent):
            ent.results = []
            differential(ctx, PRE_Q, [ent], replay)
        retry_if_killed(ctx, one, "case-files-" + ent.name)
    tag_classes(ctx)
    if replay is not None:
        return
    ctx.count("observed:RuntimeWarning-raised-inside-esutil", WARN_COUNT["n"])
    for k, v in ORC_STATS.items():
        ctx.count("float-model:calls-%s" % k, v)
    ctx.count("sequence:fresh-processes", CHILD["runs"])
    # 5. certificates
    import time
    t0 = time.time()
    # the pool is ordered (corpus pairs first, then round-robin over function x family x units); it is
    # certified in batches until the pool or the tier's time budget is exhausted -- the first batch always runs
    items = cert_pool(entries, ctx, ctx.n(200, 4200))
    deadline = ctx.t0 + ctx.n(150, 850)
    done, k = 0, 0
    while done < len(items):
        now = time.time()
        if done == 0:
            n = min(len(items), ctx.n(44, 256))
        else:
            room = int((deadline - now) / ((now - t0) / done))
            if room < 16:
                break
            n = min(len(items) - done, room, ctx.n(96, 1024))
        certify(ctx, items[done:done + n], with_model, "cert%d" % k, base=done)
        done += n
        k += 1
    tag_classes(ctx)
    ctx.count("cert:pool", len(items))
    ctx.count("cert:not-attempted-time-budget", len(items) - done)
    ctx.count("wall_s:certificates", round(time.time() - t0, 1))

"""Statement-level translator for C07: python ast of four anchored functions of esutil/numpy_util.py ->
Gallina terms over the combinators of coq/theories/C07/Py.v, written to coq/theories/C07/GenCode.v.
TieCode.v proves `gen_<f> = Model.<f>`; that proof is re-checked on every run against the regenerated text.

Subset (exactly what the current source of copy_fields, copy_fields_by_name, extract_fields, remove_fields
needs; anything else raises TranslateError = fail closed):
  if not isinstance(V, CLASSES): V = [V]        -> match wrap_by FORMS V with None => unmodelled | Some V => ... end
  if A <op> B: raise E(...)                      -> if py_cmp OP A B then Err E else ...
  if FLAG: <for loop without state>              -> do _ <- (if FLAG then <loop> else Ok tt); ...
  X = <expr>      X = []                         -> let X := <expr> in ...
  X = np.zeros(S, dtype=D)                       -> do X <- np_zeros S D; ...
  copy_fields(A, B)                              -> do B <- gen_copy_fields A B; ...
  for T in <iter>: <body>                        -> do STATE <- py_for <iter> STATE (fun T STATE => <body>); ...
     body: T2 = <expr> | if C: <update> [else ...] | X.append(e) | A[N] = B[N] | A[N] = V | raise E(...)
  return X / end of an in-place function         -> Ok X
expressions: names, int constants, a.dtype.names, a.dtype.descr, a.size, a.shape, list(x), len(x), zip(x, y),
  x[0], x == y, x != y, x < y ..., x in y, x not in y
"""
import ast
import os

from .c07_translate import TranslateError, _func, u, CMP_OF, CLASS_OF

ERR = {"ValueError": "EValue", "IndexError": "EIndex", "RuntimeError": "ERuntime", "TypeError": "EType", "KeyError": "EKey"}
SIGS = {
    "copy_fields": ("(v_arr1 v_arr2 : sarray)", ["arr1", "arr2"], "arr2"),
    "copy_fields_by_name": ("(v_arr : sarray) (v_names : names_arg) (v_vals : vals_arg)", ["arr", "names", "vals"], "arr"),
    "extract_fields": ("(v_arr : sarray) (v_keepnames : names_arg) (v_strict : bool)", ["arr", "keepnames", "strict"], None),
    "remove_fields": ("(v_arr : sarray) (v_rmnames : names_arg)", ["arr", "rmnames"], None),
    "combine_fields": ("(v_arrlist : list sarray)", ["arrlist"], None),
}
ORDER = ["copy_fields", "copy_fields_by_name", "extract_fields", "remove_fields", "combine_fields"]
ARRLIST_VARS = {"arrlist"}    # variables holding a list of arrays: x[0] is its first array
VALS_VARS = {"vals"}          # arguments wrapped with vwrap_by (values), the others with wrap_by (names)


def v(name):
    return "v_" + name


def expr(e):
    if isinstance(e, ast.Name):
        return v(e.id)
    if isinstance(e, ast.Constant) and isinstance(e.value, int) and not isinstance(e.value, bool):
        return "%d" % e.value
    if isinstance(e, ast.List) and not e.elts:
        return "[]"
    if isinstance(e, ast.Attribute):
        t = u(e)
        for suf, f in ((".dtype.names", "py_names"), (".dtype.descr", "py_descr"), (".size", "py_size"), (".shape", "py_shape")):
            if t.endswith(suf):
                base = e.value if suf.count(".") == 1 else e.value.value
                if isinstance(base, ast.Name) or (isinstance(base, ast.Subscript) and isinstance(base.value, ast.Name)
                                                  and base.value.id in ARRLIST_VARS):
                    return "(%s %s)" % (f, expr(base))
        raise TranslateError("attribute outside the subset: %s" % t)
    if isinstance(e, ast.Call) and isinstance(e.func, ast.Name) and not e.keywords:
        if e.func.id == "list" and len(e.args) == 1:
            return expr(e.args[0])
        if e.func.id == "len" and len(e.args) == 1:
            return "(py_len %s)" % expr(e.args[0])
        if e.func.id == "zip" and len(e.args) == 2:
            return "(py_zip %s %s)" % (expr(e.args[0]), expr(e.args[1]))
    if isinstance(e, ast.Subscript) and isinstance(e.slice, ast.Constant) and e.slice.value == 0:
        if isinstance(e.value, ast.Name) and e.value.id in ARRLIST_VARS:
            return "(py_first %s)" % expr(e.value)
        return "(py_item0 %s)" % expr(e.value)
    if isinstance(e, ast.Compare) and len(e.ops) == 1:
        a, b, op = expr(e.left), expr(e.comparators[0]), e.ops[0]
        if isinstance(op, ast.In):
            return "(py_in %s %s)" % (a, b)
        if isinstance(op, ast.NotIn):
            return "(negb (py_in %s %s))" % (a, b)
        if type(op) in CMP_OF:
            return "(py_cmp %s %s %s)" % (CMP_OF[type(op)], a, b)
    raise TranslateError("expression outside the subset: %s" % u(e))


def exc(r):
    if not isinstance(r.exc, ast.Call) or u(r.exc.func) not in ERR:
        raise TranslateError("raise outside the subset: %s" % u(r))
    return "Err %s" % ERR[u(r.exc.func)]


def assigned(stmts):
    """variables updated by the statements of a loop body, in order of first update; temporaries (plain
    `T = expr` at the top of the body) are not state"""
    out, temps = [], []
    for st in stmts:
        for n in ast.walk(st):
            name = None
            if isinstance(n, ast.Expr) and isinstance(n.value, ast.Call) and isinstance(n.value.func, ast.Attribute) \
                    and n.value.func.attr == "append" and isinstance(n.value.func.value, ast.Name):
                name = n.value.func.value.id
            elif isinstance(n, ast.Assign) and isinstance(n.targets[0], ast.Subscript) and isinstance(n.targets[0].value, ast.Name):
                name = n.targets[0].value.id
            elif isinstance(n, ast.AugAssign) and isinstance(n.target, ast.Name):
                name = n.target.id
            elif isinstance(n, ast.Expr) and isinstance(n.value, ast.Call) and u(n.value.func) == "copy_fields" \
                    and len(n.value.args) == 2 and isinstance(n.value.args[1], ast.Name):
                name = n.value.args[1].id
            elif isinstance(n, ast.Assign) and isinstance(n.targets[0], ast.Name) and n in stmts:
                temps.append(n.targets[0].id)
            if name and name not in out:
                out.append(name)
    return [x for x in out if x not in temps]


def tup(vs):
    if not vs:
        return "tt"
    return v(vs[0]) if len(vs) == 1 else "(%s)" % ", ".join(v(x) for x in vs)


def pat(vs):
    if not vs:
        return "_"
    return v(vs[0]) if len(vs) == 1 else "'(%s)" % ", ".join(v(x) for x in vs)


def body(stmts, state):
    """statements of a loop body -> Gallina of type result STATE"""
    if not stmts:
        return "Ok %s" % tup(state)
    st, rest = stmts[0], stmts[1:]
    if isinstance(st, ast.Assign) and len(st.targets) == 1 and isinstance(st.targets[0], ast.Name):
        return "let %s := %s in %s" % (v(st.targets[0].id), expr(st.value), body(rest, state))
    if isinstance(st, ast.If) and rest and not st.orelse and len(st.body) == 1 and isinstance(st.body[0], ast.Raise):
        return "if %s then %s else (%s)" % (expr(st.test), exc(st.body[0]), body(rest, state))
    if isinstance(st, ast.AugAssign) and isinstance(st.op, ast.Add) and isinstance(st.target, ast.Name):
        x = v(st.target.id)
        return "let %s := %s ++ %s in %s" % (x, x, expr(st.value), body(rest, state))
    if isinstance(st, ast.Expr) and isinstance(st.value, ast.Call) and u(st.value.func) == "copy_fields" \
            and len(st.value.args) == 2 and all(isinstance(a, ast.Name) for a in st.value.args) and not st.value.keywords:
        a, b = st.value.args
        return "do %s <- gen_copy_fields %s %s; %s" % (v(b.id), v(a.id), v(b.id), body(rest, state))
    if isinstance(st, ast.If):
        if rest:
            raise TranslateError("an if inside a loop body must be its last statement")
        return "if %s then (%s) else (%s)" % (expr(st.test), body(st.body, state), body(st.orelse, state))
    if isinstance(st, ast.Raise):
        return exc(st)
    if isinstance(st, ast.Expr) and isinstance(st.value, ast.Call) and isinstance(st.value.func, ast.Attribute) \
            and st.value.func.attr == "append" and len(st.value.args) == 1 and isinstance(st.value.func.value, ast.Name):
        x = v(st.value.func.value.id)
        return "let %s := %s ++ [%s] in %s" % (x, x, expr(st.value.args[0]), body(rest, state))
    if isinstance(st, ast.Assign) and isinstance(st.targets[0], ast.Subscript) and isinstance(st.targets[0].value, ast.Name) \
            and isinstance(st.targets[0].slice, ast.Name):
        a, n = st.targets[0].value.id, st.targets[0].slice.id
        val = st.value
        if isinstance(val, ast.Subscript) and isinstance(val.value, ast.Name) and isinstance(val.slice, ast.Name) \
                and val.slice.id == n:
            return "do %s <- py_copyfield %s %s %s; %s" % (v(a), v(a), v(val.value.id), v(n), body(rest, state))
        if isinstance(val, ast.Name):
            return "do %s <- py_setval %s %s %s; %s" % (v(a), v(a), v(n), v(val.id), body(rest, state))
    raise TranslateError("statement outside the subset (loop body): %s" % u(st).splitlines()[0])


def loop(st):
    if st.orelse:
        raise TranslateError("for ... else")
    state = assigned(st.body)
    if isinstance(st.target, ast.Name):
        tgt = v(st.target.id)
    elif isinstance(st.target, ast.Tuple) and all(isinstance(e, ast.Name) for e in st.target.elts) and len(st.target.elts) == 2:
        tgt = "'(%s, %s)" % (v(st.target.elts[0].id), v(st.target.elts[1].id))
    else:
        raise TranslateError("loop target outside the subset")
    return state, "(py_for %s %s (fun %s %s => %s))" % (expr(st.iter), tup(state), tgt, pat(state), body(st.body, state))


def block(fn, stmts, inplace):
    """statements of a function body -> Gallina of type result sarray (continuation style)"""
    if not stmts:
        if inplace is None:
            raise TranslateError("%s: falls off the end without a return" % fn.name)
        return "Ok %s" % v(inplace)
    st, rest = stmts[0], stmts[1:]
    k = lambda: block(fn, rest, inplace)   # noqa
    if isinstance(st, ast.Expr) and isinstance(st.value, ast.Constant) and isinstance(st.value.value, str):
        return k()                                                             # docstring
    if isinstance(st, ast.Return):
        if rest or not isinstance(st.value, ast.Name):
            raise TranslateError("%s: return outside the subset" % fn.name)
        return "Ok %s" % v(st.value.id)
    if isinstance(st, ast.If) and not st.orelse:
        t = st.test
        if isinstance(t, ast.UnaryOp) and isinstance(t.op, ast.Not) and isinstance(t.operand, ast.Call) \
                and u(t.operand.func) == "isinstance":
            var = u(t.operand.args[0])
            if len(st.body) != 1 or u(st.body[0]) != "%s = [%s]" % (var, var):
                raise TranslateError("%s: isinstance dispatch outside the subset" % fn.name)
            cl = t.operand.args[1]
            ks = set()
            for e in (cl.elts if isinstance(cl, ast.Tuple) else [cl]):
                if u(e) not in CLASS_OF:
                    raise TranslateError("%s: isinstance class %s" % (fn.name, u(e)))
                ks.add(CLASS_OF[u(e)])
            forms = "(mkForms %s %s %s %s)" % tuple("true" if x in ks else "false" for x in ("tuple", "list", "ndarray", "str"))
            w = "vwrap_by" if var in VALS_VARS else "wrap_by"
            return "match %s %s %s with None => unmodelled | Some %s => (%s) end" % (w, forms, v(var), v(var), k())
        if len(st.body) == 1 and isinstance(st.body[0], ast.Raise):
            return "if %s then %s else (%s)" % (expr(t), exc(st.body[0]), k())
        if len(st.body) == 1 and isinstance(st.body[0], ast.Return) and st.body[0].value is not None:
            return "if %s then Ok %s else (%s)" % (expr(t), expr(st.body[0].value), k())
        if isinstance(t, ast.Name) and len(st.body) == 1 and isinstance(st.body[0], ast.For):
            state, lp = loop(st.body[0])
            if state:
                raise TranslateError("%s: a conditional loop with state" % fn.name)
            return "do _ <- (if %s then %s else Ok tt); %s" % (v(t.id), lp, k())
    if isinstance(st, ast.Assign) and len(st.targets) == 1 and isinstance(st.targets[0], ast.Name):
        x, val = v(st.targets[0].id), st.value
        if isinstance(val, ast.Call) and u(val.func) in ("np.zeros", "numpy.zeros"):
            if not (len(val.args) == 1 and len(val.keywords) == 1 and val.keywords[0].arg == "dtype"):
                raise TranslateError("%s: np.zeros call outside the subset" % fn.name)
            return "do %s <- np_zeros %s %s; %s" % (x, expr(val.args[0]), expr(val.keywords[0].value), k())
        return "let %s := %s in %s" % (x, expr(val), k())
    if isinstance(st, ast.For):
        state, lp = loop(st)
        return "do %s <- %s; %s" % (pat(state) if state else "_", lp, k())
    if isinstance(st, ast.Expr) and isinstance(st.value, ast.Call) and u(st.value.func) == "copy_fields" \
            and len(st.value.args) == 2 and all(isinstance(a, ast.Name) for a in st.value.args) and not st.value.keywords:
        a, b = st.value.args
        return "do %s <- gen_copy_fields %s %s; %s" % (v(b.id), v(a.id), v(b.id), k())
    raise TranslateError("%s: statement outside the subset: %s" % (fn.name, u(st).splitlines()[0]))


def translate(src):
    tree = ast.parse(src)
    out = []
    for name in ORDER:
        fn = _func(tree, name)
        sig, params, inplace = SIGS[name]
        if [a.arg for a in fn.args.args] != params:
            raise TranslateError("%s: parameters are %s" % (name, [a.arg for a in fn.args.args]))
        out.append("Definition gen_%s %s : result sarray :=\n  %s." % (name, sig, block(fn, fn.body, inplace)))
    return out


HEADER = """(* GENERATED by harness/props/c07_pygen.py from esutil/numpy_util.py -- do not edit by hand.
   The bodies of copy_fields, copy_fields_by_name, extract_fields and remove_fields, statement by
   statement, over the combinators of Py.v (and of combine_fields).  TieCode.v proves gen_<f> = Model.<f>. *)
From EsVerif.Common Require Import Base Bytes.
From Coq.Strings Require String.
From EsVerif.C07 Require Import Model Skel Py.

"""


def gen_text(src):
    return HEADER + "\n\n".join(translate(src)) + "\n"


def regenerate(impl_dir, coqdir):
    """-> changed: bool; raises TranslateError (GenCode.v is then reset to the committed GenCode.v.good)"""
    path = os.path.join(impl_dir, "esutil", "numpy_util.py")
    dst = os.path.join(coqdir, "theories", "C07", "GenCode.v")
    try:
        txt = gen_text(open(path).read())
    except (OSError, SyntaxError) as e:
        raise TranslateError("cannot translate %s: %s" % (path, e))
    return _write(dst, txt)


def _write(dst, txt):
    old = open(dst).read() if os.path.exists(dst) else None
    if old == txt:
        return False
    tmp = dst + ".tmp.%d" % os.getpid()
    with open(tmp, "w") as f:
        f.write(txt)
    os.replace(tmp, dst)
    return True


def restore_good(coqdir):
    d = os.path.join(coqdir, "theories", "C07")
    return _write(os.path.join(d, "GenCode.v"), open(os.path.join(d, "GenCode.v.good")).read())


if __name__ == "__main__":
    import sys
    print(gen_text(open(sys.argv[1]).read()))

"""C18 — weighted moments, clipping, interpolation, cov/cor (DESIGN.md section 7, C18; style Q).

Every case is run on the real esutil.stat (scratch build of the working tree) and inside Coq on
the exact rational value of every input float.  The comparison (model vs implementation, and the
verified checker of the property on the implementation's output) is done inside Coq on exact
rationals (C18/Exec.v); Python only prints literals.  Verdict -1 = borderline-skipped (a clip
decision / weighted-median step of the float code is closer to its threshold than the rounding
tolerance): counted, not compared.
"""
import copy
import json
import math
import os
import time
from fractions import Fraction

from .. import core
from ..core import cz, clist, cbool
from ..runner import Entry, corpus_cases
from . import c18_translate

PRE = ("From Coq Require Import QArith.\nFrom EsVerif.Common Require Import Base.\n"
       "From EsVerif.C18 Require Import Model Spec SpecTol ModelKw UndefModel Exec.\n")


# ----------------------------------------------------------------------------
# literal printers: exact rationals, one common (power of two) denominator per array so that the
# model's sums need no gcd
# ----------------------------------------------------------------------------
def _fr(x):
    return Fraction(float(x))


def q1(x):
    f = _fr(x)
    return "(%d # %d)%%Q" % (f.numerator, f.denominator)


def _qs_den(fs, D):
    return "[" + "; ".join("(%d # %d)" % (f.numerator * (D // f.denominator), D) for f in fs) + "]%Q"


def qs(xs):
    fs = [_fr(x) for x in xs]
    D = max([f.denominator for f in fs] or [1])
    return _qs_den(fs, D)


def qm(rows):
    fss = [[_fr(x) for x in r] for r in rows]
    D = max([f.denominator for fs in fss for f in fs] or [1])
    return "[" + "; ".join(_qs_den(fs, D) for fs in fss) + "]"


def nd(a):
    """python scalar / list / list of lists -> Coq term of type nd"""
    if isinstance(a, (int, float)):
        return "(S0 %s)" % q1(a)
    if len(a) > 0 and isinstance(a[0], (list, tuple)):
        return "(M2 %s)" % qm(a)
    return "(V1 %s)" % qs(a)


def opt(x, f):
    return "None" if x is None else "(Some %s)" % f(x)


def finite(v):
    if isinstance(v, (list, tuple)):
        return all(finite(x) for x in v)
    return isinstance(v, (int, float)) and math.isfinite(v)


_SCRIBBLE = False      # inside a call sequence: the caller overwrites every RETURNED array after reading it


def canon(v):
    """numpy scalar / array -> python float / (nested) list of floats"""
    import numpy as np
    if isinstance(v, np.ndarray):
        out = [canon(x) for x in v] if v.ndim else float(v)
        if _SCRIBBLE and v.ndim and v.flags.writeable:
            v[...] = 7 if v.dtype.kind in "iu" else 7.0e77      # results must not be shared with later calls
        return out
    if isinstance(v, (list, tuple)):
        return [canon(x) for x in v]
    return float(v)


def guarded(f):
    """('ok', value) | ('err', class, text); non-finite numbers in a value are an error of their own"""
    import warnings
    with warnings.catch_warnings():
        warnings.simplefilter("ignore")
        r = core.guarded(f)
    if r[0] == "ok" and not _all_finite(r[1]):
        return ("err", "EOther", "non-finite output %r" % (r[1],))
    return r


def mod_list(n, a, b, m, off):
    """the list Exec.mod_list computes: x_i = ((a*i + b) mod m) - off"""
    return [float(((a * i + b) % m) - off) for i in range(n)]


def big(c, k, printer):
    """Coq term of argument k: large arguments are given by their formula c["formula"][k] = [n, a, b, m, off]"""
    f = (c.get("formula") or {}).get(k)
    if f is None:
        return printer(c[k])
    t = "(mod_list %d%%nat %s %s %s %s)" % (f[0], cz(f[1]), cz(f[2]), cz(f[3]), cz(f[4]))
    return "(V1 %s)" % t if printer is nd else t


def _nf_cols(vals, ncol):
    """for every column: is some returned value of that column not finite (a 0-d value counts for every column)"""
    out = []
    for j in range(ncol):
        bad = False
        for v in vals:
            if v is None:
                continue
            t = v[j] if isinstance(v, list) else v
            bad = bad or not math.isfinite(t)
        out.append(bad)
    return out


def _has_zero_weight(w):
    return w is not None and any(t == 0 for t in _flat(w))


def cbools(bs):
    return "[" + "; ".join("true" if b else "false" for b in bs) + "]"


def _all_finite(v):
    if v is None:
        return True
    if isinstance(v, (list, tuple)):
        return all(_all_finite(x) for x in v)
    if isinstance(v, bool):
        return True
    if isinstance(v, int):
        return True
    return math.isfinite(v)


def cres(out, f):
    return "(Ok %s)" % f(out[1]) if out[0] == "ok" else "(Err %s)" % out[1]


# ----------------------------------------------------------------------------
# containers: how an argument is handed to the real routine.  The case always stores the exact values (python
# floats); a container never changes a value (float32 data are rounded to float32 when the case is generated,
# integer containers are only used for integer-valued data), so the exact-rational comparison is the same for all.
#   f8 contiguous float64 array | f4 float32 array | i4 / i8 integer arrays | list (nested) python list |
#   strided non-contiguous float64 view | scalar python number | 0d zero-dimensional array
# ----------------------------------------------------------------------------
def _flat(v):
    if isinstance(v, (list, tuple)):
        for x in v:
            for y in _flat(x):
                yield y
    else:
        yield v


def _integral(v):
    return all(float(x).is_integer() and abs(x) < 2 ** 30 for x in _flat(v))


def f4ify(v):
    import numpy as np
    if isinstance(v, (list, tuple)):
        return [f4ify(x) for x in v]
    return float(np.float32(v))


def pick_ct(r, v, kinds=("f8", "f4", "list", "strided", "int")):
    """container for the data v; 'int' stands for i4/i8 and is offered only for integer-valued data"""
    opts = ["f8"] * 4
    for k in kinds:
        if k == "int":
            if _integral(v):
                opts += ["i4", "i8", "i8"]
        elif k != "f8":
            opts.append(k)
    return r.choice(opts)


def prep(r, v, kinds=("f8", "f4", "list", "strided", "int"), ok=None):
    """(values, container): float32 containers get float32-exact values; when that breaks the
    precondition `ok` (e.g. a strictly increasing table) the data stay float64"""
    ct = pick_ct(r, v, kinds)
    if ct == "f4":
        v4 = f4ify(v)
        if all(abs(x) < 3e38 for x in _flat(v4)) and (ok is None or ok(v4)):
            return v4, "f4"
        return v, "f8"
    return v, ct


def mk(v, ct):
    """the python object passed to esutil; asserts that it denotes exactly the values of the case"""
    import numpy as np
    if ct in ("list", "scalar") or v is None:
        return v
    if ct == "0d":
        return np.array(v, dtype="f8")
    ref = np.array(v, dtype="f8")
    if ct == "strided":
        if ref.ndim == 1:
            buf = np.full(2 * ref.shape[0] + 1, np.nan)
            a = buf[1::2]
        elif ref.ndim == 2:
            buf = np.full((2 * ref.shape[0], 2 * ref.shape[1] + 1), np.nan)
            a = buf[::2, 1::2]
        else:
            return ref
        a[...] = ref
        assert a.size == 0 or not a.flags["C_CONTIGUOUS"] or a.size == 1
        return a
    a = ref.astype({"f8": "f8", "f4": "f4", "i4": "i4", "i8": "i8"}[ct])
    assert np.array_equal(a.astype("f8"), ref), "container %s changes the values" % ct
    return a


# ----------------------------------------------------------------------------
# call history.  A *sequence* is a list of calls of one routine made in ONE process on the SAME argument objects,
# whose contents are overwritten in place between the calls (a[...] = new values; lst[:] = new values), with a
# step on fresh objects of equal contents in between.  A step is an ordinary case that carries its predecessors in
# c["hist"]; run_impl() replays them first, so every step (and every replay file) is self-contained.  While a
# sequence runs, A(c, k) hands out the object created for argument k by an earlier step whenever shape, dtype and
# container agree.
# ----------------------------------------------------------------------------
_ARENA = None


def A(c, k):
    """argument k of case c as the object passed to esutil"""
    import numpy as np
    v, ct = c[k], ct_of(c, k)
    new = mk(v, ct)
    if _ARENA is None or v is None or ct in ("scalar", "0d"):
        return new
    old = _ARENA.get(k)
    if isinstance(old, np.ndarray) and isinstance(new, np.ndarray) and old.shape == new.shape and old.dtype == new.dtype \
            and old.flags["C_CONTIGUOUS"] == new.flags["C_CONTIGUOUS"]:
        old[...] = new                       # same object, contents changed in place
        return old
    if isinstance(old, list) and isinstance(new, list) and len(old) == len(new):
        old[:] = new
        return old
    _ARENA[k] = new
    return new


def run_impl(ent, c):
    """the call of case c, preceded (same process, same argument objects) by the calls of its history"""
    global _ARENA, _SCRIBBLE
    if not c.get("hist"):
        return ent.impl(c)
    _ARENA = {}
    _SCRIBBLE = True
    try:
        for h in c["hist"]:
            if h.get("fresh"):
                _ARENA = {}
            ent.impl(h)
        if c.get("fresh"):
            _ARENA = {}
        return ent.impl(c)
    finally:
        _ARENA = None
        _SCRIBBLE = False


def _same_out(a, b):
    return json.dumps(a, sort_keys=True, default=str) == json.dumps(b, sort_keys=True, default=str)


# value transformations that keep shape, container and the preconditions of the routines
def _fit(v, ct):
    """round to the container; None when the container cannot hold the values"""
    if ct == "f4":
        v = f4ify(v)
        return v if all(abs(t) < 3e38 for t in _flat(v)) else None
    if ct in ("i4", "i8"):
        return v if _integral(v) else None
    return v


def _map(v, f):
    return [_map(t, f) for t in v] if isinstance(v, list) else f(v)


def tx_vec(r, v, ct, modes=("reverse", "scale", "negshift", "interior")):
    """another value of the same shape for a data / weight argument (1-d, or rows of an N-by-d array)"""
    for mode in r.sample(list(modes), len(modes)):
        if mode == "reverse":
            y = v[::-1]
        elif mode == "scale":
            y = _map(v, lambda t: t * 2.0)
        elif mode == "negshift":
            y = _map(v, lambda t: 1.0 - t)
        else:                                # equal length, equal first and last element, other interior
            y = [v[0]] + v[1:-1][::-1] + [v[-1]] if len(v) > 3 else None
        y = None if y is None else _fit(y, ct)
        if y is not None and y != v:
            return y, mode
    return v, "same"


def _strip(c):
    return {k: v for k, v in c.items() if k not in ("hist", "fresh")}


def make_sequences(ent, ctx, nseq):
    """nseq sequences of six calls: c, c again (same objects, same contents), variant 1 written into the same objects,
    c on FRESH objects of equal contents, variant 2 in place, c restored in place"""
    r = ctx.rng
    out = []
    pool = [c for c in ent.cases(ctx, 1) if ent.seq_ok(c)]
    for c in pool[:nseq]:
        c = _strip(c)
        v1, t1 = ent.variant(r, c)
        v2, t2 = ent.variant(r, c)
        steps = [(c, "first", False), (c, "again", False), (v1, "inplace:" + t1, False), (c, "fresh-equal", True),
                 (v2, "inplace:" + t2, False), (c, "restored", False)]
        hist = []
        for st, tag, fresh in steps:
            d = dict(copy.deepcopy(_strip(st)), hist=copy.deepcopy(hist), fresh=fresh)
            d["family"] = "seq:%s" % tag.split(":")[0] + _ctfam(c)
            d["seq"] = tag
            out.append(d)
            hist.append(dict(copy.deepcopy(_strip(st)), fresh=fresh))
    return out


def ct_of(c, k):
    ct = c.get("ct") or {}
    if k in ct:
        return ct[k]
    return c.get("container", "f8") if k == "x" else "f8"      # older corpus files


def _ctfam(c):
    ct = c.get("ct") or {}
    tags = sorted(set(v for v in ct.values() if v not in ("f8",)))
    return ("[" + ",".join(tags) + "]") if tags else ""


EPS = {False: None, True: "eps_f4"}


# ----------------------------------------------------------------------------
# generators of data and weights
# ----------------------------------------------------------------------------
DATA_KINDS = ["gauss", "gauss", "ints", "wide", "const", "unit", "offset"]
WEIGHT_KINDS = ["equal", "wild", "zeros", "ints", "unif", "equal-dyadic"]


def gen_data(r, n, kind):
    if kind == "gauss":
        mu, sd = r.choice([0.0, 1.0, 10.0, -250.0]), r.choice([1.0, 0.01, 30.0])
        return [r.gauss(mu, sd) for _ in range(n)]
    if kind == "offset":           # ill-conditioned: mean >> deviation
        mu = r.choice([1e4, -3e5])
        return [mu + r.gauss(0, 1.0) for _ in range(n)]
    if kind == "ints":
        return [float(r.randrange(-20, 21)) for _ in range(n)]
    if kind == "wide":
        return [r.choice([-1, 1]) * 10 ** r.uniform(-6, 6) for _ in range(n)]
    if kind == "const":
        return [r.choice([0.0, 3.25, -7.1])] * n
    return [r.random() for _ in range(n)]


def gen_weights(r, n, kind):
    if kind == "equal":
        return [r.choice([1.0, 0.1, 3.7])] * n
    if kind == "equal-dyadic":
        return [r.choice([1.0, 2.0, 0.5, 2.0 ** -5])] * n
    if kind == "wild":
        return [10 ** r.uniform(-8, 8) for _ in range(n)]
    if kind == "zeros":
        w = [0.0 if r.random() < 0.35 else r.uniform(0.1, 5) for _ in range(n)]
        if not any(w):
            w[r.randrange(n)] = 1.5
        return w
    if kind == "ints":
        return [float(r.randrange(1, 10)) for _ in range(n)]
    return [r.uniform(0.1, 2.0) for _ in range(n)]


def sizes(ctx, big=False):
    s = [1, 2, 3, 4, 5, 8, 13, 30]
    if big:
        s += [60]
    if not ctx.quick():
        s += [60, 120] + ([300] if big else [])
    return s


def _l(v):
    """a scalar argument is the one-element array (atleast_1d)"""
    return v if isinstance(v, list) else [v]


def _weights_equal(w):
    flat = [x for r in w for x in r] if (w and isinstance(w[0], list)) else list(w)
    return len(set(flat)) <= 1


# ----------------------------------------------------------------------------
# entries
# ----------------------------------------------------------------------------
class E(Entry):
    shard = 20
    search_rounds = 1
    seq_args = ("x", "w")          # array arguments rewritten in place by the sequences

    def seq_ok(self, c):
        return all(c.get(k) is None or (isinstance(c[k], list) and len(c[k]) >= 2) for k in self.seq_args) \
            and isinstance(c.get(self.seq_args[0]), list)

    def variant(self, r, c):
        """(case with the same shapes and containers but other values, tag)"""
        d = copy.deepcopy(c)
        tags = []
        for k in self.seq_args:
            if d.get(k) is not None:
                modes = ("reverse", "scale", "interior") if k in ("w", "d") else ("reverse", "scale", "negshift", "interior")
                d[k], t = tx_vec(r, d[k], ct_of(c, k), modes)
                tags.append("%s=%s" % (k, t))
        return d, ",".join(tags)


class WMom(E):
    name = "wmom"
    shard = 12

    def cases(self, ctx, round=0):
        r = ctx.rng
        cs = []
        for _ in range(ctx.n(210, 1500) if round == 0 else 150):
            n = r.choice(sizes(ctx, big=True))
            dk, wk = r.choice(DATA_KINDS), r.choice(WEIGHT_KINDS)
            shape = r.choice(["1d", "1d", "Nd-w1", "Nd-w1", "Nd-wN"])
            c = {"calcerr": r.random() < 0.5, "sdev": r.random() < 0.5}
            if shape == "1d":
                c["x"] = gen_data(r, n, dk)
                c["w"] = gen_weights(r, n, wk)
                imk = r.choice(["none", "none", "scalar", "array"])
                c["im"] = None if imk == "none" else (r.choice(c["x"]) + r.gauss(0, 1) if imk == "scalar"
                                                      else [r.choice(c["x"]) + r.gauss(0, 1)])
            else:
                d = r.choice([1, 2, 2, 3, 4])
                n = min(n, 60)
                cols = [gen_data(r, n, r.choice(DATA_KINDS)) for _ in range(d)]
                c["x"] = [[cols[j][i] for j in range(d)] for i in range(n)]
                if shape == "Nd-w1":
                    c["w"] = gen_weights(r, n, wk)
                else:
                    wc = [gen_weights(r, n, r.choice(WEIGHT_KINDS)) for _ in range(d)]
                    c["w"] = [[wc[j][i] for j in range(d)] for i in range(n)]
                imk = r.choice(["none", "none", "scalar", "array"])
                c["im"] = None if imk == "none" else (r.gauss(0, 3) if imk == "scalar"
                                                      else [cols[j][0] + r.gauss(0, 1) for j in range(d)])
            c["omit_defaults"] = r.random() < 0.5   # keywords equal to the source's defaults are not passed
            c["ct"] = {}
            c["x"], c["ct"]["x"] = prep(r, c["x"])
            c["w"], c["ct"]["w"] = prep(r, c["w"])
            if isinstance(c["im"], list):
                c["im"], c["ct"]["im"] = prep(r, c["im"])
            c["family"] = "%s/%s/%s/im=%s%s" % (shape, dk if shape == "1d" else "mixed", wk,
                                                "none" if c["im"] is None else ("array" if isinstance(c["im"], list) else "scalar"),
                                                _ctfam(c))
            cs.append(c)
        if round == 0:
            # rejected: 1-d data with weights of another length / shape
            cs.append({"x": [1.0, 2.0, 3.0], "w": [1.0, 2.0], "im": None, "calcerr": False, "sdev": False,
                       "container": "f8", "family": "rejected-shape"})
            cs.append({"x": [1.0, 2.0], "w": [[1.0], [2.0]], "im": None, "calcerr": True, "sdev": True,
                       "container": "f8", "family": "rejected-shape"})
            cs.append({"x": [[1.0, 2.0], [3.0, 4.0]], "w": [1.0, 2.0, 3.0], "im": None, "calcerr": True, "sdev": True,
                       "container": "f8", "family": "rejected-shape"})
            for im0 in (0.0, -0.0, [0.0]):
                cs.append({"x": [3.0, 4.5, 6.0, 10.0], "w": [1.0, 2.0, 1.0, 0.5], "im": im0, "calcerr": True, "sdev": True,
                           "family": "inputmean-exactly-zero"})
            cs.append({"x": [[3.0, 1.0], [4.5, 2.0], [6.0, 4.0]], "w": [1.0, 2.0, 1.0], "im": [0.0, 2.0], "calcerr": True,
                       "sdev": True, "family": "inputmean-exactly-zero"})
            cs.append({"x": [[3.0, 1.0], [4.5, 2.0], [6.0, 4.0]], "w": [1.0, 2.0, 1.0], "im": 0.0, "calcerr": False,
                       "sdev": True, "family": "inputmean-exactly-zero"})
            # total weight zero: the moments do not exist (all-zero weights; one all-zero column of N-by-d weights)
            for ce in (False, True):
                cs.append({"x": [3.0, 4.5, 6.0], "w": [0.0, 0.0, 0.0], "im": None, "calcerr": ce, "sdev": True,
                           "family": "undefined:all-zero-weights"})
                cs.append({"x": [3.0, 4.5, 6.0], "w": [0.0, 0.0, 0.0], "im": 4.0, "calcerr": ce, "sdev": True,
                           "family": "undefined:all-zero-weights"})
                cs.append({"x": [[3.0, 1.0], [4.5, 2.0], [6.0, 4.0]], "w": [[1.0, 0.0], [2.0, 0.0], [1.0, 0.0]], "im": None,
                           "calcerr": ce, "sdev": True, "family": "undefined:zero-weight-column"})
                cs.append({"x": [[3.0, 1.0], [4.5, 2.0], [6.0, 4.0]], "w": [0.0, 0.0, 0.0], "im": None,
                           "calcerr": ce, "sdev": False, "family": "undefined:all-zero-weights"})
            if not ctx.quick():      # exact evaluation of 2^16 elements costs ~1 min of coqc each: thorough tier only
                nbig = 2 ** 16 + 3          # more than 2^16 elements: blocked / pairwise reductions with a remainder
                fx, fw = [nbig, 7919, 13, 101, 50], [nbig, 31, 5, 8, 0]
                cs.append({"x": mod_list(*fx), "w": mod_list(*fw), "formula": {"x": fx, "w": fw}, "im": None, "calcerr": True, "sdev": True,
                           "ct": {"x": r.choice(["f8", "i4", "f4"]), "w": "f8"}, "family": "large(>2^16)"})
            cs.append({"x": 5.0, "w": 2.0, "im": None, "calcerr": True, "sdev": True, "ct": {"x": "scalar", "w": "scalar"},
                       "family": "scalar-input"})
            cs.append({"x": 5.0, "w": 2.0, "im": 4.5, "calcerr": True, "sdev": True, "ct": {"x": "0d", "w": "0d"},
                       "family": "scalar-input"})
        return cs

    def impl(self, c):
        import numpy as np
        import esutil.stat as st

        def f():
            x = c["x"] if (isinstance(c["x"], float) and ct_of(c, "x") != "0d") else A(c, "x")
            w = c["w"] if (isinstance(c["w"], float) and ct_of(c, "w") != "0d") else A(c, "w")
            im = c["im"]
            if isinstance(im, list):
                im = A(c, "im")
            kw = {"inputmean": im, "calcerr": c["calcerr"], "sdev": c["sdev"]}
            if c.get("omit_defaults"):
                kw = {k: v for k, v in kw.items() if not (v is None or v is False)}
            res = [canon(v) for v in st.wmom(x, w, **kw)]
            if not _all_finite(res):
                # statistics that do not exist (zero total weight) come back as nan / inf: reported per column
                ncol = len(c["x"][0]) if (isinstance(c["x"], list) and c["x"] and isinstance(c["x"][0], list)) else 1
                return [None, _nf_cols(res, ncol)]
            return res
        return guarded(f)

    @staticmethod
    def _im(im):
        if im is None:
            return "INone"
        if isinstance(im, list):
            return "(IVec %s)" % qs(im)
        return "(IScalar %s)" % q1(im)

    def term(self, c, out):
        def pout(o):
            return "(%s, %s, %s)" % (nd(o[0]), nd(o[1]), opt(o[2] if len(o) > 2 else None, nd))
        # float32 data minus a python-float mean is evaluated in float32 by numpy
        f4 = ct_of(c, "x") == "f4" and c["im"] is not None and not isinstance(c["im"], list)
        X, W = big(c, "x", nd), big(c, "w", nd)
        if out[0] == "ok" and out[1][0] is None:
            return "v_wmom_undef %s %s %s" % (X, W, cbools(out[1][1]))
        t = "%s %s %s %s %s %s %s" % ("v_wmom_e eps_f4" if f4 else "v_wmom", X, W, self._im(c["im"]),
                                      cbool(c["calcerr"]), cbool(c["sdev"]), cres(out, pout))
        return "wmom_guard %s %s (%s)" % (X, W, t) if _has_zero_weight(c["w"]) else t

    def nontrivial(self, c, out):
        x = c["x"]
        return isinstance(x, list) and len(x) >= 3 and not _weights_equal(c["w"]) and out[0] == "ok" and out[1][0] is not None

    def show(self, c):
        return "wmom %s %s %s %s %s" % (nd(c["x"]), nd(c["w"]), self._im(c["im"]), cbool(c["calcerr"]), cbool(c["sdev"]))


class WMedian(E):
    name = "wmedian"
    shard = 25

    def cases(self, ctx, round=0):
        r = ctx.rng
        cs = []
        if round == 0:
            for n in range(1, 9):        # equal integer weights: exact ties at half the total for even n
                x = [float(v) for v in r.sample(range(-30, 30), n)]
                cs.append({"x": x, "w": [1.0] * n, "family": "equal-int-weights(tie)"})
                cs.append({"x": x, "w": [2.0] * n, "family": "equal-int-weights(tie)"})
            cs.append({"x": [3.0, 1.0, 2.0, 4.0], "w": [0.1] * 4, "family": "equal-nondyadic-weights"})
            cs.append({"x": [1.0, 1.0, 2.0, 2.0, 3.0], "w": [1.0, 2.0, 1.0, 1.0, 1.0], "family": "ties-in-data"})
            cs.append({"x": [5.0, 4.0, 3.0], "w": [0.0, 0.0, 0.0], "family": "all-zero-weights"})
            cs.append({"x": 5.0, "w": 2.0, "ct": {"x": "scalar", "w": "scalar"}, "family": "scalar-input"})
            cs.append({"x": [3.0, 1.0, 2.0, 4.0], "w": [1.0, 2.0, 3.0, 1.0], "ct": {"x": "i4", "w": "i8"}, "family": "int-arrays"})
        for _ in range(ctx.n(240, 1800) if round == 0 else 150):
            n = r.choice(sizes(ctx, big=False))
            dk = r.choice(["ints", "ints", "gauss", "wide", "unit", "const"])
            wk = r.choice(WEIGHT_KINDS)
            c = {"ct": {}}
            c["x"], c["ct"]["x"] = prep(r, gen_data(r, n, dk))
            c["w"], c["ct"]["w"] = prep(r, gen_weights(r, n, wk))
            c["family"] = "%s/%s%s" % (dk, wk, _ctfam(c))
            cs.append(c)
        return cs

    def impl(self, c):
        import esutil.stat as st
        return guarded(lambda: float(st.wmedian(A(c, "x"), A(c, "w"))))

    def term(self, c, out):
        return "v_wmedian %s %s %s" % (qs(_l(c["x"])), qs(_l(c["w"])), cres(out, q1))

    def nontrivial(self, c, out):
        return isinstance(c["x"], list) and len(c["x"]) >= 3 and not _weights_equal(c["w"]) and len(set(c["x"])) >= 2

    def show(self, c):
        return "wmedian %s %s" % (qs(_l(c["x"])), qs(_l(c["w"])))


def _clip_case(r, ctx, weighted=None):
    n = r.choice([3, 4, 5, 8, 13, 20, 30] + ([] if ctx.quick() else [60, 100]))
    dk = r.choice(["gauss", "gauss", "gauss", "unit", "ints", "offset"])
    x = gen_data(r, n, dk)
    k = r.choice([0, 0, 1, 1, 2, 3, 5])
    lo, hi = min(x), max(x)
    span = (hi - lo) or 1.0
    mid = 0.5 * (hi + lo)
    for _ in range(min(k, max(0, n - 2))):
        x[r.randrange(n)] = mid + r.choice([-1, 1]) * span * r.choice([r.uniform(2, 6), r.uniform(6, 60), 1e4])
    if weighted is None:
        weighted = r.random() < 0.45
    w = gen_weights(r, n, r.choice(WEIGHT_KINDS)) if weighted else None
    nsig = r.choice([r.uniform(0.5, 6.0), r.uniform(0.5, 3.0), r.choice([0.5, 1.0, 1.5, 2.0, 2.5, 3.0, 4.0, 6.0])])
    c = {"nsig": nsig, "niter": r.choice([r.randrange(0, 11), r.randrange(0, 11), 4]), "omit_defaults": r.random() < 0.5, "ct": {},
         "ret": r.choice(["full", "full", "full", "noerr", "noidx", "plain"]), "verbose": r.random() < 0.1}
    c["x"], c["ct"]["x"] = prep(r, x)
    c["w"] = None
    if w is not None:
        c["w"], c["ct"]["w"] = prep(r, w)
    c["family"] = "%s/out=%d/%s%s" % (dk, k, "weighted" if weighted else "unweighted", _ctfam(c))
    return c


def _tie_cases(r):
    """integer data on which every float operation is exact and points sit EXACTLY at nsig
    deviations: decides the strictness of the comparison"""
    cs = []
    for c in (1, 3, 8):
        for shift in (0, 7, -100):
            for nsig in (1.0, 2.0):
                base = [-2 * c, 2 * c, -c, c, 0, 0, 0, 0, 0, 0]
                x = [float(v + shift) for v in base]
                r.shuffle(x)
                cs.append({"x": x, "w": None, "nsig": nsig, "niter": r.choice([1, 2, 4, 10]), "family": "exact-tie"})
    # ties that do NOT end in the "everything clipped" exit: the points exactly at nsig deviations go in round 1,
    # then nothing changes (var 4 -> 1, resp. 9 -> 9/4; every float operation exact)
    for base in ([-4, -1, -1, -1, -1, 1, 1, 1, 1, 4], [-6, -2, -2, -1, 0, 0, 1, 2, 2, 6]):
        for c in (1, 3, 8):
            for shift in (0, 7, -100):
                x = [float(c * v + shift) for v in base]
                r.shuffle(x)
                cs.append({"x": x, "w": None, "nsig": 2.0, "niter": r.choice([1, 2, 4, 10]), "family": "exact-tie-stable"})
    # weighted tie: weights 2 on the zeros: mean 0, var = (8+2)/(4+12) -> not a square; use w making var = 1
    cs.append({"x": [-2.0, 2.0, 0.0, 0.0], "w": [1.0, 1.0, 3.0, 3.0], "nsig": 2.0, "niter": 3, "family": "exact-tie"})
    return cs


class SigmaClip(E):
    name = "sigma_clip"
    shard = 8

    def cases(self, ctx, round=0):
        r = ctx.rng
        cs = []
        if round == 0:
            cs += _tie_cases(r)
            cs.append({"x": [-1.0, 1.0], "w": None, "nsig": 0.5, "niter": 4, "family": "everything-clipped-at-once"})
            cs.append({"x": [4.0, 4.0, 4.0], "w": None, "nsig": 3.0, "niter": 4, "family": "constant-data"})
            cs.append({"x": [1.0, 2.0, 3.0], "w": [1.0, 2.0], "nsig": 3.0, "niter": 4, "family": "rejected-size"})
            cs.append({"x": [[1.0, 2.0], [3.0, 4.0]], "w": None, "nsig": 3.0, "niter": 4, "family": "rejected-2d"})
            # statistics that do not exist: the survivors of a round all have weight zero; all weights zero
            cs.append({"x": [0.0, 4.0, 6.0, 10.0], "w": [1.0, 0.0, 0.0, 1.0], "nsig": 0.5, "niter": 4, "family": "undefined:zero-weight-survivors"})
            cs.append({"x": [0.0, 4.0, 6.0, 10.0], "w": [1.0, 0.0, 0.0, 1.0], "nsig": 0.5, "niter": 1, "family": "undefined:zero-weight-survivors"})
            cs.append({"x": [0.0, 4.0, 6.0, 10.0], "w": [1.0, 0.0, 0.0, 1.0], "nsig": 0.5, "niter": 0, "family": "undefined:not-reached(niter=0)"})
            cs.append({"x": [-30.0, 0.0, 4.0, 6.0, 10.0, 50.0], "w": [1.0, 2.0, 0.0, 0.0, 2.0, 1.0], "nsig": 1.0, "niter": 6,
                       "family": "undefined:zero-weight-survivors"})
            cs.append({"x": [1.0, 2.0, 3.0], "w": [0.0, 0.0, 0.0], "nsig": 3.0, "niter": 4, "family": "undefined:all-zero-weights"})
            cs.append({"x": [1.0, 2.0, 3.0], "w": [0.0, 0.0, 0.0], "nsig": 3.0, "niter": 0, "family": "undefined:all-zero-weights"})
            cs.append({"x": [0.04056, 0.12891, 0.06295, 0.4656], "w": [3.93, 0.0, 0.0, 2.99], "nsig": 0.532, "niter": 6,
                       "family": "undefined:zero-weight-survivors"})
            for t in _tie_cases(r)[::3]:         # the same exact ties handed over as integer arrays / lists
                t = dict(t, ct={"x": r.choice(["i4", "i8", "list"])}, family=t["family"] + "[int/list]")
                if t["w"] is not None:
                    t["ct"]["w"] = r.choice(["i8", "list"])
                cs.append(t)
        for _ in range(ctx.n(140, 1000) if round == 0 else 80):
            cs.append(_clip_case(r, ctx))
        return cs

    def impl(self, c):
        import numpy as np
        import esutil.stat as st

        def f():
            import contextlib
            import io
            w = None if c["w"] is None else A(c, "w")
            x = A(c, "x")
            kw = {"niter": c["niter"], "nsig": c["nsig"]}
            ex = {}
            if c.get("omit_defaults"):       # the documented defaults ("defaults to 4") are not passed, nor is `extra`
                kw = {k: v for k, v in kw.items() if v != 4}
            else:
                kw["extra"] = ex
            ret = c.get("ret", "full")       # which of the optional return values are asked for
            opts = {"full": (True, True), "noerr": (False, True), "noidx": (True, False), "plain": (False, False)}[ret]
            with contextlib.redirect_stdout(io.StringIO()):
                res = st.sigma_clip(x, weights=w, get_err=opts[0], get_indices=opts[1], silent=True,
                                    verbose=bool(c.get("verbose")), **kw)
            if ret != "full":
                # the optional return values do not change the others: compare with the full call on the same objects
                m, s, e, idx = st.sigma_clip(x, weights=w, get_err=True, get_indices=True, silent=True, extra={},
                                             niter=c["niter"], nsig=c["nsig"])
                part = [float(res[0]), float(res[1])] + ([float(res[2])] if opts[0] else []) + \
                       ([[int(i) for i in res[-1]]] if opts[1] else [])
                want = [float(m), float(s)] + ([float(e)] if opts[0] else []) + ([[int(i) for i in idx]] if opts[1] else [])
                if len(res) != len(want) or not _same_out(part, want):
                    raise RuntimeError("sigma_clip(get_err=%s, get_indices=%s) returned %r, the full call %r" % (
                        opts[0], opts[1], part, want))
                if "extra" in kw and [int(i) for i in ex.get("indices", [])] != [int(i) for i in idx]:
                    raise RuntimeError("extra['indices'] differs from the returned indices")
            else:
                m, s, e, idx = res
            idxl = [int(i) for i in idx]
            if _SCRIBBLE and isinstance(idx, np.ndarray) and idx.flags.writeable:
                idx[...] = 7
            if not all(math.isfinite(float(t)) for t in (m, s, e)):
                return [None, None, None, idxl]      # statistics that do not exist
            return [float(m), float(s), float(e), idxl]
        return guarded(f)

    def term(self, c, out):
        if c["x"] and isinstance(c["x"][0], list):       # 2-d: only the rejection is compared
            return "vres (sigma_clip %s None %s %s) %s (fun _ (_ : Q * Q * Q * list Z) => 1%%Z)" % (
                nd(c["x"]), cz(c["niter"]), q1(c["nsig"]),
                cres(out, lambda o: "(%s, %s, %s, %s)" % (q1(o[0]), q1(o[1]), q1(o[2]), clist(o[3]))))
        # unweighted statistics of a float32 array (mean, std) and the clip comparison are evaluated in float32
        f4 = ct_of(c, "x") == "f4" and c["w"] is None
        args = "%s %s %s %s" % (qs(c["x"]), opt(c["w"], qs), cz(c["niter"]), q1(c["nsig"]))
        if out[0] == "ok" and out[1][0] is None:
            bord = "(sc_borderline %s %s (Z.to_nat %s) %s)" % (qs(c["x"]), opt(c["w"], qs), cz(c["niter"]), q1(c["nsig"]))
            return "v_sigma_clip_undef %s %s %s" % (bord, args, clist(out[1][3]))
        t = "%s %s %s" % ("v_sigma_clip_e eps_f4" if f4 else "v_sigma_clip", args,
                          cres(out, lambda o: "(%s, %s, %s, %s)" % (q1(o[0]), q1(o[1]), q1(o[2]), clist(o[3]))))
        return "sc_guard %s (%s)" % (args, t) if _has_zero_weight(c["w"]) else t

    def nontrivial(self, c, out):
        return out[0] == "ok" and out[1][0] is not None and len(c["x"]) >= 3 and len(out[1][3]) < len(c["x"])

    def classify(self, c, out, v):
        # verdict 12 (Exec.v_sigma_clip): the output is what the code-faithful model computes, and the clause as
        # stated is violated exactly because the code took its "everything clipped" exit (SpecStrict.kf_everything_clipped)
        return "C18.kf_everything_clipped" if v == 12 else None

    def show(self, c):
        if c["x"] and isinstance(c["x"][0], list):
            return None
        return "sigma_clip (V1 %s) %s %s %s" % (qs(c["x"]), opt(c["w"], lambda w: "(V1 %s)" % qs(w)), cz(c["niter"]), q1(c["nsig"]))


def _table(r, n, kind):
    if kind == "ints":
        x, cur = [], r.randrange(-20, 20)
        for _ in range(n):
            x.append(float(cur))
            cur += r.randrange(1, 6)
        v = [float(r.randrange(-30, 30)) for _ in range(n)]
    elif kind == "tight":          # nearly coincident nodes
        x, cur = [], r.uniform(-5, 5)
        for _ in range(n):
            x.append(cur)
            cur = cur + r.choice([1e-9, 1e-3, 1.0]) * r.uniform(0.5, 1.5)
        v = [r.gauss(0, 5) for _ in range(n)]
    else:
        x, cur = [], r.uniform(-100, 100)
        for _ in range(n):
            x.append(cur)
            cur += 10 ** r.uniform(-3, 2)
        v = [r.gauss(0, 10) if kind == "gauss" else 10 ** r.uniform(-4, 4) for _ in range(n)]
    assert all(a < b for a, b in zip(x, x[1:]))
    return x, v


class InterpLin(E):
    name = "interplin"
    shard = 25
    seq_args = ("x", "v", "u")

    def seq_ok(self, c):
        return isinstance(c["u"], list) and len(c["u"]) >= 1 and len(c["x"]) >= 2

    def variant(self, r, c):
        """the table rewritten in place: nodes scaled (x *= 10) or moved inside their segments (same length, same end
        nodes), values refilled; at least one of x, v changes; the queries follow the nodes"""
        d = copy.deepcopy(c)
        incr = lambda t: all(a < b for a, b in zip(t, t[1:]))
        xm = r.choice(["scale10", "interior", "same", "same"])
        x = c["x"]
        if xm == "scale10":
            y = [t * 10.0 for t in x]
        elif xm == "interior":
            y = [x[0]] + [x[i] + (x[i + 1] - x[i]) / 2.0 for i in range(1, len(x) - 1)] + [x[-1]]
        else:
            y = x
        y = _fit(y, ct_of(c, "x"))
        if y is None or not incr(y) or y == x:
            y, xm = x, "same"
        d["x"] = y
        d["v"], vm = tx_vec(r, c["v"], ct_of(c, "v"), ("reverse", "negshift", "scale") if xm == "same" else ("reverse", "negshift", "scale", "keep"))
        if xm == "scale10":
            u = _fit([t * 10.0 for t in c["u"]], ct_of(c, "u"))
            d["u"] = c["u"] if u is None else u
        return d, "x=%s,v=%s" % (xm, vm)

    def cases(self, ctx, round=0):
        r = ctx.rng
        cs = []
        for _ in range(ctx.n(230, 3000) if round == 0 else 150):
            n = r.choice([2, 2, 3, 4, 5, 8, 13, 30] + ([] if ctx.quick() else [60, 150]))
            kind = r.choice(["gauss", "ints", "tight", "wide"])
            x, v = _table(r, n, kind)
            span = x[-1] - x[0]
            u = []
            for _ in range(r.randrange(1, 9)):
                k = r.choice(["inside", "inside", "node", "below", "above", "far", "end"])
                if k == "inside":
                    i = r.randrange(n - 1)
                    u.append(x[i] + (x[i + 1] - x[i]) * r.random())
                elif k == "node":
                    u.append(r.choice(x))
                elif k == "below":
                    u.append(x[0] - span * r.uniform(0.001, 2))
                elif k == "above":
                    u.append(x[-1] + span * r.uniform(0.001, 2))
                elif k == "far":
                    u.append(r.choice([-1, 1]) * 1e6)
                else:
                    u.append(r.choice([x[0], x[-1]]))
            c = {"ct": {}}
            incr = lambda t: all(a < b for a, b in zip(t, t[1:]))
            c["x"], c["ct"]["x"] = prep(r, x, ok=incr)
            c["v"], c["ct"]["v"] = prep(r, v)
            c["u"], c["ct"]["u"] = prep(r, u)
            c["family"] = "%s/n=%s%s" % (kind, "2" if n == 2 else ("3-8" if n <= 8 else ">8"), _ctfam(c))
            cs.append(c)
        if round == 0:
            cs.append({"v": [1.0], "x": [0.0], "u": [0.5], "family": "rejected-one-node"})
            cs.append({"v": [1.0, 3.0, 2.0], "x": [0.0, 1.0, 2.0], "u": [], "family": "no-queries"})
            cs.append({"v": [1.0, 3.0, 2.0], "x": [0.0, 1.0, 2.0], "u": 0.5, "ct": {"u": "scalar"}, "family": "scalar-query"})
            cs.append({"v": [1.0, 3.0, 2.0], "x": [-1.0, 0.0, 2.0], "u": [0.0, -0.0, -1.0, 2.0], "family": "zero-node"})
            if not ctx.quick():      # exact evaluation of 2^16 elements costs ~1 min of coqc each: thorough tier only
                nbig = 2 ** 16 + 1
                fx, fv = [nbig, 3, 0, 10 ** 9, 1000], [nbig, 7919, 3, 19, 9]
                cs.append({"v": mod_list(*fv), "x": mod_list(*fx), "formula": {"x": fx, "v": fv},
                           "u": [-2000.5, -1000.0, 0.0, 1.5, 98301.25, 3.0 * (nbig - 1) - 1000.0, 3.0e5], "family": "large(>2^16)"})
        return cs

    def impl(self, c):
        import numpy as np
        import esutil.stat as st
        return guarded(lambda: canon(st.interplin(A(c, "v"), A(c, "x"), A(c, "u"))))

    def term(self, c, out):
        # differences of float32 table entries are evaluated in float32
        f4 = "f4" in (ct_of(c, "v"), ct_of(c, "x"))
        return "%s %s %s %s %s" % ("v_interplin_e eps_f4" if f4 else "v_interplin", big(c, "v", qs), big(c, "x", qs), qs(_l(c["u"])), cres(out, qs))

    def nontrivial(self, c, out):
        x, u = c["x"], _l(c["u"])
        return len(x) >= 3 and any(x[0] < t < x[-1] and t not in x for t in u) and out[0] == "ok"

    def show(self, c):
        return "interplin %s %s %s" % (qs(c["v"]), qs(c["x"]), qs(_l(c["u"])))


class GetStats(E):
    name = "get_stats"
    shard = 8

    def cases(self, ctx, round=0):
        r = ctx.rng
        cs = []
        for _ in range(ctx.n(115, 1200) if round == 0 else 80):
            mode = r.choice(["plain", "weights", "clip", "clip", "clip+weights", "2d-plain", "2d-weights"])
            if mode.startswith("2d"):
                n, d = r.choice([1, 2, 3, 5, 8, 20]), r.choice([1, 2, 3])
                cols = [gen_data(r, n, r.choice(DATA_KINDS)) for _ in range(d)]
                c = {"nsig": None, "niter": None, "ct": {}}
                c["x"], c["ct"]["x"] = prep(r, [[cols[j][i] for j in range(d)] for i in range(n)])
                c["w"] = None
                if mode == "2d-weights":
                    c["w"], c["ct"]["w"] = prep(r, gen_weights(r, n, r.choice(WEIGHT_KINDS)))
            else:
                b = _clip_case(r, ctx, weighted=mode in ("weights", "clip+weights"))
                c = {"x": b["x"], "w": b["w"], "nsig": None, "niter": None, "ct": b["ct"]}
                if mode.startswith("clip"):
                    which = r.choice(["nsig", "niter", "both", "both"])
                    if which in ("nsig", "both"):
                        c["nsig"] = b["nsig"]
                    if which in ("niter", "both"):
                        c["niter"] = b["niter"]
            c["doprint"] = r.random() < 0.15
            # the documented wmom keyword: used in the weighted branch, ignored (swallowed) in the others
            c["calcerr"] = r.choice([None, None, True, False]) if "weights" in mode and not mode.startswith("clip") \
                else r.choice([None, None, None, False])
            c["family"] = mode + ("" if c["calcerr"] is None else "/calcerr=%s" % c["calcerr"]) + _ctfam(c)
            cs.append(c)
        if round == 0:
            cs.append({"x": [[1.0, 2.0], [3.0, 5.0]], "w": None, "nsig": 3.0, "niter": None, "family": "rejected-2d-clip"})
            cs.append({"x": 5.0, "w": None, "nsig": None, "niter": None, "ct": {"x": "scalar"}, "family": "scalar-input"})
            if not ctx.quick():      # exact evaluation of 2^16 elements costs ~1 min of coqc each: thorough tier only
                fx = [2 ** 16 + 5, 7919, 13, 101, 50]
                cs.append({"x": mod_list(*fx), "formula": {"x": fx}, "w": None, "nsig": None, "niter": None,
                           "ct": {"x": r.choice(["f8", "i8"])}, "family": "large(>2^16)"})
            # statistics that do not exist
            cs.append({"x": [1.0, 2.0, 3.0], "w": [0.0, 0.0, 0.0], "nsig": None, "niter": None, "family": "undefined:all-zero-weights"})
            cs.append({"x": [1.0, 2.0, 3.0], "w": [0.0, 0.0, 0.0], "nsig": None, "niter": None, "calcerr": False,
                       "family": "undefined:all-zero-weights"})
            cs.append({"x": [[3.0, 1.0], [4.5, 2.0], [6.0, 4.0]], "w": [0.0, 0.0, 0.0], "nsig": None, "niter": None,
                       "family": "undefined:all-zero-weights"})
            cs.append({"x": [0.0, 4.0, 6.0, 10.0], "w": [1.0, 0.0, 0.0, 1.0], "nsig": 0.5, "niter": 4,
                       "family": "undefined:zero-weight-survivors"})
            cs.append({"x": [0.0, 4.0, 6.0, 10.0], "w": [1.0, 0.0, 0.0, 1.0], "nsig": 0.5, "niter": None,
                       "family": "undefined:zero-weight-survivors"})
            cs.append({"x": [3.0, 1.0, 2.0, 40.0], "w": [1.0, 2.0, 3.0, 1.0], "nsig": None, "niter": None,
                       "ct": {"x": "i4", "w": "i8"}, "family": "int-arrays"})
        return cs

    def impl(self, c):
        import numpy as np
        import esutil.stat as st

        def f():
            kw, ex = {}, {}
            if c["nsig"] is not None:
                kw["nsig"] = c["nsig"]
            if c["niter"] is not None:
                kw["niter"] = c["niter"]
            if kw:
                kw["extra"] = ex
                kw["silent"] = True
            if c.get("calcerr") is not None:
                kw["calcerr"] = c["calcerr"]
            import contextlib
            import io
            w = None if c["w"] is None else A(c, "w")
            if c.get("doprint"):
                kw["doprint"] = True
            with contextlib.redirect_stdout(io.StringIO()):
                g = st.get_stats(A(c, "x"), weights=w, **kw)
            vals = [canon(g["mean"]), canon(g["std"]), canon(g["err"])]
            idx = [int(i) for i in ex.get("indices", [])]
            if not _all_finite(vals) and _all_finite([canon(g["min"]), canon(g["max"])]):
                ncol = len(c["x"][0]) if (isinstance(c["x"], list) and c["x"] and isinstance(c["x"][0], list)) else 1
                return [None, _nf_cols(vals, ncol), idx]                 # statistics that do not exist
            return [canon(g["min"]), canon(g["max"])] + vals + [idx]
        return guarded(f)

    def term(self, c, out):
        a4 = "%s %s %s %s" % (big(c, "x", nd), opt(c["w"], nd), opt(c["nsig"], q1), opt(c["niter"], cz))
        if out[0] == "ok" and out[1][0] is None:
            return "v_get_stats_undef %s %s %s" % (a4, cbools(out[1][1]), clist(out[1][2]))
        t = "v_get_stats_kw %s %s %s" % (
            a4, opt(c.get("calcerr"), cbool),
            cres(out, lambda o: "(%s, %s, %s, %s, %s, %s)" % (nd(o[0]), nd(o[1]), nd(o[2]), nd(o[3]), nd(o[4]), clist(o[5]))))
        return "gs_guard %s (%s)" % (a4, t) if _has_zero_weight(c["w"]) else t

    def nontrivial(self, c, out):
        if out[0] != "ok" or out[1][0] is None or not isinstance(c["x"], list) or len(c["x"]) < 3:
            return False
        if c["nsig"] is not None or c["niter"] is not None:
            return len(out[1][5]) < len(c["x"])
        return c["w"] is None or not _weights_equal(c["w"])

    def show(self, c):
        return "get_stats_kw %s %s %s %s %s" % (nd(c["x"]), opt(c["w"], nd), opt(c["nsig"], q1), opt(c["niter"], cz),
                                                opt(c.get("calcerr"), cbool))


def _cov(r, n, kind):
    import numpy as np
    rs = np.random.RandomState(r.randrange(2 ** 31))
    if kind == "psd":
        b = rs.normal(size=(n, n + 1))
        m = b @ b.T
    elif kind == "scaled":         # wildly different variances
        b = rs.normal(size=(n, n + 1))
        s = 10.0 ** rs.uniform(-6, 6, size=n)
        m = (b @ b.T) * s[:, None] * s[None, :]
    elif kind == "ints":
        m = rs.randint(-9, 10, size=(n, n)).astype("f8")
        m = m + m.T
        m[np.arange(n), np.arange(n)] = rs.randint(1, 30, size=n)
    elif kind == "diag":
        m = np.diag(10.0 ** rs.uniform(-3, 3, size=n))
    else:                          # symmetric, positive diagonal, not positive definite
        m = rs.normal(size=(n, n)) * 5
        m = 0.5 * (m + m.T)
        m[np.arange(n), np.arange(n)] = rs.uniform(0.01, 4, size=n)
    m = 0.5 * (m + m.T)
    return [[float(v) for v in row] for row in m]


COV_KINDS = ["psd", "scaled", "ints", "diag", "indefinite"]


def _cov_variant(r, m, ct):
    n = len(m)
    for mode in r.sample(["rescale", "negoff"], 2):
        if mode == "rescale":               # D m D with D = diag(2^k): symmetric, positive diagonal, exact
            ks = [r.choice([0, 1] if ct in ("i4", "i8") else [-1, 0, 1, 2]) for _ in range(n)]
            y = [[m[i][j] * 2.0 ** (ks[i] + ks[j]) for j in range(n)] for i in range(n)]
        else:
            y = [[m[i][j] if i == j else -m[i][j] for j in range(n)] for i in range(n)]
        y = _fit(y, ct)
        if y is not None and y != m:
            return y, mode
    return [[m[i][j] * 4.0 for j in range(n)] for i in range(n)] if ct not in ("i4",) else m, "x4"


class Cov2Cor(E):
    name = "cov2cor"
    shard = 40
    seq_args = ("cov",)

    def seq_ok(self, c):
        return len(c["cov"]) >= 2 and all(c["cov"][i][i] > 0 for i in range(len(c["cov"])))

    def variant(self, r, c):
        d = copy.deepcopy(c)
        d["cov"], t = _cov_variant(r, c["cov"], ct_of(c, "cov"))
        return d, "cov=" + t

    def cases(self, ctx, round=0):
        r = ctx.rng
        cs = []
        for _ in range(ctx.n(120, 1500) if round == 0 else 80):
            n, kind = r.randrange(1, 7), r.choice(COV_KINDS)
            c = {"ct": {}}
            sym = lambda m: all(m[i][j] == m[j][i] for i in range(len(m)) for j in range(len(m))) and all(m[i][i] > 0 for i in range(len(m)))
            c["cov"], c["ct"]["cov"] = prep(r, _cov(r, n, kind), kinds=("f8", "f4", "strided", "int", "int"), ok=sym)
            c["family"] = "%s/n=%d%s" % (kind, n, _ctfam(c))
            cs.append(c)
        if round == 0:
            cs.append({"cov": [[4.0, 1.0], [1.0, 0.0]], "family": "rejected-zero-diagonal"})
            cs.append({"cov": [[-1.0, 0.5], [0.5, 2.0]], "family": "rejected-negative-diagonal"})
            cs.append({"cov": [[1.0, 0.5, 0.1], [0.5, 2.0, 0.3], [0.1, 0.3, -2.0]], "family": "rejected-negative-diagonal"})
        return cs

    def impl(self, c):
        import numpy as np
        import esutil.stat as st
        return guarded(lambda: canon(st.cov2cor(A(c, "cov"))))

    def term(self, c, out):
        # float32 scalars: cxx * cyy, sqrt and the quotient are evaluated in float32
        f4 = ct_of(c, "cov") == "f4"
        return "%s %s %s" % ("v_cov2cor_e eps_f4" if f4 else "v_cov2cor", qm(c["cov"]), cres(out, qm))

    def nontrivial(self, c, out):
        m = c["cov"]
        return len(m) >= 2 and any(m[i][j] != 0 for i in range(len(m)) for j in range(len(m)) if i != j)

    def show(self, c):
        return "cov2cor %s" % qm(c["cov"])


class RoundTrip(Cov2Cor):
    """cor2cov(cov2cor(cov), sqrt(diag(cov))) must reproduce cov"""
    name = "cov_cor_roundtrip"

    def impl(self, c):
        import numpy as np
        import esutil.stat as st

        def f():
            cov = A(c, "cov")
            cor = st.cov2cor(cov)
            return canon(st.cor2cov(cor, np.sqrt(np.diag(cov))))
        return guarded(f)

    def term(self, c, out):
        f4 = ct_of(c, "cov") == "f4"
        return "%s %s %s" % ("v_roundtrip_e eps_f4" if f4 else "v_roundtrip", qm(c["cov"]), cres(out, qm))

    def show(self, c):
        return "cov2cor %s" % qm(c["cov"])


class Cor2Cov(E):
    name = "cor2cov"
    shard = 40
    seq_args = ("cor", "d")

    def seq_ok(self, c):
        return len(c["d"]) >= 2 and len(c["cor"]) == len(c["d"])

    def variant(self, r, c):
        d = copy.deepcopy(c)
        m, n = c["cor"], len(c["cor"])
        y = _fit([[m[i][j] if i == j else -m[i][j] for j in range(n)] for i in range(n)], ct_of(c, "cor"))
        t1 = "negoff" if (y is not None and y != m and r.random() < 0.7) else "same"
        if t1 == "negoff":
            d["cor"] = y
        d["d"], t2 = tx_vec(r, c["d"], ct_of(c, "d"), ("reverse", "scale", "interior"))
        return d, "cor=%s,d=%s" % (t1, t2)

    def cases(self, ctx, round=0):
        r = ctx.rng
        cs = []
        for _ in range(ctx.n(100, 1200) if round == 0 else 80):
            n = r.randrange(1, 7)
            cor = [[0.0] * n for _ in range(n)]
            for i in range(n):
                for j in range(i, n):
                    cor[i][j] = cor[j][i] = 1.0 if i == j else r.uniform(-1, 1)
            d = [10 ** r.uniform(-5, 5) for _ in range(n)] if r.random() < 0.7 else [float(r.randrange(1, 50)) for _ in range(n)]
            c = {"ct": {}}
            c["cor"], c["ct"]["cor"] = prep(r, cor, kinds=("f8", "f4", "strided", "int"))
            c["d"], c["ct"]["d"] = prep(r, d, kinds=("f8", "f4", "strided", "int"))
            c["family"] = "n=%d%s" % (n, _ctfam(c))
            cs.append(c)
        if round == 0:
            cs.append({"cor": [[1.0, 0.5], [0.5, 1.0]], "d": [1.0, 2.0, 3.0], "family": "rejected-shape"})
            cs.append({"cor": [[1.0, 0.5, 0.2], [0.5, 1.0, 0.1]], "d": [1.0, 2.0], "family": "rejected-shape"})
        return cs

    def impl(self, c):
        import numpy as np
        import esutil.stat as st
        return guarded(lambda: canon(st.cor2cov(A(c, "cor"), A(c, "d"))))

    def term(self, c, out):
        # a product of float32 scalars only is evaluated in float32
        f4 = "f4" in (ct_of(c, "cor"), ct_of(c, "d"))
        return "%s %s %s %s" % ("v_cor2cov_e eps_f4" if f4 else "v_cor2cov", qm(c["cor"]), qs(c["d"]), cres(out, qm))

    def nontrivial(self, c, out):
        return len(c["d"]) >= 2 and out[0] == "ok"

    def show(self, c):
        return "cor2cov %s %s" % (qm(c["cor"]), qs(c["d"]))


class Boxcar(E):
    name = "boxcar_average"
    shard = 40
    seq_args = ("x",)

    def cases(self, ctx, round=0):
        r = ctx.rng
        cs = []
        for _ in range(ctx.n(120, 1500) if round == 0 else 80):
            n = r.choice([1, 2, 3, 5, 8, 20, 40])
            c = {"N": r.choice([1, 2, 3, 5, n, n + 1, n + 3, max(1, n - 1)]), "ct": {}}
            c["x"], c["ct"]["x"] = prep(r, gen_data(r, n, r.choice(DATA_KINDS)))
            c["family"] = "n=%s%s" % ("1-3" if n <= 3 else ">3", _ctfam(c))
            cs.append(c)
        if round == 0:
            cs.append({"x": [1.0, 2.0, 3.0], "N": 0, "family": "rejected-window"})
            cs.append({"x": [1.0, 2.0, 3.0], "N": -2, "family": "rejected-window"})
            cs.append({"x": [], "N": 2, "family": "rejected-empty"})
        return cs

    def impl(self, c):
        import numpy as np
        import esutil.stat as st
        return guarded(lambda: canon(st.boxcar_average(A(c, "x"), c["N"])))

    def term(self, c, out):
        return "v_boxcar %s %s %s" % (qs(c["x"]), cz(c["N"]), cres(out, qs))

    def nontrivial(self, c, out):
        return len(c["x"]) >= 3 and 2 <= c["N"] and out[0] == "ok"

    def show(self, c):
        return "boxcar_average %s %s" % (qs(c["x"]), cz(c["N"]))


ENTRIES = [WMom(), WMedian(), SigmaClip(), InterpLin(), GetStats(), Cov2Cor(), Cor2Cov(), RoundTrip(), Boxcar()]


# ----------------------------------------------------------------------------
# differential loop (runner.differential with sharded evaluation and the borderline verdict)
# ----------------------------------------------------------------------------
def run_entry(ctx, ent, cases, tag):
    outs = [run_impl(ent, c) for c in cases]
    # the routines are functions of their arguments: a step of a sequence must return exactly what the same call
    # returns when made alone on fresh objects (made afterwards, so that it does not disturb the sequences)
    hd = []
    for c, o in zip(cases, outs):
        if c.get("hist"):
            alone = ent.impl(_strip(c))
            ctx.count("history_steps:" + ent.name)
            if not _same_out(o, alone):
                hd.append((c, o, alone))
    if hd:
        ctx.count("history_dependent:" + ent.name, len(hd))
        c, o, alone = min(hd, key=lambda t: len(json.dumps(t[0], default=str)))
        ctx.violation("%s: the result depends on the call history (same argument objects rewritten in place; %d step(s)): "
                      "in the sequence %r, alone %r" % (ent.name, len(hd), _short(o), _short(alone)),
                      {"kind": "failing-input", "entry": ent.name, "case": c, "impl_output": o, "alone_output": alone,
                       "class": None}, found_input=True)
    # spread the expensive (large) cases over the shards
    order = list(range(len(cases)))
    order.sort(key=lambda i: -len(json.dumps(cases[i])))
    nsh = max(1, (len(cases) + ent.shard - 1) // ent.shard)
    perm = [i for k in range(nsh) for i in order[k::nsh]]
    terms = [ent.term(cases[i], outs[i]) for i in perm]
    try:
        vals = core.coq_eval(os.path.join(ctx.work, tag), PRE, terms, shard=ent.shard, tag=tag, timeout=1500)
    except core.CoqEvalError as e:
        ctx.violation("case file of entry %s does not evaluate in Coq" % ent.name,
                      {"kind": "case-file", "entry": ent.name, "error": str(e)[-3000:]}, found_input=False)
        return []
    res = [None] * len(cases)
    for i, v in zip(perm, vals):
        res[i] = (cases[i], outs[i], int(v.replace("%Z", "").strip("() ")))
    return res


VERDICT_TXT = dict(core.VERDICT_TXT)
VERDICT_TXT[12] = ("the clause as stated (stop only when nothing changes or at the iteration limit) is violated: a round "
                   "would discard every remaining point and the routine stops and reports the last non-empty subset "
                   "(\"nsig too small\"); the output equals the code-faithful model [class C18.kf_everything_clipped]")


def differential(ctx, entries, replay_case=None):
    for ent in entries:
        t0 = time.time()
        if replay_case is not None:
            if replay_case.get("entry") != ent.name:
                continue
            cases = [replay_case["case"]]
        else:
            cases = corpus_cases(ctx.pid, ent.name) + list(ent.cases(ctx, 0)) + make_sequences(ent, ctx, ctx.n(8, 40))
        for c in cases:
            c.setdefault("entry", ent.name)
        res = run_entry(ctx, ent, cases, "d_" + ent.name)
        failing = [(c, o, v) for c, o, v in res if v >= 2]
        disagree = [(c, o, v) for c, o, v in res if v == 1]
        for c, o, v in res:
            ctx.count("verdict:%s:%d" % (ent.name, v))
            if v == 12:
                ctx.count("kf_everything_clipped:" + ent.name)
                ctx.count("kf_everything_clipped:%s:%s" % (ent.name, ent.family(c)))
                continue        # failing cases of a (proposed) known class are reported, not counted as evaluations
            if v == -2:
                ctx.count("undefined_statistics:" + ent.name)
                ctx.count("undefined_statistics:%s:%s" % (ent.name, ent.family(c)))
                ctx.count("undefined_statistics")
                continue
            if v == -1:
                ctx.count("borderline_skipped:" + ent.name)
                ctx.count("borderline_skipped:%s:%s" % (ent.name, ent.family(c)))
                ctx.count("borderline_skipped")
                continue
            ctx.case([ent.name, c], ent.nontrivial(c, o), ent.name + ":" + ent.family(c),
                     sample={"entry": ent.name, "input": _short(c), "impl_output": _short(o)})
            if o[0] == "err":
                ctx.count("impl_error:%s:%s" % (ent.name, o[1]))
        if disagree and not failing and replay_case is None:
            for rnd in range(1, ent.search_rounds + 1):
                extra = list(ent.cases(ctx, rnd))
                for c in extra:
                    c.setdefault("entry", ent.name)
                res2 = run_entry(ctx, ent, extra, "s%d_%s" % (rnd, ent.name))
                ctx.count("search_cases:" + ent.name, len(res2))
                failing = [(c, o, v) for c, o, v in res2 if v >= 2]
                if failing:
                    break
        reported = set()
        for c, o, v in sorted(failing, key=lambda t: (0 if str(t[0].get("family", "")).startswith("corpus:") else 1,
                                                      len(json.dumps(t[0], default=str))))[:40]:
            cls = ent.classify(c, o, v)
            if cls in reported:
                continue
            reported.add(cls)
            shown = None
            if ent.show(c) is not None and len(reported) <= 3:
                shown = core.coq_show(ctx.work, PRE, ent.show(c))
            ctx.violation("%s: %s" % (ent.name, VERDICT_TXT[v]),
                          {"kind": "failing-input", "entry": ent.name, "case": c, "impl_output": o,
                           "verdict": v, "model_output": shown, "class": cls}, found_input=True)
        if disagree and not failing:
            c, o, v = min(disagree, key=lambda t: len(json.dumps(t[0], default=str)))
            shown = core.coq_show(ctx.work, PRE, ent.show(c)) if ent.show(c) is not None else None
            ctx.violation("%s: correspondence model<->implementation broken on %d case(s); the property checker "
                          "accepted every implementation output explored" % (ent.name, len(disagree)),
                          {"kind": "correspondence", "entry": ent.name, "case": c, "impl_output": o, "verdict": v,
                           "model_output": shown, "class": ent.classify(c, o, v),
                           "no_longer_checks": "correspondence %s.%s (model = implementation)" % (ctx.pid, ent.name)},
                          found_input=False)
        ctx.count("wall_s:" + ent.name, round(time.time() - t0, 1))


def _short(v, k=12):
    """abbreviate long arrays in the evidence samples (replays always carry the full case)"""
    if isinstance(v, dict):
        return {a: _short(b, k) for a, b in v.items()}
    if isinstance(v, (list, tuple)):
        if len(v) > k:
            return [_short(x, k) for x in v[:k]] + ["... %d more" % (len(v) - k)]
        return [_short(x, k) for x in v]
    return v


TRUSTED = [
    "Coq 8.16.1 kernel (coqc, vm_compute; no native_compute).  All C18 theorems except two are closed under the global "
    "context; C18_cor_cov_roundtrip and C18_close_sqrt_real (the two statements that mention sqrt) use the standard "
    "library's real-number axioms (ClassicalDedekindReals.sig_forall_dec, sig_not_dec, functional_extensionality_dep)",
    "hand-written exact-rational model C18/Model.v of esutil/stat/util.py (wmom, wmedian, sigma_clip, interplin, get_stats, "
    "cov2cor, cor2cov, boxcar_average); tied to the working tree (a) by the correspondence run on every check (differential "
    "testing, bounded by the generators) and (b) by C18/Gen.v: the elementwise formulas of wmom, the loop test/update of "
    "wmedian, the clip comparison, round count, stop tests and statistics keywords of sigma_clip, the index clamps and "
    "formula of interplin, the defaults reached by get_stats, the entry formulas and diagonal test of cov2cor/cor2cov "
    "and the boxcar offsets are printed from the source's AST on every run by harness/props/c18_translate.py (trusted "
    "to print what the source says; fails closed) and theorems C18_gen_* prove the model equal to them; NOT covered by "
    "(b): array plumbing (atleast_1d, astype, newaxis broadcasting, argsort, searchsorted, convolve, indices[w]) and "
    "the inputmean conversion",
    "modelled, not verified: numpy broadcasting and axis-0 reductions (written column by column), sum/mean/std as exact "
    "sums, argsort as a sorting permutation, searchsorted on a sorted table as the count of smaller elements, convolve; "
    "binary64 rounding is NOT modelled: implementation floats are compared with the exact value within 1e-9 x a "
    "condition-aware scale (Spec.v header), cases whose discrete outcome is within that tolerance of its threshold are "
    "skipped (counted as borderline_skipped), except data on which float arithmetic is exact (small integers)",
    "sigma_clip is checked against the clause as stated (two stop rules, SpecStrict.sigma_clip_strict_check, soundness "
    "C18_strict_checker_sound); cases in which the code takes its third exit (a round would discard every remaining point) "
    "fail that checker and are classified C18.kf_everything_clipped (theorems C18_sigma_clip_fixpoint_refuted / "
    "_outside_known); get_stats with clipping is checked for consistency with sigma_clip as it is",
    "calls that compute in float32 (float32 arrays handed to unweighted sigma_clip, interplin tables, cov2cor/cor2cov, wmom with a "
    "scalar inputmean) are checked by the same checkers at eps_f4 = 2^-18; these are sound at every constant (C18_tol_checkers_sound); "
    "WHICH calls compute in float32 is decided by the harness from the container of the arguments (numpy promotion rules, not modelled)",
    "call history: sequences on the same argument objects rewritten in place are judged step by step and against the same call made "
    "alone; the model is a pure function of the call (C18_history_independent), the dynamic side is sampling",
    "python harness (harness/props/C18.py, c18_translate.py), exact-rational literal printers, coqc evaluating Exec.v verdict terms",
]


def run(ctx, replay=None):
    ctx.rule = ("corpus + adversarial families named in the quantifier + seeded random cases per entry point (wmom, wmedian, "
                "sigma_clip, interplin, get_stats, cov2cor, cor2cov, cov->cor->cov round trip, boxcar_average); every case is "
                "run on the real esutil (scratch build of the working tree) and inside Coq on exact rationals (model vs "
                "implementation within the stated tolerance; verified checker of the property on the implementation's output). "
                "non-trivial: >= 3 data and weights not all equal (wmom, wmedian, get_stats); >= 1 point clipped (sigma_clip, "
                "clipping get_stats); >= 3 nodes and a query strictly inside off the nodes (interplin); n >= 2 with a non-zero "
                "off-diagonal (cov/cor); n >= 3 and window >= 2 (boxcar).  distinct by canonical JSON.  borderline-skipped "
                "cases (verdict -1) are counted in the distribution and are not evaluations.")
    ctx.trusted = TRUSTED
    # 1. formulas, comparisons, defaults and index arithmetic read out of the source of the tree under check
    try:
        defs, changed = c18_translate.regenerate(ctx.impl, core.COQDIR)
        ctx.obligation("C18/Gen.v regenerated from esutil/stat/util.py (%d definitions)%s" % (
            len(defs), " [text changed]" if changed else ""), True)
        ctx.count("gen_definitions", len(defs))
    except c18_translate.TranslateError as e:
        ctx.obligation("C18/Gen.v regenerated from esutil/stat/util.py", False, str(e))
        ctx.violation("translation of esutil/stat/util.py failed (fail closed): %s" % e,
                      {"kind": "translation", "error": str(e),
                       "no_longer_checks": "tie of C18/Gen.v (gen_* definitions) to esutil/stat/util.py; "
                                           "theorems C18_gen_* are about the last text that could be translated"},
                      found_input=False)
    # 2. theorems (those named C18_gen_* are re-checked against the regenerated text)
    if not core.proof_step(ctx, "C18", core.ALLOW_DISCRETE + core.ALLOW_REALS):
        # the tie theorems no longer hold for this source text (or a proof broke): the model and the checkers
        # (Model/Spec/Exec do not depend on Gen.v) are still used to search for a failing input
        ok, log = core.coq_make(["theories/C18/Exec.vo"])
        if not ok:
            return
    only = os.environ.get("C18_ONLY")          # debugging aid: restrict to some entry points
    ents = [e for e in ENTRIES if not only or e.name in only.split(",")]
    differential(ctx, ents, replay)

"""C07 — structured-array field operations (DESIGN.md section 7, C07).

Canonical form of a structured array (JSON): {"shape": [...], "layout": "C"|"F"|"strided",
"fields": [{"name", "type" (numpy type string incl. byte order), "sub" (sub-array shape),
"cells" (hex of the field's bytes, one entry per array element in C order)}]}.  The same
structure is printed as a Coq term of type Model.sarray; outputs of the real esutil are
canonicalised the same way and compared inside Coq.
"""
import io
import os
import re
import subprocess

from .. import core
from ..core import cz, cbool, cstr
from ..runner import Entry, differential
from . import c07_translate
from . import c07_pygen

PRE = ("From Coq.Strings Require Import String.\nFrom EsVerif.Common Require Import Base Bytes.\n"
       "From EsVerif.C07 Require Import Model Spec Verbose Swap Exec.\n")

# ----------------------------------------------------------------------------
# Coq term printers
# ----------------------------------------------------------------------------
KIND = {"i": "KInt", "u": "KUInt", "f": "KFloat", "c": "KComplex", "b": "KBool", "S": "KBytes", "U": "KUnicode"}
ORD = {"<": "LE", ">": "BE", "|": "NA"}
_TY = re.compile(r"([<>|])([iufcbSU])(\d+)")


def tparse(t):
    m = _TY.fullmatch(t)
    if not m:
        raise ValueError("element type outside the modelled set: %r" % (t,))
    return m.group(1), m.group(2), int(m.group(3))


def isize(t):
    o, k, n = tparse(t)
    return 4 * n if k == "U" else n


def ctype(t):
    o, k, n = tparse(t)
    return "(mkT %s %s %s)" % (ORD[o], KIND[k], cz(n))


def czl(l):
    return "[" + "; ".join(cz(x) for x in l) + "]"


def cdentry(name, t, sub):
    return "(mkD %s %s %s)" % (cstr(name), ctype(t), czl(sub))


def chexs(cells):
    return "[" + "; ".join('unhex "%s"' % c for c in cells) + "]"


def carray(j):
    fs = ["(mkF %s %s)" % (cdentry(f["name"], f["type"], f["sub"]), chexs(f["cells"])) for f in j["fields"]]
    return "(mkA %s [%s])" % (czl(j["shape"]), "; ".join(fs))


def cnames(na):
    if na["form"] == "scalar":
        return "(NScalar %s)" % cstr(na["names"][0])
    c = {"list": "NList", "tuple": "NTuple", "ndarray": "NArray"}[na["form"]]
    return "(%s [%s])" % (c, "; ".join(cstr(n) for n in na["names"]))


def cdval(v):
    if v["form"] == "scalar":
        return '(DScalar (unhex "%s"))' % v["hex"]
    if v["form"] == "row":
        return '(DRow (unhex "%s"))' % v["hex"]
    return "(DFull %s)" % chexs(v["hex"])


def cvals(va):
    if va["form"] == "single":
        return "(VSingle %s)" % cdval(va["vals"][0])
    return "(VList [%s])" % "; ".join(cdval(v) for v in va["vals"])


def cres(out, f):
    return "(Ok %s)" % f(out[1]) if out[0] == "ok" else "(Err %s)" % out[1]


def cview(v):
    return "(mkV %s %s %s)" % (ctype(v["type"]), czl(v["shape"]), chexs(v["cells"]))


# ----------------------------------------------------------------------------
# JSON <-> numpy
# ----------------------------------------------------------------------------
_LIVE = {}          # objects kept alive within ONE sequence (prelude calls + the judged call)


def np_dtype(fields):
    import numpy as np
    return np.dtype([(f["name"], f["type"], tuple(f["sub"])) if f["sub"] else (f["name"], f["type"])
                     for f in fields])


def to_np(j, written=False):
    """exact memory image -> numpy array with the requested memory layout (written: the call under test stores into
    this array, so it must stay writeable)"""
    import numpy as np
    if j.get("obj") is not None:
        # sequence dimension: the SAME ndarray object as in an earlier call of this sequence, its contents
        # overwritten in place (a new object when the dtype or shape differs)
        new = to_np(dict(j, obj=None, layout="C"), written=True)
        old = _LIVE.get(("arr", j["obj"]))
        if old is not None and old.dtype == new.dtype and old.shape == new.shape:
            old[...] = new
            return old
        _LIVE[("arr", j["obj"])] = new
        return new
    dt = np_dtype(j["fields"])
    shape = tuple(j["shape"])
    n = 1
    for s in shape:
        n *= s
    rows = []
    for i in range(n):
        rows.append(b"".join(bytes.fromhex(f["cells"][i]) for f in j["fields"]))
    buf = b"".join(rows)
    assert len(buf) == n * dt.itemsize, (len(buf), n, dt.itemsize)
    a = np.frombuffer(buf, dtype=dt).reshape(shape).copy()
    lay = j.get("layout", "C")
    if lay == "F" and a.ndim == 2:
        a = np.asfortranarray(a)
    elif lay == "strided" and a.ndim >= 1:
        big = np.zeros((2 * a.shape[0] + 1,) + a.shape[1:], dtype=dt)
        big[1::2] = a
        a = big[1::2]
        assert a.shape == shape
    elif lay == "recarray":
        a = a.view(np.recarray)
    elif lay == "reversed" and a.ndim >= 1:
        a = a[::-1].copy()[::-1]          # same logical content, negative stride along axis 0
        assert a.shape == shape
    elif lay == "readonly" and not written:
        a.flags.writeable = False
    return a


def from_np(a):
    """numpy structured array -> canonical JSON (logical content, C order)"""
    import numpy as np
    dt = a.dtype
    if dt.names is None:
        raise ValueError("not a structured array: %s" % dt)
    n = int(a.size)
    fields = []
    for ent in dt.descr:
        name, t = ent[0], ent[1]
        if name == "" or not isinstance(t, str):
            raise ValueError("descr outside the modelled set (padding or nested): %r" % (dt.descr,))
        sub = [int(x) for x in ent[2]] if len(ent) > 2 else []
        raw = np.ascontiguousarray(a[name]).tobytes()
        cs = isize(t)
        for s in sub:
            cs *= s
        assert len(raw) == n * cs
        fields.append({"name": name, "type": t, "sub": sub,
                       "cells": [raw[i * cs:(i + 1) * cs].hex() for i in range(n)]})
    return {"shape": [int(s) for s in a.shape], "fields": fields}


def names_py(na):
    import numpy as np
    f = na["form"]
    if f == "scalar":
        return np.str_(na["names"][0]) if na.get("npstr") else na["names"][0]
    if f == "list":
        new = [np.str_(x) for x in na["names"]] if na.get("npstr") else list(na["names"])
        if na.get("obj") is not None:      # the SAME list object as earlier in this sequence, mutated in place
            old = _LIVE.setdefault(("names", na["obj"]), [])
            old[:] = new
            return old
        return new
    if f == "tuple":
        return tuple(na["names"])
    return np.array(na["names"], dtype=str) if na["names"] else np.array([], dtype="U1")


def dval_py(v, t, shape, sub):
    """the python value handed to esutil for a default/assigned value (already of the field's type)"""
    import numpy as np
    base = np.dtype(t)
    if v["form"] == "scalar":
        x = np.frombuffer(bytes.fromhex(v["hex"]), dtype=base)[0]
        return x.item() if v.get("native") else x
    if v["form"] == "row":
        x = np.frombuffer(bytes.fromhex(v["hex"]), dtype=base).reshape(tuple(sub)).copy()
    else:
        x = np.frombuffer(bytes.fromhex("".join(v["hex"])), dtype=base).reshape(tuple(shape) + tuple(sub)).copy()
    # (.tolist() of a zero-size array forgets its shape: hand such values over as arrays)
    return x.tolist() if (v.get("native") and x.size) else x


def run_ok(f):
    """run f() on the real esutil; canonical ('ok', value) / ('err', class, message)"""
    try:
        return ("ok", f())
    except Exception as e:  # noqa
        return ("err", core.errclass(e), "%s: %s" % (type(e).__name__, str(e)[:200]))


# ----------------------------------------------------------------------------
# generators
# ----------------------------------------------------------------------------
NAMES = ["a", "b", "c", "x", "y", "X", "ra", "dec", "flux", "id", "Name", "name", "v1", "s", "u", "a_b", "f0", "k",
         "mag", "Y", "zz2"]
SHAPES_1D = [[0], [1], [2], [3], [3], [4], [5]]
SHAPES_OTHER = [[], [], [2, 3], [3, 1], [1, 4], [2, 2], [0, 3], [2, 0], [1, 1], [3, 2]]
SUBS = [[], [], [], [], [2], [3], [1], [2, 2], [2, 1, 2]]


def gen_type(r):
    k = r.choice("iiuffcbSSUU")
    if k in "iu":
        n = r.choice([1, 2, 4, 8])
    elif k == "f":
        n = r.choice([2, 4, 8])
    elif k == "c":
        n = r.choice([8, 16])
    elif k == "b":
        n = 1
    elif k == "S":
        n = r.randrange(1, 6)
    else:
        n = r.randrange(1, 4)
    o = "|" if (k in "bS" or (k in "iu" and n == 1)) else r.choice("<>")
    return "%s%s%d" % (o, k, n)


_FPOOL = [0.0, -0.0, 1.0, -1.5, 3.25, 1e-7, 65504.0, float("inf"), float("-inf"), 2.5e-8, 7.0, -1024.0]


def gen_item(r, t, mode="any"):
    """bytes of one item of element type t.  mode: 'any' (raw bit patterns incl. NaN payloads),
    'values' (ordinary and special float values incl. NaN, -0.0), 'finite' (no NaN)"""
    import numpy as np
    o, k, n = tparse(t)
    size = isize(t)
    if k == "b":
        return bytes([r.randrange(2)])
    if k == "S":
        ln = r.randrange(0, n + 1)
        return bytes(r.choice(b"abcxyz \x00\xff\x01Z") for _ in range(ln)).ljust(n, b"\0")
    if k == "U":
        ln = r.randrange(0, n + 1)
        cps = [r.choice([0x61, 0x62, 0x7a, 0x20, 0xe9, 0x20ac, 0x1d11e, 0x41]) for _ in range(ln)] + [0] * (n - ln)
        return b"".join(c.to_bytes(4, "little" if o == "<" else "big") for c in cps)
    if k in "iu":
        p = r.random()
        if p < 0.15:
            return bytes(size)
        if p < 0.3:
            return b"\xff" * size
        if p < 0.5:
            v = r.randrange(0, 100)
            return v.to_bytes(size, "little" if o == "<" else "big")
        return bytes(r.randrange(256) for _ in range(size))
    # float / complex
    if mode == "any" and r.random() < 0.5:
        return bytes(r.randrange(256) for _ in range(size))
    pool = list(_FPOOL)
    if mode != "finite":
        pool += [float("nan"), float("nan")]

    def one():
        return r.choice(pool) if r.random() < 0.7 else round(r.uniform(-100, 100), 2)
    with np.errstate(all="ignore"):
        if k == "c":
            return np.array(complex(one(), one()), dtype=t).tobytes()
        return np.array(one(), dtype=t).tobytes()


def gen_cell(r, t, sub, mode="any"):
    k = 1
    for s in sub:
        k *= s
    return b"".join(gen_item(r, t, mode) for _ in range(k))


def nelem(shape):
    n = 1
    for s in shape:
        n *= s
    return n


def gen_shape(r, ctx):
    return list(r.choice(SHAPES_1D if r.random() < 0.5 else SHAPES_OTHER))


def gen_fields(r, shape, nf, names=None, mode="any", avoid=()):
    pool = [n for n in NAMES if n not in avoid]
    names = names or r.sample(pool, nf)
    n = nelem(shape)
    out = []
    for nm in names:
        t = gen_type(r)
        sub = list(r.choice(SUBS))
        out.append({"name": nm, "type": t, "sub": sub,
                    "cells": [gen_cell(r, t, sub, mode).hex() for _ in range(n)]})
    return out


def gen_array(r, ctx, shape=None, nf=None, mode="any", avoid=(), names=None):
    shape = gen_shape(r, ctx) if shape is None else shape
    nf = nf or r.choice([1, 2, 3, 3, 4, 4, 5, 6])
    lay = "C"
    p = r.random()
    if p < 0.15 and len(shape) == 2:
        lay = "F"
    elif p < 0.3 and len(shape) >= 1:
        lay = "strided"
    elif p < 0.4:
        lay = "recarray"
    elif p < 0.5 and len(shape) >= 1:
        lay = "reversed"
    elif p < 0.6:
        lay = "readonly"
    return {"shape": shape, "layout": lay, "fields": gen_fields(r, shape, nf, names=names, mode=mode, avoid=avoid)}


def gen_form(r, names, allow_scalar=True):
    forms = ["list", "tuple", "ndarray"]
    if len(names) == 1 and allow_scalar and r.random() < 0.5:
        return {"form": "scalar", "names": list(names), "npstr": r.random() < 0.3}
    return {"form": r.choice(forms), "names": list(names), "npstr": r.random() < 0.15}


def gen_selection(r, nm):
    """(kind, list of names) — subsets and orderings, plus the malformed stream"""
    kind = r.choice(["subset", "subset", "subset", "subset-orig", "all", "single", "missing", "missing",
                     "all-missing", "empty", "dup", "case", "overlong", "prefix", "all-but-one"])
    if kind in ("subset", "subset-orig"):
        k = r.randrange(1, max(2, len(nm)))
        sel = r.sample(nm, min(k, len(nm)))
        if kind == "subset-orig":
            sel = [n for n in nm if n in sel]
    elif kind == "all":
        sel = list(nm)
        r.shuffle(sel)
    elif kind == "all-but-one":          # boundary: exactly one field is left out / left over
        sel = list(nm)
        r.shuffle(sel)
        sel = sel[:-1] if len(sel) > 1 else sel
    elif kind == "single":
        sel = [r.choice(nm)]
    elif kind == "missing":
        sel = r.sample(nm, r.randrange(0, len(nm) + 1))
        sel.insert(r.randrange(0, len(sel) + 1), r.choice(["nope", "q9"]))
    elif kind == "all-missing":
        sel = r.sample(["nope", "q9", "w_"], r.randrange(1, 3))
    elif kind == "empty":
        sel = []
    elif kind in ("overlong", "prefix"):
        # a MISSING name that becomes an existing one when cut to the width of the existing names (overlong: one of
        # the longest names + a suffix) or that is a proper prefix of an existing name
        sel = r.sample(nm, r.randrange(0, len(nm)))
        if kind == "overlong":
            w = max(len(x) for x in nm)
            bad = r.choice([x for x in nm if len(x) == w]) + r.choice(["_err", "2", "_", "x" * 9])
        else:
            cand = [x[:k] for x in nm for k in range(1, len(x)) if x[:k] not in nm]
            bad = r.choice(cand) if cand else "q9"
        if bad in nm:
            bad = "q9"
        sel.insert(r.randrange(0, len(sel) + 1), bad)
    elif kind == "dup":
        sel = r.sample(nm, r.randrange(1, len(nm) + 1))
        sel.insert(r.randrange(0, len(sel) + 1), r.choice(sel))
    else:
        n0 = r.choice(nm)
        alt = n0.upper() if n0.upper() != n0 else n0.lower()
        sel = [alt] + r.sample(nm, r.randrange(0, len(nm)))
    return kind, sel


# field names of which one CONTAINS others: a bare str must be ONE name, never a container searched by `in`
CLUSTERS = [["ra", "err", "ra_err", "dec"], ["a", "b", "a_b", "k"], ["x", "y", "xy", "flux"], ["dec", "c", "de", "dec_err"],
            ["id", "i", "d", "mid"], ["mag", "ma", "g", "mag_g"]]


def gen_substr_case(r, ctx):
    """array whose field names are substrings of one another + a bare-str selection that contains other names:
    (array, names-arg, kind).  The long name is a field of the array or not (then nothing is selected)."""
    cl = list(r.choice(CLUSTERS))
    longest = max(cl, key=len)
    present = r.random() < 0.6
    nm = [n for n in cl if n != longest or present]
    extra = r.sample([n for n in NAMES if n not in cl and not any(n in c or c in n for c in cl)], r.randrange(0, 2))
    nm = nm + extra
    r.shuffle(nm)
    shape = gen_shape(r, ctx)
    arr = gen_array(r, ctx, shape=shape, nf=len(nm), names=nm)
    return arr, {"form": "scalar", "names": [longest], "npstr": r.random() < 0.3}, \
        "substr-%s" % ("present" if present else "absent")


# (measured: a long case costs ~7 ms per element in coqc — literal parsing + vm_compute — so quick stays at <= 1025
# elements and one case per entry point; the anchored code has no element loops or buffers of its own, numpy's
# same-type strided field copy is unbuffered)
LONG_QUICK = [255, 257, 511, 513, 1023, 1025]
LONG_THOROUGH = [1023, 1025, 4095, 4096, 4097, 8191, 8192, 8193]


_LONG_K = [0]


def gen_long_array(r, ctx, nf=None, names=None, avoid=(), n=None):
    """1-d array around a power of two (block / buffer sizes of numpy's copy loops): few narrow fields.  The sizes
    are taken round-robin (rotated by the seed), so every run uses every size of the list for some entry point."""
    if n is None:
        lst = LONG_QUICK if ctx.quick() else LONG_THOROUGH
        n = lst[(_LONG_K[0] + ctx.seed) % len(lst)]
        _LONG_K[0] += 1
    nf = nf or r.choice([2, 3])
    pool = [x for x in NAMES if x not in avoid]
    names = names or r.sample(pool, nf)
    fields = []
    for nmx in names:
        t = r.choice(["<i4", ">i2", "|u1", "<f4", ">f8", "|S2", "<i8"])
        sub = [] if r.random() < 0.8 else [2]
        k = isize(t) * (2 if sub else 1)
        # cheap but position-dependent content: element index folded into the bytes
        cells = [((i * 2654435761 + len(nmx)) % (1 << (8 * k))).to_bytes(k, "little").hex() for i in range(n)]
        if t[1] == "f":          # keep floats finite and non-NaN: small integers as floats
            import numpy as np
            vals = np.arange(n * (2 if sub else 1), dtype="f8") % 1000 - 500
            raw = vals.astype(t).tobytes()
            cells = [raw[i * k:(i + 1) * k].hex() for i in range(n)]
        fields.append({"name": nmx, "type": t, "sub": sub, "cells": cells})
    return {"shape": [n], "layout": r.choice(["C", "strided", "reversed", "readonly"]), "fields": fields}


def n_long(ctx):
    return 1


def retype(r, arr):
    """same shape/names, fresh element types and data: the call that follows an identical-looking call"""
    return gen_array(r, None, shape=list(arr["shape"]), nf=len(arr["fields"]), names=[f["name"] for f in arr["fields"]])


def rich(arr):
    """>= 3 fields including a sub-array field or a non-native (big-endian) field"""
    fs = arr["fields"]
    return len(fs) >= 3 and any(f["sub"] or f["type"][0] == ">" for f in fs)


def proper_nonprefix(arr, sel):
    nm = [f["name"] for f in arr["fields"]]
    s = [n for n in nm if n in set(sel)]
    return 0 < len(s) < len(nm) and s != nm[:len(s)]


_LAST = [None]        # the raw object returned by the last call (for the "caller modifies a returned array" sequences)


def arr_out(f):
    def g():
        _LAST[0] = None
        res = f()
        _LAST[0] = res
        return from_np(res)
    return run_ok(g)


def scribble(x):
    """what a caller may do with an array it was handed back: overwrite it in place"""
    import numpy as np
    for a in (x if isinstance(x, (tuple, list)) else [x]):
        if isinstance(a, np.ndarray) and a.size and a.flags.writeable:
            try:
                a.reshape(-1).view("u1")[...] = 0xEE
            except Exception:       # noqa  (non-contiguous view: field by field)
                for n in (a.dtype.names or ()):
                    a[n] = np.zeros((), dtype=a.dtype[n].base)


def untouched(a, j, what="input"):
    """FRAME (C07_store_frame): an argument that the call may not write holds exactly the bytes it held before"""
    now = from_np(a)
    if now["shape"] != list(j["shape"]) or [(f["name"], f["type"], f["sub"], f["cells"]) for f in now["fields"]] != \
            [(f["name"], f["type"], list(f["sub"]), list(f["cells"])) for f in j["fields"]]:
        raise AssertionError("the call modified its %s array" % what)


def must_be_new(res, *inputs):
    """"yields a NEW array": the result must not be (a view of) one of the inputs"""
    import numpy as np
    for a in inputs:
        if res is a or (isinstance(res, np.ndarray) and res.size and res.dtype.itemsize and np.shares_memory(res, a)):
            raise AssertionError("the result is not a new array: it shares memory with an input")
    return res


def rowbytes(fields):
    n = 0
    for f in fields:
        c = isize(f["type"])
        for s in f["sub"]:
            c *= s
        n += c
    return n


def dirty_heap(nbytes):
    """Release a few buffers of exactly the size the result of the next call needs, filled with a non-zero
    pattern (what any long-running program does by creating and dropping arrays).  numpy's small-block cache
    and malloc then hand that recycled memory to the next allocation of this size, so that an output buffer
    the implementation does not initialise itself ("zero-filled" is part of the statement) shows up instead
    of depending on allocator luck."""
    import numpy as np
    if nbytes <= 0:
        return
    junk = [np.full(nbytes, 0xAB, dtype="u1") for _ in range(6)]
    del junk


# ----------------------------------------------------------------------------
# entries
# ----------------------------------------------------------------------------
# ----------------------------------------------------------------------------
# sequence / history dimension
# ----------------------------------------------------------------------------
# A case may carry "prelude": calls of the same entry point made first IN THE SAME PROCESS, results discarded; the
# case itself is then judged as usual.  The model is a pure function of the arguments, so "model = implementation"
# on the judged call is exactly "the answer does not depend on the calls made before".  The preludes are chosen so
# that a cache keyed too coarsely collides: equal names / shapes / record size (dtype.str of a structured dtype is
# only '|V<n>') with other element types or byte orders; the same array or name-list OBJECT with its contents
# changed in place; an equal but distinct object; the other value of every keyword.
_SAME_SIZE = {
    1: ["|i1", "|u1", "|b1", "|S1"],
    2: ["<i2", ">i2", "<u2", ">u2", "<f2", ">f2", "|S2"],
    4: ["<i4", ">i4", "<u4", ">u4", "<f4", ">f4", "|S4", "<U1", ">U1"],
    8: ["<i8", ">i8", "<u8", ">u8", "<f8", ">f8", "<c8", ">c8", "<U2", ">U2"],
    12: ["<U3", ">U3"],
    16: ["<c16", ">c16"],
}


def _arrays_of(c):
    out = []
    for k in ("arr", "a1", "a2"):
        if isinstance(c.get(k), dict):
            out.append(c[k])
    out += list(c.get("arrs") or [])
    return out


def fix_alias(c2):
    """an aliased case passes ONE object as both arguments: its second array is the first"""
    import copy
    if c2.get("alias") and "a1" in c2:
        c2["a2"] = copy.deepcopy(c2["a1"])
    return c2


def retype_case(r, c, how):
    """deep copy of case c in which every field keeps its name, sub-array shape and ITEM SIZE (hence the record size)
    but gets another element type ('type') or only the other byte order ('order'), or only new data ('data');
    fields of the same name and type in different arrays of the case stay of one type"""
    import copy
    c2 = copy.deepcopy(c)
    c2.pop("prelude", None)
    tmap = {}
    seen = {}
    for a in _arrays_of(c2):
        for f in a["fields"]:
            seen.setdefault(f["name"], set()).add(f["type"])
    for a in _arrays_of(c2):
        n = nelem(a["shape"])
        for f in a["fields"]:
            key = (f["name"], f["type"])
            if key not in tmap:
                t = f["type"]
                if len(seen[f["name"]]) > 1:
                    pass          # one name with two types in the case (wider string): keep the pair as generated
                elif how == "order" and t[0] in "<>":
                    t = {"<": ">", ">": "<"}[t[0]] + t[1:]
                elif how == "type":
                    alts = [x for x in _SAME_SIZE.get(isize(t), []) if x != t]
                    t = r.choice(alts) if alts else t
                tmap[key] = t
            f["type"] = tmap[key]
            f["cells"] = [gen_cell(r, f["type"], f["sub"], "finite").hex() for _ in range(n)]
    if isinstance(c2.get("plain"), dict):
        pl = c2["plain"]
        alts = [x for x in _SAME_SIZE.get(isize(pl["type"]), []) if x != pl["type"]]
        if how != "data" and alts:
            pl["type"] = r.choice(alts)
        pl["cells"] = [gen_item(r, pl["type"], "finite").hex() for _ in pl["cells"]]
    return fix_alias(c2)


HIST_KINDS = ["same-names-other-types", "same-names-other-order", "same-object-mutated", "equal-new-object",
              "other-keywords", "names-object-mutated", "same-size-other-names", "returned-array-overwritten"]


def rename_case(r, c):
    """deep copy of case c with every field renamed (consistently in all arrays, name selections and added
    descriptors): same shapes, types, record size and data, other names"""
    import copy
    c2 = copy.deepcopy(c)
    c2.pop("prelude", None)
    suffix = r.choice(["_", "q", "0"])

    def ren(n):
        return n + suffix
    for a in _arrays_of(c2):
        for f in a["fields"]:
            f["name"] = ren(f["name"])
    if isinstance(c2.get("names"), dict):
        c2["names"]["names"] = [ren(n) for n in c2["names"]["names"]]
    for d in c2.get("add") or []:
        d["name"] = ren(d["name"])
    return fix_alias(c2)


def _regen_vals(r, c2):
    """copy_fields_by_name: the values belong to the (retyped) fields they are assigned to"""
    if "vals" not in c2 or not isinstance(c2.get("names"), dict):
        return
    fs = {f["name"]: f for f in c2["arr"]["fields"]}
    nms = c2["names"]["names"]
    new = []
    for i, v in enumerate(c2["vals"]["vals"]):
        f = fs.get(nms[i] if i < len(nms) else None, {"type": "<i4", "sub": []})
        new.append(gen_dval(r, f["type"], c2["arr"]["shape"], f["sub"], forms=(v["form"],), native=v.get("native")))
    c2["vals"]["vals"] = new
    if c2["vals"].get("tuple_of"):
        tv = []
        for i, v in enumerate(c2["vals"]["tuple_of"]):
            f = fs.get(nms[i] if i < len(nms) else None, {"type": "<i4", "sub": []})
            tv.append(gen_dval(r, f["type"], c2["arr"]["shape"], f["sub"], forms=(v["form"],), native=v.get("native")))
        c2["vals"]["tuple_of"] = tv
        c2["vals"]["vals"] = tv[:1]


def history_variants(r, c, kind):
    """sequence versions of case c (c itself stays the judged call)"""
    import copy
    out = []
    j = copy.deepcopy(c)
    j.pop("prelude", None)
    if kind == "names-object-mutated":
        if not isinstance(j.get("names"), dict):
            kind = "same-names-other-types"
        elif j["names"]["form"] != "list":          # the same names as a list (a mutable object)
            j["names"] = {"form": "list", "names": list(j["names"]["names"]), "npstr": False}
    if kind in ("same-names-other-types", "same-names-other-order", "same-size-other-names"):
        # both directions: (c' then c) and (c then c') — a cache filled by an EARLIER case of the run answers
        # one of the two correctly
        if kind == "same-size-other-names":
            c2 = rename_case(r, c)
        else:
            c2 = retype_case(r, c, "type" if kind.endswith("types") else "order")
            _regen_vals(r, c2)
        j["prelude"] = [copy.deepcopy(c2)]
        c2["prelude"] = [copy.deepcopy(j)]
        c2["prelude"][0].pop("prelude", None)
        c2["family"] = "seq:%s-rev" % kind
        out.append(c2)
    elif kind == "same-object-mutated":
        p = retype_case(r, c, "data")
        for cc in (p, j):
            for i, a in enumerate(_arrays_of(cc)):
                a["obj"] = "A%d" % i
        j["prelude"] = [p]
    elif kind == "equal-new-object":
        j["prelude"] = [copy.deepcopy(j), retype_case(r, c, "type")]
    elif kind == "returned-array-overwritten":
        # the same call twice on the same argument objects; in between the caller overwrites what it was handed back
        for i, a in enumerate(_arrays_of(j)):
            a["obj"] = "A%d" % i
        j["prelude"] = [copy.deepcopy(j)]
        j["scribble"] = True

    elif kind == "other-keywords":
        p = copy.deepcopy(j)
        for k in ("strict", "getnames", "ignore_missing", "verbose"):
            if k in p:
                p[k] = not p[k]
        for k in ("omit_strict", "omit_kw", "omit_defaults"):
            p.pop(k, None)
        if p.get("defaults") is not None:
            p["defaults"] = None
        j["prelude"] = [p, retype_case(r, p, "order")]
    else:
        p = copy.deepcopy(j)
        nm = list(p["names"]["names"])
        r.shuffle(nm)
        p["names"]["names"] = nm[:max(1, len(nm) - 1)] if nm else ["zz9"]
        p["names"]["obj"] = j["names"]["obj"] = "N"
        j["prelude"] = [p]
    j["family"] = "seq:%s" % kind
    out.append(j)
    return out


def add_history(r, ctx, cs, frac=0.12):
    """append sequence versions of a sample of the cases (long arrays left out)"""
    base = [c for c in cs if not str(c.get("family", "")).startswith("long")]
    extra = []
    # the kinds are taken round-robin: every entry point gets every kind several times in every run
    for i, c in enumerate(r.sample(base, min(len(base), max(12, int(frac * len(base)))))):
        extra += history_variants(r, c, HIST_KINDS[i % len(HIST_KINDS)])
    return cs + extra


_PAST = {}          # entry name -> the cases already run in this process, in order


def _impl_with_history(self, c):
    _LIVE.clear()
    try:
        for p in c.get("prelude", []):
            try:
                _LAST[0] = None
                self.impl1(p)
                if c.get("scribble"):
                    scribble(_LAST[0])
            except Exception:       # noqa  (a prelude call only has to happen)
                pass
        return self.impl1(c)
    finally:
        _LIVE.clear()
        _PAST.setdefault(self.name, []).append(c)


_PROBE = r"""
import importlib, json, sys
import harness.props.C07 as m
job = json.load(open(sys.argv[1]))
ent = [e for e in m.ENTRIES if e.name == job["entry"]][0]
want = json.dumps(job["out"], sort_keys=True, default=str)
def fresh():
    import esutil.numpy_util as nu
    importlib.reload(nu)
def run(seq):
    fresh()
    for p in seq:
        try:
            ent.impl(p)
        except Exception:
            pass
    return json.dumps(json.loads(json.dumps(ent.impl(job["case"]), default=str)), sort_keys=True, default=str)
res = {"self_contained": run([]) == want, "single": None, "all": False}
if not res["self_contained"]:
    past = job["past"]
    for i in range(len(past) - 1, max(-1, len(past) - 121), -1):
        if run([past[i]]) == want:
            res["single"] = i
            break
    if res["single"] is None:
        res["all"] = run(past) == want
print("@@" + json.dumps(res))
"""


def make_self_contained(ent, c, o):
    """A failing case whose failure depends on calls made EARLIER in this process would not reproduce from its replay.
    Re-run it alone in a fresh process; when the answer differs, look for the earlier case (or take all of them) that
    brings the failure back and store it in the case as its "prelude" (the dict is the one written to the replay)."""
    import json
    import subprocess
    import sys
    import tempfile
    if c.get("prelude") or c.get("history_note"):
        return
    past = list(_PAST.get(ent.name, []))
    for i, p in enumerate(past):
        if p is c:
            past = past[:i]
            break
    if not past:
        return
    with tempfile.NamedTemporaryFile("w", suffix=".json", delete=False) as f:
        json.dump({"entry": ent.name, "case": c, "past": past, "out": o}, f, default=str)
        path = f.name
    try:
        r = subprocess.run([sys.executable, "-c", _PROBE, path], cwd=core.VERIF, stdout=subprocess.PIPE,
                           stderr=subprocess.PIPE, text=True, timeout=300)
        line = [x for x in r.stdout.splitlines() if x.startswith("@@")]
        res = json.loads(line[-1][2:]) if line else None
    except Exception as e:  # noqa
        res = None
        c["history_note"] = "history probe failed: %s" % e
    finally:
        os.unlink(path)
    if not res or res["self_contained"]:
        return
    import copy
    if res["single"] is not None:
        c["prelude"] = [copy.deepcopy(past[res["single"]])]
        c["history_note"] = ("the failure depends on an EARLIER call in the same process: alone in a fresh process the call "
                             "answers differently; the earlier case that brings it back is stored as prelude")
    elif res["all"]:
        c["prelude"] = copy.deepcopy(past)
        c["history_note"] = ("the failure depends on the calls made earlier in the same process (no single one suffices): "
                             "all %d earlier cases of this entry point are stored as prelude" % len(past))
    else:
        c["history_note"] = ("the failure depends on earlier calls in the same process but could not be reproduced from "
                             "the earlier cases of this entry point alone (state shared between entry points?)")


_PROBED = set()


def _classify(self, c, o, v):
    # the runner reports the first (smallest) failing case of an entry point: only that one is probed
    if self.name not in _PROBED:
        _PROBED.add(self.name)
        make_self_contained(self, c, o)
    return None


class _Select(Entry):
    """common part of extract / remove / reorder"""
    strict_arg = True

    def cases(self, ctx, round=0):
        r = ctx.rng
        cs = []
        for _ in range(ctx.n(185, 1900)):
            p = r.random()
            if p < 0.08:
                arr, na, kind = gen_substr_case(r, ctx)
                c = {"arr": arr, "names": na}
            elif p < 0.16 and cs:
                # twin: same names and selection as the previous call, other element types (a result must not
                # depend on an earlier call)
                prev = cs[-1]
                c = {"arr": retype(r, prev["arr"]), "names": dict(prev["names"])}
                kind = "twin"
            else:
                arr = gen_array(r, ctx)
                kind, sel = gen_selection(r, [f["name"] for f in arr["fields"]])
                c = {"arr": arr, "names": gen_form(r, sel)}
            c["family"] = "%s/%s/%dd" % (kind, c["names"]["form"], len(c["arr"]["shape"]))
            if self.strict_arg:
                c["strict"] = r.random() < 0.6
                # strict mode is the documented default: leave the keyword out in some strict calls
                c["omit_strict"] = c["strict"] and r.random() < 0.3
            cs.append(c)
        for _ in range(n_long(ctx)):
            arr = gen_long_array(r, ctx)
            nm = [f["name"] for f in arr["fields"]]
            sel = r.sample(nm, r.randrange(1, len(nm)))
            c = {"arr": arr, "names": gen_form(r, sel), "family": "long/%d" % arr["shape"][0]}
            if self.strict_arg:
                c["strict"], c["omit_strict"] = True, False
            cs.append(c)
        return add_history(r, ctx, cs)

    def nontrivial(self, c, out):
        return rich(c["arr"]) and proper_nonprefix(c["arr"], c["names"]["names"])

    @staticmethod
    def _call(c, f):
        a, nm = to_np(c["arr"]), names_py(c["names"])
        keep = set(c["names"]["names"])
        for fs in (c["arr"]["fields"], [x for x in c["arr"]["fields"] if x["name"] in keep],
                   [x for x in c["arr"]["fields"] if x["name"] not in keep]):
            dirty_heap(nelem(c["arr"]["shape"]) * rowbytes(fs))
        try:
            return must_be_new(f(a, nm), a)
        finally:
            untouched(a, c["arr"])


class Extract(_Select):
    name = "extract_fields"

    def impl1(self, c):
        import esutil.numpy_util as nu
        kw = {} if c.get("omit_strict") else {"strict": c["strict"]}
        return arr_out(lambda: self._call(c, lambda a, nm: nu.extract_fields(a, nm, **kw)))

    def term(self, c, out):
        return "v_extract %s %s %s %s" % (carray(c["arr"]), cnames(c["names"]), cbool(c["strict"]), cres(out, carray))

    def show(self, c):
        return "extract_fields %s %s %s" % (carray(c["arr"]), cnames(c["names"]), cbool(c["strict"]))


class Remove(_Select):
    name = "remove_fields"
    strict_arg = False

    def impl1(self, c):
        import esutil.numpy_util as nu
        return arr_out(lambda: self._call(c, lambda a, nm: nu.remove_fields(a, nm)))

    def term(self, c, out):
        return "v_remove %s %s %s" % (carray(c["arr"]), cnames(c["names"]), cres(out, carray))

    def show(self, c):
        return "remove_fields %s %s" % (carray(c["arr"]), cnames(c["names"]))


class Reorder(_Select):
    name = "reorder_fields"

    def impl1(self, c):
        import esutil.numpy_util as nu
        kw = {} if c.get("omit_strict") else {"strict": c["strict"]}
        return arr_out(lambda: self._call(c, lambda a, nm: nu.reorder_fields(a, nm, **kw)))

    def term(self, c, out):
        return "v_reorder %s %s %s %s" % (carray(c["arr"]), cnames(c["names"]), cbool(c["strict"]), cres(out, carray))

    def show(self, c):
        return "reorder_fields %s %s %s" % (carray(c["arr"]), cnames(c["names"]), cbool(c["strict"]))

    def nontrivial(self, c, out):
        nm = [f["name"] for f in c["arr"]["fields"]]
        sel = [n for n in c["names"]["names"] if n in nm]
        return rich(c["arr"]) and 0 < len(sel) and sel != nm[:len(sel)]


def gen_dval(r, t, shape, sub, forms=("scalar", "row", "full"), native=None):
    form = r.choice(forms)
    nat = (r.random() < 0.5) if native is None else native
    if form == "scalar":
        return {"form": "scalar", "hex": gen_item(r, t, "finite").hex(), "native": nat}
    if form == "row":
        return {"form": "row", "hex": gen_cell(r, t, sub, "finite").hex(), "native": nat}
    return {"form": "full", "hex": [gen_cell(r, t, sub, "finite").hex() for _ in range(nelem(shape))], "native": nat}


class Add(Entry):
    name = "add_fields"

    def cases(self, ctx, round=0):
        r = ctx.rng
        cs = []
        for _ in range(ctx.n(185, 1900)):
            arr = gen_array(r, ctx)
            have = [f["name"] for f in arr["fields"]]
            k = r.choice([1, 1, 2, 2, 3, 4])
            add = [{"name": f["name"], "type": f["type"], "sub": f["sub"]}
                   for f in gen_fields(r, [0], k, avoid=have)]
            kind = r.choice(["new", "new", "new", "new", "existing", "dup-in-add", "new-overlong", "new-prefix"])
            if kind in ("new-overlong", "new-prefix"):
                w = max(len(x) for x in have)
                if kind == "new-overlong":
                    nn = r.choice([x for x in have if len(x) == w]) + r.choice(["_err", "2", "_"])
                else:
                    cand = [x[:k] for x in have for k in range(1, len(x)) if x[:k] not in have]
                    nn = r.choice(cand) if cand else "q9"
                if nn not in have and nn not in [d["name"] for d in add]:
                    add[r.randrange(len(add))]["name"] = nn
            if kind == "existing":
                add[r.randrange(len(add))]["name"] = r.choice(have)
            elif kind == "dup-in-add":
                add.append(dict(add[0], type=gen_type(r)))
            spelling = r.choice(["descr", "dtype", "native-order", "dict"])
            dk = r.choice(["none", "none", "list", "list", "list", "single", "short", "long", "tuple"])
            if dk == "tuple" and len(add) < 2:
                dk = "list"
            c = {"arr": arr, "add": add, "spelling": spelling}
            if dk == "none":
                c["defaults"] = None
                c["omit_defaults"] = r.random() < 0.5          # defaults=None is the default
            elif dk == "tuple":
                # a tuple is not a list: wrapped as ONE value -> refused for >= 2 new fields (C07_tuple_values_rejected)
                vals = [gen_dval(r, d["type"], arr["shape"], d["sub"], forms=("scalar",)) for d in add]
                c["defaults"] = {"form": "single", "vals": vals[:1], "tuple_of": vals}
            elif dk == "single":
                d = add[0]
                c["defaults"] = {"form": "single", "vals": [gen_dval(r, d["type"], arr["shape"], d["sub"])]}
                if c["defaults"]["vals"][0]["form"] != "scalar":
                    c["defaults"]["vals"][0]["native"] = False     # a python list would be taken as the list of defaults
            else:
                vals = [gen_dval(r, d["type"], arr["shape"], d["sub"]) for d in add]
                if dk == "short":
                    vals = vals[:-1]
                elif dk == "long":
                    vals.append(gen_dval(r, "<i4", arr["shape"], []))
                c["defaults"] = {"form": "list", "vals": vals}
            c["family"] = "%s/defaults=%s/%dd" % (kind, dk, len(arr["shape"]))
            cs.append(c)
        for _ in range(n_long(ctx)):
            arr = gen_long_array(r, ctx)
            have = [f["name"] for f in arr["fields"]]
            add = [{"name": f["name"], "type": f["type"], "sub": f["sub"]}
                   for f in gen_long_array(r, ctx, nf=r.choice([1, 2]), avoid=have, n=0)["fields"]]
            c = {"arr": arr, "add": add, "spelling": "descr", "defaults": None, "family": "long/%d" % arr["shape"][0]}
            if r.random() < 0.5:
                c["defaults"] = {"form": "list", "vals": [gen_dval(r, d["type"], arr["shape"], d["sub"], forms=("scalar", "row"))
                                                          for d in add]}
            cs.append(c)
        return add_history(r, ctx, cs)

    @staticmethod
    def _norm(c):
        """np.dtype(add).descr entry by entry (np.dtype normalises '=' / missing order marks)"""
        import numpy as np
        out = []
        for d in c["add"]:
            out.append({"name": d["name"], "type": np.dtype(d["type"]).str, "sub": d["sub"]})
        return out

    def impl1(self, c):
        import numpy as np
        import esutil.numpy_util as nu

        def spell(t):
            if c["spelling"] == "native-order" and t[0] == "<":
                return r_choice_native(t)
            return t
        descr = [(d["name"], spell(d["type"]), tuple(d["sub"])) if d["sub"] else (d["name"], spell(d["type"]))
                 for d in c["add"]]

        def f():
            spec = np.dtype(descr) if c["spelling"] == "dtype" else descr
            if c["spelling"] == "dict":
                spec = {"names": [d[0] for d in descr], "formats": [d[1] if len(d) == 2 else (d[1], d[2]) for d in descr]}
            dv = c["defaults"]
            if dv is None:
                defaults = None
            else:
                # the i-th value belongs to the i-th added field (extra values: int32 scalars)
                vs = []
                for i, v in enumerate(dv["vals"]):
                    d = c["add"][i] if i < len(c["add"]) else {"type": "<i4", "sub": []}
                    vs.append(dval_py(v, d["type"], c["arr"]["shape"], d["sub"]))
                defaults = vs[0] if dv["form"] == "single" else vs
                if dv.get("tuple_of"):
                    defaults = tuple(dval_py(v, c["add"][i]["type"], c["arr"]["shape"], c["add"][i]["sub"])
                                     for i, v in enumerate(dv["tuple_of"]))
            a = to_np(c["arr"])
            dirty_heap(nelem(c["arr"]["shape"]) * rowbytes(c["arr"]["fields"] + c["add"]))
            try:
                if c.get("omit_defaults"):
                    return must_be_new(nu.add_fields(a, spec), a)
                return must_be_new(nu.add_fields(a, spec, defaults=defaults), a)
            finally:
                untouched(a, c["arr"])
        return arr_out(f)

    def _args(self, c):
        add = "[" + "; ".join(cdentry(d["name"], d["type"], d["sub"]) for d in self._norm(c)) + "]"
        dv = "None" if c["defaults"] is None else "(Some %s)" % cvals(c["defaults"])
        return "%s %s %s" % (carray(c["arr"]), add, dv)

    def term(self, c, out):
        return "v_add %s %s" % (self._args(c), cres(out, carray))

    def show(self, c):
        return "add_fields " + self._args(c)

    def nontrivial(self, c, out):
        return out[0] == "ok" and len(c["arr"]["fields"]) >= 2 and (
            c["defaults"] is not None or any(d["sub"] or d["type"][0] == ">" for d in c["add"]))


def r_choice_native(t):
    """spell a little-endian (native) type without / with '=' order mark"""
    return t[1:] if (len(t) % 2 == 0) else "=" + t[1:]


class Combine(Entry):
    name = "combine_fields"

    def cases(self, ctx, round=0):
        r = ctx.rng
        cs = []
        for _ in range(ctx.n(185, 1900)):
            shape = gen_shape(r, ctx)
            k = r.choice([1, 2, 2, 2, 3, 3, 4])
            kind = r.choice(["same", "same", "same", "same", "same", "size-differs", "shared-name", "mixed-shape", "empty"])
            arrs, used = [], []
            for i in range(k):
                a = gen_array(r, ctx, shape=list(shape), nf=r.choice([1, 1, 2, 3]), avoid=used)
                used += [f["name"] for f in a["fields"]]
                arrs.append(a)
            if kind == "same" and k >= 2 and r.random() < 0.25:
                kind = "same-prefix-names"
                src = arrs[0]["fields"][-1]["name"]
                nn = src + r.choice(["_err", "2", "_"]) if r.random() < 0.6 or len(src) < 2 else src[:-1]
                if nn not in used:
                    arrs[1]["fields"][0]["name"] = nn
            if kind == "empty":
                arrs = []
            elif kind == "size-differs" and k >= 2:
                i = r.randrange(k)
                sh2 = r.choice([s for s in SHAPES_1D + SHAPES_OTHER if nelem(s) != nelem(shape)])
                arrs[i] = gen_array(r, ctx, shape=list(sh2), nf=len(arrs[i]["fields"]),
                                    names=[f["name"] for f in arrs[i]["fields"]])
            elif kind == "shared-name" and k >= 2:
                i, j = r.sample(range(k), 2)
                arrs[j]["fields"][0]["name"] = arrs[i]["fields"][-1]["name"]
                if len(set(f["name"] for f in arrs[j]["fields"])) < len(arrs[j]["fields"]):
                    arrs[j]["fields"] = arrs[j]["fields"][:1]
            elif kind == "mixed-shape" and k >= 2:
                n = nelem(shape)
                alts = [s for s in ([n], [1, n], [n, 1], [1, 1, n]) if s != shape]
                i = r.randrange(k)
                sh2 = r.choice(alts)
                arrs[i] = gen_array(r, ctx, shape=list(sh2), nf=len(arrs[i]["fields"]),
                                    names=[f["name"] for f in arrs[i]["fields"]])
            cs.append({"arrs": arrs, "container": r.choice(["list", "list", "tuple"]),
                       "family": "%s/n=%d/%dd" % (kind, len(arrs), len(shape))})
        for _ in range(n_long(ctx)):
            a1 = gen_long_array(r, ctx)
            a2 = gen_long_array(r, ctx, avoid=[f["name"] for f in a1["fields"]], n=a1["shape"][0])
            cs.append({"arrs": [a1, a2], "container": "list", "family": "long/%d" % a1["shape"][0]})
        return add_history(r, ctx, cs)

    def impl1(self, c):
        import esutil.numpy_util as nu
        def f():
            arrs = [to_np(a) for a in c["arrs"]]
            if arrs:
                dirty_heap(nelem(c["arrs"][0]["shape"]) * rowbytes([x for a in c["arrs"] for x in a["fields"]]))
            try:
                res = nu.combine_fields(tuple(arrs) if c.get("container") == "tuple" else arrs)
            finally:
                for x, jx in zip(arrs, c["arrs"]):
                    untouched(x, jx)
            # (a one-element list is returned as it is: `return arrlist[0]`; not demanded to be a copy)
            return must_be_new(res, *arrs) if len(arrs) >= 2 else res
        return arr_out(f)

    def _args(self, c):
        return "[" + "; ".join(carray(a) for a in c["arrs"]) + "]"

    def term(self, c, out):
        return "v_combine %s %s" % (self._args(c), cres(out, carray))

    def show(self, c):
        return "combine_fields " + self._args(c)

    def nontrivial(self, c, out):
        a = c["arrs"]
        return len(a) >= 2 and (out[0] == "err" or len(a[0]["shape"]) != 1
                                or any(f["sub"] or f["type"][0] == ">" for x in a for f in x["fields"]))


class Copy(Entry):
    name = "copy_fields"

    def cases(self, ctx, round=0):
        r = ctx.rng
        cs = []
        for _ in range(ctx.n(185, 1900)):
            a1 = gen_array(r, ctx)
            kind = r.choice(["same-shape", "same-shape", "same-shape", "same-shape", "size-differs", "lead-1",
                             "incompatible-shape", "disjoint", "all-common-permuted", "order-differs", "order-differs", "alias"])
            shape = list(a1["shape"])
            n = nelem(shape)
            if kind == "size-differs":
                shape = r.choice([s for s in SHAPES_1D + SHAPES_OTHER if nelem(s) != n])
            elif kind == "lead-1":
                shape = r.choice([[1] + shape, shape[1:] if shape[:1] == [1] else [1, 1] + shape])
            elif kind == "incompatible-shape":
                shape = r.choice([shape + [1], [n, 1]])
            own = gen_array(r, ctx, shape=list(shape), nf=r.choice([1, 2, 3]), avoid=[f["name"] for f in a1["fields"]])
            common = [] if kind == "disjoint" else r.sample(a1["fields"], r.randrange(1, len(a1["fields"]) + 1))
            fs = list(own["fields"])
            if kind == "all-common-permuted":      # exactly the same fields, in another order: matched by NAME
                common, fs = list(a1["fields"]), []
            for f in common:          # same name, element type and sub-array shape; own data
                gt = f["type"]
                if kind == "order-differs" and gt[0] in "<>" and r.random() < 0.7:
                    gt = {"<": ">", ">": "<"}[gt[0]] + gt[1:]      # same type in the OTHER byte order: numpy converts
                g = {"name": f["name"], "type": gt, "sub": f["sub"],
                     "cells": [gen_cell(r, gt, f["sub"]).hex() for _ in range(nelem(shape))]}
                fs.insert(r.randrange(0, len(fs) + 1), g)
            a2 = {"shape": shape, "layout": own["layout"], "fields": fs}
            if kind == "alias":          # copy_fields(a, a): source and destination are the SAME object
                import copy as _copy
                a2 = _copy.deepcopy(a1)
            cs.append({"a1": a1, "a2": a2, "alias": kind == "alias", "family": "%s/%dd" % (kind, len(a1["shape"]))})
        for _ in range(n_long(ctx)):
            a1 = gen_long_array(r, ctx)
            n = a1["shape"][0]
            fs = [{"name": f["name"], "type": f["type"], "sub": f["sub"],
                   "cells": ["00" * (len(f["cells"][0]) // 2)] * n} for f in a1["fields"]]
            r.shuffle(fs)
            if r.random() < 0.5:
                fs.append({"name": "own_", "type": "<i2", "sub": [], "cells": ["0700"] * n})
            cs.append({"a1": a1, "a2": {"shape": [n], "layout": r.choice(["C", "strided", "reversed"]), "fields": fs},
                       "family": "long/%d" % n})
        return add_history(r, ctx, cs)

    def impl1(self, c):
        import esutil.numpy_util as nu

        def f():
            a2 = to_np(c["a2"], written=True)
            a1 = a2 if c.get("alias") else to_np(c["a1"])
            try:
                nu.copy_fields(a1, a2)
            finally:
                untouched(a1, c["a1"], "arr1")
            return a2
        return arr_out(f)

    def term(self, c, out):
        return "v_copy_sw %s %s %s" % (carray(c["a1"]), carray(c["a2"]), cres(out, carray))

    def show(self, c):
        return "copy_fields_sw %s %s" % (carray(c["a1"]), carray(c["a2"]))

    def nontrivial(self, c, out):
        n1 = set(f["name"] for f in c["a1"]["fields"])
        n2 = [f["name"] for f in c["a2"]["fields"]]
        common = [n for n in n2 if n in n1]
        return out[0] == "ok" and 0 < len(common) < len(n2) and nelem(c["a1"]["shape"]) >= 2


class CopyByName(Entry):
    name = "copy_fields_by_name"

    def cases(self, ctx, round=0):
        r = ctx.rng
        cs = []
        for _ in range(ctx.n(185, 1900)):
            if r.random() < 0.08:
                arr, na, kind = gen_substr_case(r, ctx)
                sel = na["names"]
                fs = {f["name"]: f for f in arr["fields"]}
            else:
                arr = gen_array(r, ctx)
                fs = {f["name"]: f for f in arr["fields"]}
                kind, sel = gen_selection(r, list(fs))
                na = gen_form(r, sel)
            vals = []
            for n in sel:
                f = fs.get(n, {"type": "<i4", "sub": []})
                vals.append(gen_dval(r, f["type"], arr["shape"], f["sub"]))
            vk = "list"
            if len(vals) == 1 and r.random() < 0.4:
                vk = "single"
                f = fs.get(sel[0], {"type": "<i4", "sub": []})
                vals = [gen_dval(r, f["type"], arr["shape"], f["sub"], forms=("scalar",))]
            elif vals and r.random() < 0.1:
                vk = "list-short"
                vals = vals[:-1]
            va = {"form": "single" if vk == "single" else "list", "vals": vals}
            if vk == "list" and not vals:
                va = {"form": "list", "vals": []}
            c = {"arr": arr, "names": na, "vals": va, "family": "%s/%s/vals=%s" % (kind, na["form"], vk)}
            if vk == "list" and len(vals) >= 2 and len(vals) == len(sel) and na["form"] != "scalar" and r.random() < 0.15:
                # a tuple of values is wrapped as ONE value -> length mismatch (C07_tuple_values_rejected)
                c["vals"] = {"form": "single", "vals": vals[:1], "tuple_of": vals}
                c["family"] = "%s/%s/vals=tuple" % (kind, na["form"])
            if vk == "list" and len(vals) == 1 and vals[0]["form"] == "scalar" and r.random() < 0.5:
                c["vals_ndarray"] = True            # the values as a length-1 ndarray of the field's type
                c["family"] += "-ndarray"
            cs.append(c)
        for _ in range(n_long(ctx)):
            arr = gen_long_array(r, ctx)
            f = r.choice(arr["fields"])
            v = gen_dval(r, f["type"], arr["shape"], f["sub"], forms=("scalar", "row", "full"), native=False)
            cs.append({"arr": arr, "names": gen_form(r, [f["name"]], allow_scalar=False), "vals": {"form": "list", "vals": [v]},
                       "family": "long/%d/%s" % (arr["shape"][0], v["form"])})
        return add_history(r, ctx, cs)

    def impl1(self, c):
        import esutil.numpy_util as nu
        fs = {f["name"]: f for f in c["arr"]["fields"]}

        def f():
            import numpy as np
            a = to_np(c["arr"], written=True)
            vs = []
            for i, v in enumerate(c["vals"]["vals"]):
                nm = c["names"]["names"][i] if i < len(c["names"]["names"]) else None
                d = fs.get(nm, {"type": "<i4", "sub": []})
                vs.append(dval_py(v, d["type"], c["arr"]["shape"], d["sub"]))
            if c.get("vals_ndarray"):
                d = fs.get(c["names"]["names"][0], {"type": "<i4", "sub": []})
                vs = np.array(vs, dtype=d["type"])
            if c["vals"].get("tuple_of"):
                tv = []
                for i, v in enumerate(c["vals"]["tuple_of"]):
                    d = fs.get(c["names"]["names"][i], {"type": "<i4", "sub": []})
                    tv.append(dval_py(v, d["type"], c["arr"]["shape"], d["sub"]))
                vs = [tuple(tv)]
            nu.copy_fields_by_name(a, names_py(c["names"]), vs[0] if c["vals"]["form"] == "single" else vs)
            return a
        return arr_out(f)

    def _args(self, c):
        return "%s %s %s" % (carray(c["arr"]), cnames(c["names"]), cvals(c["vals"]))

    def term(self, c, out):
        return "v_cfbn %s %s" % (self._args(c), cres(out, carray))

    def show(self, c):
        return "copy_fields_by_name " + self._args(c)

    def nontrivial(self, c, out):
        nm = [f["name"] for f in c["arr"]["fields"]]
        hit = [n for n in c["names"]["names"] if n in nm]
        return out[0] == "ok" and len(nm) >= 2 and 0 < len(hit) < len(nm)


class Split(Entry):
    name = "split_fields"

    def cases(self, ctx, round=0):
        r = ctx.rng
        cs = []
        for _ in range(ctx.n(150, 1700)):
            p = r.random()
            if p < 0.08:
                arr, na, kind = gen_substr_case(r, ctx)
            elif p < 0.28:
                arr = gen_array(r, ctx)
                na, kind = None, "all"
            else:
                arr = gen_array(r, ctx)
                kind, sel = gen_selection(r, [f["name"] for f in arr["fields"]])
                na = gen_form(r, sel)
            if na is not None and na["form"] == "scalar":
                na["npstr"] = False
            gn = r.random() < 0.5
            cs.append({"arr": arr, "names": na, "getnames": gn,
                       "omit_kw": r.random() < 0.3,     # leave out fields=None / getnames=False (the defaults)
                       "family": "%s/%s/%dd" % (kind, na["form"] if na else "None", len(arr["shape"]))})
        for _ in range(n_long(ctx)):
            arr = gen_long_array(r, ctx)
            nm = [f["name"] for f in arr["fields"]]
            cs.append({"arr": arr, "names": gen_form(r, r.sample(nm, r.randrange(1, len(nm) + 1)), allow_scalar=False),
                       "getnames": False, "omit_kw": False, "family": "long/%d" % arr["shape"][0]})
        return add_history(r, ctx, cs)

    def impl1(self, c):
        import numpy as np
        import esutil.numpy_util as nu

        def f():
            a = to_np(c["arr"])
            kw = {}
            if not (c.get("omit_kw") and c["names"] is None):
                kw["fields"] = None if c["names"] is None else names_py(c["names"])
            if not (c.get("omit_kw") and not c["getnames"]):
                kw["getnames"] = c["getnames"]
            try:
                res = nu.split_fields(a, **kw)
            finally:
                untouched(a, c["arr"])
            _LAST[0] = res[0] if (isinstance(res, tuple) and len(res) == 2 and isinstance(res[0], tuple)) else res
            names = []
            if c["getnames"]:
                res, nm = res
                names = [str(x) for x in nm]
            n = int(a.size)
            views = []
            for v in res:
                raw = np.ascontiguousarray(v).tobytes()
                cs_ = len(raw) // n if n else 0
                views.append({"type": v.dtype.str, "shape": [int(s) for s in v.shape],
                              "cells": [raw[i * cs_:(i + 1) * cs_].hex() for i in range(n)],
                              "is_view": bool(np.shares_memory(v, a)) if v.size and v.itemsize else True})
            if not all(v["is_view"] for v in views):
                # "splitting into per-field VIEWS" / docstring "a tuple of references to the individual fields"
                raise AssertionError("split_fields returned a copy of a field, not a view of the data")
            return {"views": views, "names": names}
        return run_ok(f)

    def _args(self, c):
        return "%s %s" % (carray(c["arr"]), "None" if c["names"] is None else "(Some %s)" % cnames(c["names"]))

    def term(self, c, out):
        def pr(o):
            return "([%s], [%s])" % ("; ".join(cview(v) for v in o["views"]), "; ".join(cstr(n) for n in o["names"]))
        return "v_split %s %s %s" % (self._args(c), cbool(c["getnames"]), cres(out, pr))

    def show(self, c):
        return "split_fields " + self._args(c)

    def nontrivial(self, c, out):
        return out[0] == "ok" and rich(c["arr"]) and c["names"] is not None and \
            proper_nonprefix(c["arr"], c["names"]["names"])


class SplitPlain(Entry):
    """split_fields on an array without fields (outside the statement: correspondence only)"""
    name = "split_fields_plain"

    def cases(self, ctx, round=0):
        r = ctx.rng
        cs = []
        for _ in range(ctx.n(40, 400)):
            shape = gen_shape(r, ctx)
            t = gen_type(r)
            cells = [gen_item(r, t).hex() for _ in range(nelem(shape))]
            na = None if r.random() < 0.5 else gen_form(r, r.sample(NAMES, r.randrange(0, 3)))
            if na and na["form"] == "scalar":
                na["npstr"] = False
            cs.append({"plain": {"type": t, "shape": shape, "cells": cells}, "names": na, "getnames": r.random() < 0.5,
                       "family": "plain/%s" % (na["form"] if na else "None")})
        return add_history(r, ctx, cs)

    def impl1(self, c):
        import numpy as np
        import esutil.numpy_util as nu

        def f():
            p = c["plain"]
            a = np.frombuffer(bytes.fromhex("".join(p["cells"])), dtype=p["type"]).reshape(tuple(p["shape"])).copy()
            res = nu.split_fields(a, fields=None if c["names"] is None else names_py(c["names"]), getnames=c["getnames"])
            if not isinstance(res, tuple) or not all(isinstance(v, np.ndarray) for v in res):
                raise AssertionError("split_fields returned %r" % (type(res),))
            n = int(a.size)
            views = []
            for v in res:
                raw = np.ascontiguousarray(v).tobytes()
                cs_ = len(raw) // n if n else 0
                views.append({"type": v.dtype.str, "shape": [int(s) for s in v.shape],
                              "cells": [raw[i * cs_:(i + 1) * cs_].hex() for i in range(n)]})
            return views
        return run_ok(f)

    def _args(self, c):
        return "%s %s" % (cview(c["plain"]), "None" if c["names"] is None else "(Some %s)" % cnames(c["names"]))

    def term(self, c, out):
        return "v_split_plain %s %s" % (self._args(c), cres(out, lambda vs: "[%s]" % "; ".join(cview(v) for v in vs)))

    def show(self, c):
        return "split_plain " + self._args(c)

    def nontrivial(self, c, out):
        return False


def _swap_type(t):
    o, k, n = tparse(t)
    return {"<": ">", ">": "<"}.get(o, o) + t[1:]


def _swap_cells(f):
    """the same VALUES under the opposite byte order"""
    o, k, n = tparse(f["type"])
    if o == "|":
        return dict(f)
    unit = 4 if k == "U" else (n // 2 if k == "c" else n)
    cells = []
    for c in f["cells"]:
        b = bytes.fromhex(c)
        cells.append(b"".join(b[i:i + unit][::-1] for i in range(0, len(b), unit)).hex())
    return dict(f, type=_swap_type(f["type"]), cells=cells)


class Compare(Entry):
    name = "compare_arrays"

    def cases(self, ctx, round=0):
        r = ctx.rng
        cs = []
        for _ in range(ctx.n(200, 1900)):
            a1 = gen_array(r, ctx, mode=r.choice(["values", "finite", "finite"]))
            kind = r.choice(["copy", "copy", "alias", "byteswapped", "one-item", "one-item", "fields-differ", "reordered",
                             "shape-differs", "sub-differs", "neg-zero", "nan", "wider-string", "size-differs",
                             "only-in-1", "only-in-2"])
            if kind in ("only-in-1", "only-in-2"):
                # equal data on the common fields; ONLY the name sets differ (one direction at a time)
                a1 = gen_array(r, ctx, mode="finite", nf=r.choice([2, 3, 4]))
            a2 = {"shape": list(a1["shape"]), "layout": r.choice(["C", "strided", "reversed", "readonly"]),
                  "fields": [dict(f, cells=list(f["cells"])) for f in a1["fields"]]}
            n = nelem(a1["shape"])
            if kind == "byteswapped":
                a2["fields"] = [_swap_cells(f) if r.random() < 0.7 else f for f in a2["fields"]]
            elif kind == "one-item" and n:
                f = r.choice(a2["fields"])
                i = r.randrange(n)
                f["cells"][i] = gen_cell(r, f["type"], f["sub"], "finite").hex()
            elif kind == "fields-differ":
                if len(a2["fields"]) > 1 and r.random() < 0.6:
                    a2["fields"].pop(r.randrange(len(a2["fields"])))
                if r.random() < 0.6:
                    a2["fields"] += gen_fields(r, a2["shape"], 1, avoid=[f["name"] for f in a1["fields"]], mode="finite")
            elif kind == "only-in-1":
                a2["fields"].pop(r.randrange(len(a2["fields"])))
            elif kind == "only-in-2":
                a2["fields"].insert(r.randrange(len(a2["fields"]) + 1),
                                    gen_fields(r, a2["shape"], 1, avoid=[f["name"] for f in a1["fields"]], mode="finite")[0])
            elif kind == "reordered":
                r.shuffle(a2["fields"])
            elif kind == "shape-differs":
                a2["shape"] = r.choice([[n], [1, n], [n, 1]])
            elif kind == "size-differs":
                a2 = gen_array(r, ctx, shape=r.choice([s for s in SHAPES_1D + SHAPES_OTHER if nelem(s) != n]),
                               names=[f["name"] for f in a1["fields"]], nf=len(a1["fields"]), mode="finite")
                for f, g in zip(a1["fields"], a2["fields"]):
                    cell0 = g["cells"]
                    g.update(type=f["type"], sub=f["sub"])
                    g["cells"] = [gen_cell(r, f["type"], f["sub"], "finite").hex() for _ in cell0]
            elif kind == "sub-differs":
                f = r.choice(a2["fields"])
                f["sub"] = r.choice([s for s in SUBS if s != f["sub"]])
                f["cells"] = [gen_cell(r, f["type"], f["sub"], "finite").hex() for _ in range(n)]
            elif kind in ("neg-zero", "nan"):
                fl = [f for f in a2["fields"] if f["type"][1] in "fc"]
                if fl and n:
                    import numpy as np
                    f = r.choice(fl)
                    g = next(x for x in a1["fields"] if x["name"] == f["name"])
                    k = 1
                    for s in f["sub"]:
                        k *= s
                    i = r.randrange(n)
                    if kind == "neg-zero":
                        z1 = np.array(0.0, dtype=f["type"]).tobytes() * k
                        z2 = np.array(-0.0 if f["type"][1] == "f" else complex(-0.0, 0.0), dtype=f["type"]).tobytes() * k
                    else:
                        z1 = z2 = np.array(float("nan"), dtype=f["type"]).tobytes() * k
                    g["cells"][i] = z1.hex()
                    f["cells"][i] = z2.hex()
            elif kind == "wider-string":
                fl = [f for f in a2["fields"] if f["type"][1] in "SU"]
                if fl:
                    f = r.choice(fl)
                    o, k, m = tparse(f["type"])
                    extra = r.randrange(1, 3)
                    unit = 4 if k == "U" else 1
                    per = m * unit
                    cells = []
                    for c in f["cells"]:
                        b = bytes.fromhex(c)
                        cells.append(b"".join(b[i:i + per] + b"\0" * (extra * unit) for i in range(0, len(b), per)).hex())
                    f["cells"] = cells
                    f["type"] = "%s%s%d" % (o, k, m + extra)
            im = r.random() < 0.5
            if kind in ("only-in-1", "only-in-2"):
                im = r.random() < 0.25
            cs.append({"a1": a1, "a2": a2, "ignore_missing": im, "verbose": r.random() < 0.2,
                       "omit_kw": im and r.random() < 0.3,      # ignore_missing=True is the documented default
                       "alias": kind == "alias",               # compare_arrays(a, a): one object as both arguments
                       "family": "%s/%dd" % (kind, len(a1["shape"]))})
        for _ in range(n_long(ctx)):
            a1 = gen_long_array(r, ctx)
            n = a1["shape"][0]
            a2 = {"shape": [n], "layout": r.choice(["C", "strided", "reversed", "readonly"]),
                  "fields": [dict(f, cells=list(f["cells"])) for f in a1["fields"]]}
            kind = r.choice(["copy", "last-item", "block-edge-item"])
            if kind != "copy":
                f = r.choice(a2["fields"])
                i = n - 1 if kind == "last-item" else r.choice([x for x in (255, 256, 511, 512, 1023, 1024, 4095, 4096, 8191, 8192) if x < n] or [n - 1])
                b = bytearray(bytes.fromhex(f["cells"][i]))
                b[0] ^= 0x01 if f["type"][1] != "f" else 0x00
                if f["type"][1] == "f":          # another finite value
                    import numpy as np
                    k = len(b)
                    b = bytearray(np.array([777.0] * (k // isize(f["type"])), dtype=f["type"]).tobytes())
                f["cells"][i] = bytes(b).hex()
            cs.append({"a1": a1, "a2": a2, "ignore_missing": True, "verbose": False, "omit_kw": False,
                       "family": "long-%s/%d" % (kind, n)})
        return add_history(r, ctx, cs)

    def impl1(self, c):
        import esutil.numpy_util as nu

        def f():
            saved = nu.stdout
            nu.stdout = io.StringIO()          # verbose=True only writes text; keep the check's output clean
            try:
                a1, a2 = to_np(c["a1"]), to_np(c["a2"])
                if c.get("alias"):
                    a2 = a1
                if c.get("omit_kw"):
                    res = nu.compare_arrays(a1, a2)
                else:
                    res = nu.compare_arrays(a1, a2, verbose=c["verbose"], ignore_missing=c["ignore_missing"])
                self._log = nu.stdout.getvalue()
                untouched(a1, c["a1"], "arr1")
                untouched(a2, c["a2"], "arr2")
            finally:
                nu.stdout = saved
            if res is not True and res is not False:
                raise AssertionError("compare_arrays returned %r" % (res,))
            return res
        return run_ok(f)

    def _args(self, c):
        return "%s %s %s" % (carray(c["a1"]), carray(c["a2"]), cbool(c["ignore_missing"]))

    def term(self, c, out):
        return "v_compare %s %s" % (self._args(c), cres(out, cbool))

    def show(self, c):
        return "compare_arrays " + self._args(c)

    def nontrivial(self, c, out):
        return out[0] == "ok" and len(c["a1"]["fields"]) >= 2 and nelem(c["a1"]["shape"]) >= 2


_EV = re.compile(
    r"(?P<names>    Matching names\.{8})"
    r"|(?P<only>\n        Field '(?P<on>[^']*)' found only in array(?P<ow>[12]))"
    r"|(?P<nocheck>    Not checking that all fields names match\n)"
    r"|(?P<field>    testing field: '(?P<fn>[^']*)'\n        shape\.{11})"
    r"|(?P<shapediff>shapes differ\n)"
    r"|(?P<elemdiff>\n        (?P<ek>\d+) elements in field '(?P<en>[^']*)' differ\n)"
    r"|(?P<elems>        elements\.{8})"
    r"|(?P<passed>All tests passed\n)"
    r"|(?P<diffs>(?P<dk>\d+) differences found\n)"
    r"|(?P<ok>OK\n?)|(?P<nl>\n)")


def parse_report(txt):
    """stdout of compare_arrays(verbose=True) -> events of Verbose.v (fails when a character is not accounted for)"""
    ev, pos, state = [], 0, None
    for m in _EV.finditer(txt):
        if m.start() != pos:
            raise AssertionError("unexpected text in the report: %r" % txt[pos:m.start()][:60])
        pos = m.end()
        k = m.lastgroup if m.lastgroup in ("names", "only", "nocheck", "field", "shapediff", "elemdiff", "elems", "passed",
                                           "diffs", "ok", "nl") else \
            [g for g in ("names", "only", "nocheck", "field", "shapediff", "elemdiff", "elems", "passed", "diffs", "ok", "nl")
             if m.group(g) is not None][0]
        if k == "names":
            ev.append("ENames"); state = "names"
        elif k == "only":
            ev.append("(EOnly%s %s)" % (m.group("ow"), cstr(m.group("on"))))
        elif k == "nocheck":
            ev.append("ENoNameCheck")
        elif k == "field":
            ev.append("(EField %s)" % cstr(m.group("fn"))); state = "shape"
        elif k == "shapediff":
            ev.append("EShapeDiff"); state = None
        elif k == "elems":
            if state != "elems":
                raise AssertionError("'elements' line out of place")
        elif k == "elemdiff":
            ev.append("(EElemDiff %s %s)" % (cz(int(m.group("ek"))), cstr(m.group("en")))); state = None
        elif k == "passed":
            ev.append("EPassed")
        elif k == "diffs":
            ev.append("(EDiffs %s)" % cz(int(m.group("dk"))))
        elif k == "ok":
            if state == "names":
                ev.append("ENamesOK"); state = "names-end" if m.group("ok") == "OK" else None
            elif state == "shape":
                ev.append("EShapeOK"); state = "elems"
            elif state == "elems":
                ev.append("EElemOK"); state = None
            else:
                raise AssertionError("'OK' out of place")
        elif k == "nl":
            if state not in ("names", "names-end"):
                raise AssertionError("newline out of place")
            state = None
    if pos != len(txt):
        raise AssertionError("unexpected text at the end of the report: %r" % txt[pos:][:60])
    return ev


class CompareVerbose(Compare):
    """compare_arrays(verbose=True): verdict and the report written to stdout against Verbose.compare_arrays_v"""
    name = "compare_arrays_verbose"

    def cases(self, ctx, round=0):
        keep = []
        for c in Compare.cases(self, ctx, round):
            if str(c.get("family", "")).startswith(("long", "seq:")) or len(keep) >= ctx.n(60, 700):
                continue
            c = dict(c, verbose=True, omit_kw=False, family="verbose:" + str(c.get("family")))
            keep.append(c)
        return keep

    def impl1(self, c):
        out = Compare.impl1(self, c)
        if out[0] != "ok":
            return out
        return run_ok(lambda: {"res": out[1], "log": parse_report(self._log)})

    def term(self, c, out):
        return "v_compare_v %s %s" % (self._args(c), cres(out, lambda o: "(%s, [%s])" % (cbool(o["res"]), "; ".join(o["log"]))))

    def show(self, c):
        return "compare_arrays_v %s %s true %s" % (carray(c["a1"]), carray(c["a2"]), cbool(c["ignore_missing"]))


ENTRIES = [Extract(), Remove(), Reorder(), Add(), Combine(), Copy(), CopyByName(), Split(), SplitPlain(), Compare(),
           CompareVerbose()]
for _e in ENTRIES:
    type(_e).impl = _impl_with_history
    type(_e).classify = _classify

TRUSTED = [
    "Coq 8.16.1 kernel (coqc, vm_compute; no native_compute); all C07 theorems are closed under the global context (no axioms)",
    "hand-written model C07/Model.v of numpy_util.py:643-1106 (extract/remove/add/reorder/combine/copy_fields/"
    "copy_fields_by_name/split_fields/compare_arrays); tied to the working tree by the correspondence run on every "
    "check (differential testing on descr, shape, per-field bytes and error class; bounded by the generators)",
    "modelled, not verified: numpy's np.zeros(shape, descr) incl. its duplicate-name rejection, dtype.descr of packed "
    "dtypes, same-type field assignment as a byte copy with numpy's assignment broadcasting rule, np.dtype() "
    "normalisation of an added descriptor (done by numpy in the harness), conversion of a default value to the "
    "field's element type (done by numpy in the harness; numpy casting rules are not modelled), numpy's == on items "
    "(IEEE NaN / signed zero, NUL-padded strings, byte order); CPython isinstance dispatch",
    "not covered: element types outside int/uint/float(2,4,8)/complex(8,16)/bool/bytes/unicode, nested or padded "
    "(non-packed) dtypes, non-ASCII field names, copying between fields of the same name whose types differ in more than "
    "the byte order (numpy cast; the byte-order-only conversion IS modelled, Swap.v), a tuple given as the value of "
    "exactly one field",
    "translator harness/props/c07_translate.py (python ast -> C07/Gen.v, fail-closed): trusted to print what the source "
    "says about the isinstance class tuples, guard operators, filter polarity, allocator, output dimensions, keyword "
    "defaults and exception classes; Skel.v/Tie.v (proved) connect these values to Model.v; it also refuses (fail-closed) "
    "any tree whose loops in the eight functions, or whose bodies of copy_fields / copy_fields_by_name / compare_arrays "
    "(messages, docstrings and stdout reporting blanked) are not literally the ones Model.v transcribes; the transcription "
    "itself is by hand",
    "observed by the harness, not in Coq: 'yields a NEW array' (np.shares_memory monitor; combine_fields of a one-element "
    "list returns that array itself and is not demanded to be a copy) and 'zero-filled' (buffers of the output's size filled "
    "with 0xAB are released before every allocating call, so an uninitialised output shows)",
    "observed by the harness as the run-time side of the frame theorems (C07_store_frame): after every call each argument "
    "that the call may not write holds exactly the bytes it held before; compare_arrays(verbose=True): the text written "
    "to stdout is parsed into the events of Verbose.v (every character accounted for) and compared with the model",
    "python harness (harness/props/C07.py), literal printers (hex bytes, type strings), coqc evaluating Exec.v verdict terms",
]


def run(ctx, replay=None):
    ctx.rule = ("corpus + adversarial families + seeded random cases per entry point; every case is run on the real esutil "
                "(scratch build of the working tree) and inside Coq (model = implementation on (descr, shape, per-field bytes, "
                "error class)?  verified checker of the property on the implementation's output).  non-trivial: extract/"
                "remove/reorder/split: >= 3 fields incl. a sub-array or big-endian field and a selection that is a proper "
                "non-prefix subset; add: accepted, >= 2 old fields, defaults or a sub-array/big-endian new field; combine: >= 2 "
                "arrays and (rejected, or not 1-d, or a sub-array/big-endian field); copy_fields: accepted with some but not all "
                "fields common and >= 2 elements; copy_fields_by_name: some but not all fields named; compare_arrays: >= 2 "
                "fields and >= 2 elements; split_fields on a field-less array: never counted (outside the statement).  inputs "
                "also as F-ordered, strided and recarray views; strict= / ignore_missing= left out in part of the calls "
                "(documented defaults).  sequence dimension for every entry point (families seq:*): a judged call is preceded IN THE "
                "SAME PROCESS by calls with equal names / shape / record size but other element types or byte orders (both "
                "directions), equal types but other names, the same array or name-list OBJECT changed in place, an equal new "
                "object, the other value of every keyword; the pure model is the history-free oracle.  missing names that are "
                "over-long extensions or proper prefixes of existing names.  distinct by canonical JSON.")
    ctx.trusted = TRUSTED
    # 1. structural parameters of the nine functions from the source of the tree under check
    try:
        params, changed = c07_translate.regenerate(ctx.impl, core.COQDIR)
        ctx.obligation("C07/Gen.v regenerated from esutil/numpy_util.py (isinstance dispatches, guards, filter "
                       "polarity, allocator, output dimensions, defaults, exception classes; loop / body fingerprints match the model)%s"
                       % (" [changed]" if changed else ""), True)
    except c07_translate.TranslateError as e:
        c07_translate.write_reference(core.COQDIR)     # never keep the parameters of a tree checked earlier
        ctx.obligation("C07/Gen.v regenerated from esutil/numpy_util.py", False, str(e))
        ctx.violation("translation of the structural parameters of the field operations failed (fail-closed): %s" % e,
                      {"kind": "translation", "error": str(e),
                       "no_longer_checks": "tie of C07/Gen.v + C07_source_parameters/allocation/defaults_and_raises "
                                           "to esutil/numpy_util.py"}, found_input=False)
    # 1b. statement-level translation of four function bodies (GenCode.v); C07_code_is_model is re-checked against it
    try:
        changed2 = c07_pygen.regenerate(ctx.impl, core.COQDIR)
        ctx.obligation("C07/GenCode.v regenerated from esutil/numpy_util.py (bodies of copy_fields, copy_fields_by_name, "
                       "extract_fields, remove_fields translated statement by statement)%s" % (" [changed]" if changed2 else ""),
                       True)
    except c07_translate.TranslateError as e:
        c07_pygen.restore_good(core.COQDIR)           # last good translation: the proofs and the model stay available
        ctx.obligation("C07/GenCode.v regenerated from esutil/numpy_util.py", False, str(e))
        ctx.violation("statement-level translation of the field operations failed (fail-closed): %s" % e,
                      {"kind": "translation", "error": str(e),
                       "no_longer_checks": "tie C07_code_is_model (GenCode.v = Model.v) to esutil/numpy_util.py"},
                      found_input=False)
    # 2. theorems (C07_source_* are re-checked against the regenerated Gen.v)
    built = core.proof_step(ctx, "C07", core.ALLOW_DISCRETE)
    if not built:
        try:
            ctx.notes.append("regenerated parameters that differ from the modelled ones: %s"
                             % ", ".join(c07_translate.differences(params)))
        except NameError:
            pass
        # the model and the checkers do not depend on Gen.v: keep looking for a failing input
        ok, _log = core.coq_make(["theories/C07/Exec.vo"])
        if not ok:
            return
    if built and not ctx.quick() and replay is None:
        # independent re-check of the compiled proofs by the stand-alone checker
        cmd = ["timeout", "900", "coqchk", "-silent", "-o", "-Q", os.path.join(core.COQDIR, "theories"), "EsVerif",
               "EsVerif.C07.Properties"]
        r = subprocess.run(cmd, stdout=subprocess.PIPE, stderr=subprocess.STDOUT, text=True, cwd=core.COQDIR)
        txt = r.stdout
        ok = (r.returncode == 0 and "Axioms: <none>" in txt and "type-in-type: <none>" in txt
              and "unsafe (co)fixpoints: <none>" in txt and "positivity is assumed: <none>" in txt)
        ctx.checker_cmds.append("coqchk -silent -o -Q coq/theories EsVerif EsVerif.C07.Properties")
        ctx.obligation("coqchk -o EsVerif.C07.Properties: no axioms, nothing assumed", ok, txt[-600:])
        if not ok:
            ctx.violation("coqchk does not accept C07/Properties.vo as closed", {"kind": "coqchk", "log_tail": txt[-2000:]},
                          found_input=False)
    differential(ctx, PRE, ENTRIES, replay)

"""Fresh-process helper for C16 sequences: imports esutil, calls nothing, then answers one JSON request per line by
FORKING: the child builds the array from the given state, makes the one call and prints its canonical output.  Every
answer therefore comes from a process in which no other byte-order call was ever made (module-level caches empty)."""
import json
import os
import sys


def main():
    from harness.props import C16
    import esutil.numpy_util  # noqa: F401  (imported, never called, before forking)
    import esutil.recfile.Util  # noqa: F401
    for line in sys.stdin:
        line = line.strip()
        if not line:
            continue
        req = json.loads(line)
        rd, wr = os.pipe()
        pid = os.fork()
        if pid == 0:
            os.close(rd)
            try:
                out = C16.seq_step_guarded([C16.build(req["array"])], req["step"])
                txt = json.dumps(out)
            except BaseException as e:  # noqa
                txt = json.dumps({"err": "helper", "msg": "%s: %s" % (type(e).__name__, e)})
            with os.fdopen(wr, "w") as f:
                f.write(txt)
            os._exit(0)
        os.close(wr)
        with os.fdopen(rd) as f:
            txt = f.read()
        os.waitpid(pid, 0)
        sys.stdout.write((txt or json.dumps({"err": "helper", "msg": "no answer"})) + "\n")
        sys.stdout.flush()


if __name__ == "__main__":
    main()

"""T-const for C07: read the structural parameters of the field operations out of the SOURCE of
esutil/numpy_util.py of the tree under check (python ast) and print coq/theories/C07/Gen.v.

What is read (everything else of the functions is the hand model C07/Model.v, tied by correspondence):
  * the class tuple of every `if not isinstance(x, (...)): x = [x]` dispatch (and the positive
    `if isinstance(fields, str): fields = [fields]` of split_fields)
  * the comparison operator of every guard in front of a `raise` / early `return`
  * the polarity (`in` / `not in`) of the descr filter loops of extract_fields / remove_fields
  * the numpy allocator of the output array and which attribute of the input dimensions it
  * the default values of the keyword arguments, and the exception class of every `raise`
  * (fingerprint only, no parameter) the text of every loop of the eight functions and the whole bodies of
    copy_fields / copy_fields_by_name (raise messages and docstrings blanked) and of compare_arrays (its
    stdout.write reporting removed) must be the modelled ones

Fails closed (TranslateError) when a function no longer has the expected shape; the file is
rewritten only when its text changes (atomic rename)."""
import ast
import os


class TranslateError(Exception):
    pass


FUNCS = ["combine_fields", "copy_fields", "extract_fields", "remove_fields", "add_fields", "reorder_fields",
         "copy_fields_by_name", "split_fields", "compare_arrays"]
CLASS_OF = {"tuple": "tuple", "list": "list", "np.ndarray": "ndarray", "numpy.ndarray": "ndarray", "str": "str"}
CMP_OF = {ast.Eq: "CEq", ast.NotEq: "CNe", ast.Lt: "CLt", ast.LtE: "CLe", ast.Gt: "CGt", ast.GtE: "CGe"}
ALLOC = {"zeros": "AZeros", "empty": "AEmpty"}
ALLOC_LIKE = ("zeros", "empty", "ones", "full", "ndarray", "zeros_like", "empty_like", "ones_like", "full_like",
              "recarray")


def _func(tree, name):
    fs = [n for n in tree.body if isinstance(n, ast.FunctionDef) and n.name == name]
    if len(fs) != 1:
        raise TranslateError("expected exactly one top-level def %s, found %d" % (name, len(fs)))
    return fs[0]


def u(node):
    return ast.unparse(node)


def _classes(fn, node):
    elts = node.elts if isinstance(node, ast.Tuple) else [node]
    out = set()
    for e in elts:
        k = CLASS_OF.get(u(e))
        if k is None:
            raise TranslateError("%s: isinstance class outside (tuple, list, np.ndarray, str): %s" % (fn.name, u(e)))
        out.add(k)
    return out


def wrap_dispatch(fn, var, positive=False):
    """the unique `if [not] isinstance(var, CLASSES): var = [var]` of fn -> set of class names"""
    hits = []
    for n in ast.walk(fn):
        if not isinstance(n, ast.If):
            continue
        t = n.test
        neg = isinstance(t, ast.UnaryOp) and isinstance(t.op, ast.Not)
        if neg:
            t = t.operand
        if not (isinstance(t, ast.Call) and u(t.func) == "isinstance" and len(t.args) == 2 and not t.keywords
                and u(t.args[0]) == var):
            continue
        if len(n.body) != 1 or u(n.body[0]) != "%s = [%s]" % (var, var) or n.orelse:
            raise TranslateError("%s: isinstance(%s, ...) test whose body is not `%s = [%s]`" % (fn.name, var, var, var))
        if neg == positive:
            raise TranslateError("%s: isinstance(%s, ...) dispatch has the wrong polarity" % (fn.name, var))
        hits.append(_classes(fn, t.args[1]))
    if len(hits) != 1:
        raise TranslateError("%s: expected exactly one isinstance dispatch on %s, found %d" % (fn.name, var, len(hits)))
    # the variable must not be re-bound anywhere else
    binds = [n for n in ast.walk(fn) if isinstance(n, (ast.Assign, ast.AugAssign, ast.AnnAssign))
             and any(u(t) == var for t in (n.targets if isinstance(n, ast.Assign) else [n.target]))]
    extra = [b for b in binds if u(b) != "%s = [%s]" % (var, var) and not (fn.name == "split_fields" and u(b) == "fields = allfields")]
    if extra:
        raise TranslateError("%s: %s is re-bound: %s" % (fn.name, var, u(extra[0])))
    return hits[0]


def guards(fn):
    """[(left text, op enum, right text, 'raise' class | 'return')] for every `if A op B:` whose body ends the
    call, in source order; every raise of fn must sit directly in such an if (or in the listed exceptions)"""
    out = []
    for n in ast.walk(fn):
        if isinstance(n, ast.If) and n.body and isinstance(n.body[-1], (ast.Raise, ast.Return)) and len(n.body) == 1:
            t = n.test
            if isinstance(t, ast.Compare) and len(t.ops) == 1 and type(t.ops[0]) in CMP_OF:
                last = n.body[-1]
                what = "return" if isinstance(last, ast.Return) else _exc(fn, last)
                out.append((n.lineno, u(t.left), CMP_OF[type(t.ops[0])], u(t.comparators[0]), what))
    return [g[1:] for g in sorted(out)]


def _exc(fn, r):
    if r.exc is None or not isinstance(r.exc, ast.Call):
        raise TranslateError("%s: raise without an exception constructor call" % fn.name)
    return u(r.exc.func)


def raises(fn):
    rs = sorted((n.lineno, _exc(fn, n)) for n in ast.walk(fn) if isinstance(n, ast.Raise))
    return [x for _, x in rs]


def the_guard(fn, left, right, what):
    gs = [g for g in guards(fn) if g[0] == left and g[2] == right]
    if len(gs) != 1:
        raise TranslateError("%s: expected exactly one guard `if %s <op> %s: ...`, found %d" % (fn.name, left, right, len(gs)))
    if gs[0][3] != what:
        raise TranslateError("%s: guard `%s .. %s` ends in %s, expected %s" % (fn.name, left, right, gs[0][3], what))
    return gs[0][1]


def filter_loop(fn, names_var):
    """for d in arr.dtype.descr: name = d[0]; if name [not] in NAMES: new_descr.append(d)  -> True for `in`"""
    hits = []
    for n in ast.walk(fn):
        if not isinstance(n, ast.For) or n.orelse or u(n.target) != "d":
            continue
        it = u(n.iter)
        if it == "descr":
            if sum(1 for a in ast.walk(fn) if isinstance(a, ast.Assign) and u(a) == "descr = arr.dtype.descr") != 1:
                continue
        elif it != "arr.dtype.descr":
            continue
        b = n.body
        if len(b) != 2 or u(b[0]) != "name = d[0]" or not isinstance(b[1], ast.If) or b[1].orelse:
            raise TranslateError("%s: loop over the descr is not the expected filter loop" % fn.name)
        t = b[1].test
        if not (isinstance(t, ast.Compare) and len(t.ops) == 1 and isinstance(t.ops[0], (ast.In, ast.NotIn))
                and u(t.left) == "name" and u(t.comparators[0]) == names_var
                and len(b[1].body) == 1 and u(b[1].body[0]) == "new_descr.append(d)"):
            raise TranslateError("%s: loop over the descr is not the expected filter loop" % fn.name)
        hits.append(isinstance(t.ops[0], ast.In))
    if len(hits) != 1:
        raise TranslateError("%s: expected exactly one filter loop over arr.dtype.descr, found %d" % (fn.name, len(hits)))
    inits = [a for a in ast.walk(fn) if isinstance(a, (ast.Assign, ast.AugAssign)) and "new_descr" in
             [u(t) for t in (a.targets if isinstance(a, ast.Assign) else [a.target])]]
    if [u(a) for a in inits] != ["new_descr = []"]:
        raise TranslateError("%s: new_descr is not built by the filter loop alone" % fn.name)
    return hits[0]


def allocation(fn, out_var, dtype_var):
    """the unique `OUT = np.<alloc>(DIMS, dtype=DTYPE)` -> (allocfn enum, dims enum)"""
    calls = [n for n in ast.walk(fn) if isinstance(n, ast.Call) and isinstance(n.func, ast.Attribute)
             and u(n.func.value) in ("np", "numpy") and n.func.attr in ALLOC_LIKE]
    if len(calls) != 1:
        raise TranslateError("%s: expected exactly one numpy allocation, found %d" % (fn.name, len(calls)))
    c = calls[0]
    if not (len(c.args) == 1 and isinstance(c.args[0], ast.Name) and len(c.keywords) == 1
            and c.keywords[0].arg == "dtype" and u(c.keywords[0].value) == dtype_var):
        raise TranslateError("%s: allocation is not np.<fn>(<name>, dtype=%s): %s" % (fn.name, dtype_var, u(c)))
    asg = [n for n in ast.walk(fn) if isinstance(n, ast.Assign) and n.value is c]
    if len(asg) != 1 or u(asg[0].targets[0]) != out_var:
        raise TranslateError("%s: the allocation is not assigned to %s" % (fn.name, out_var))
    dv = c.args[0].id
    src = [u(n.value) for n in ast.walk(fn) if isinstance(n, ast.Assign) and [u(t) for t in n.targets] == [dv]]
    if len(src) != 1:
        raise TranslateError("%s: %s is not assigned exactly once" % (fn.name, dv))
    dims = {"arr.shape": "UseShape", "arrlist[0].shape": "UseShape",
            "arr.size": "UseSize", "arrlist[0].size": "UseSize"}.get(src[0])
    if dims is None:
        raise TranslateError("%s: output dimensions come from %s" % (fn.name, src[0]))
    return ALLOC.get(c.func.attr, "AOther"), dims


def defaults(fn):
    a = fn.args
    if a.vararg or a.kwarg or a.kwonlyargs or a.posonlyargs:
        raise TranslateError("%s: unexpected signature" % fn.name)
    names = [x.arg for x in a.args]
    n = len(a.defaults)
    return names, dict(zip(names[len(names) - n:], [u(d) for d in a.defaults]))


def sig(fn, names, dflt):
    got = defaults(fn)
    if got[0] != names or set(got[1]) != set(dflt):
        raise TranslateError("%s: signature is %s with defaults %s" % (fn.name, got[0], got[1]))
    for k, allowed in dflt.items():
        if got[1][k] not in allowed:
            raise TranslateError("%s: default of %s is %s" % (fn.name, k, got[1][k]))
    return got[1]


class _Blank(ast.NodeTransformer):
    """drop what may change harmlessly: the message of a raise, docstrings"""

    def visit_Raise(self, node):
        if isinstance(node.exc, ast.Call):
            node = ast.Raise(exc=ast.Call(func=node.exc.func, args=[], keywords=[]), cause=None)
        return node

    def visit_Expr(self, node):
        if isinstance(node.value, ast.Constant) and isinstance(node.value.value, str):
            return None
        return node


def _norm(node):
    import copy
    r = _Blank().visit(copy.deepcopy(node))
    return "" if r is None else u(ast.fix_missing_locations(r))


# The loops of the anchored functions (raise messages blanked), in source order, and the complete bodies of the
# two small copy functions: what the hand model Model.v transcribes.  Any other text fails closed.
LOOPS = {
    "combine_fields": ["for arr in arrlist:\n    if arr.size != num:\n        raise ValueError()\n    descr += arr.dtype.descr",
                       "for arr in arrlist:\n    copy_fields(arr, new_array)"],
    "copy_fields": ["for name in names1:\n    if name in names2:\n        arr2[name] = arr1[name]"],
    "extract_fields": ["for name in keepnames:\n    if name not in arrnames:\n        raise ValueError()",
                       "for d in arr.dtype.descr:\n    name = d[0]\n    if name in keepnames:\n        new_descr.append(d)"],
    "remove_fields": ["for d in descr:\n    name = d[0]\n    if name not in rmnames:\n        new_descr.append(d)"],
    "add_fields": ["for d in add_descr:\n    name = d[0]\n    if old_names.count(name) == 0:\n        new_descr.append(d)\n"
                   "    else:\n        raise ValueError()"],
    "reorder_fields": ["for name in ordered_names:\n    w, = np.where(original_names == name)\n    if w.size != 0:\n"
                       "        new_names.append(name)\n        new_descr.append(original_descr[w[0]])\n    elif strict:\n"
                       "        raise ValueError()",
                       "for i in range(original_names.size):\n    name = original_names[i]\n    if name not in new_names:\n"
                       "        new_names.append(name)\n        new_descr.append(original_descr[i])"],
    "copy_fields_by_name": ["for name, val in zip(names, vals):\n    if name in arrnames:\n        arr[name] = val"],
    "split_fields": ["for field in fields:\n    if field not in allfields:\n        raise ValueError()\n"
                     "    outlist.append(data[field])"],
    "compare_arrays": None,       # (only its signature, defaults and raises are read)
}
BODIES = {
    "copy_fields": "if arr1.size {op} arr2.size:\n    raise ValueError()\nnames1 = arr1.dtype.names\nnames2 = arr2.dtype.names\n"
                   "for name in names1:\n    if name in names2:\n        arr2[name] = arr1[name]",
    "copy_fields_by_name": "if not isinstance(names, {t1}):\n    names = [names]\nif not isinstance(vals, {t2}):\n    vals = [vals]\n"
                           "if len(names) {op} len(vals):\n    raise ValueError()\narrnames = list(arr.dtype.names)\n"
                           "for name, val in zip(names, vals):\n    if name in arrnames:\n        arr[name] = val",
}


class _Quiet(ast.NodeTransformer):
    """compare_arrays without its reporting: docstring, stdout.write(...) statements, and the ifs left empty"""

    def visit_Expr(self, node):
        v = node.value
        if isinstance(v, ast.Constant) and isinstance(v.value, str):
            return None
        if isinstance(v, ast.Call) and u(v.func) == "stdout.write":
            return None
        return node

    def visit_If(self, node):
        self.generic_visit(node)
        if not node.body and not node.orelse:
            return None
        if not node.body:
            node.body = [ast.Pass()]
        return node


COMPARE_BODY = """nfail = 0
if not ignore_missing:
    for n in arr1.dtype.names:
        if n not in arr2.dtype.names:
            nfail += 1
    for n in arr2.dtype.names:
        if n not in arr1.dtype.names:
            nfail += 1
for n in arr1.dtype.names:
    if n in arr2.dtype.names:
        if arr2[n].shape != arr1[n].shape:
            nfail += 1
        else:
            w, = np.where(arr1[n].ravel() != arr2[n].ravel())
            if w.size > 0:
                nfail += 1
if nfail == 0:
    return True
else:
    return False"""


def fingerprints(f):
    import copy
    body = [_Quiet().visit(copy.deepcopy(st)) for st in f["compare_arrays"].body]
    txt = "\n".join(u(ast.fix_missing_locations(b)) for b in body if b is not None)
    if txt != COMPARE_BODY:
        raise TranslateError("compare_arrays: body (without its stdout.write reporting) differs from the modelled one")
    for name, want in LOOPS.items():
        if want is None:
            continue
        got = [t for _, t in sorted((n.lineno, _norm(n)) for n in ast.walk(f[name]) if isinstance(n, (ast.For, ast.While)))]
        if got != want:
            bad = [g for g in got if g not in want] or ["(a loop is missing)"]
            raise TranslateError("%s: loops differ from the modelled ones: %s" % (name, bad[0].replace("\n", " / ")[:200]))
    for name, pat in BODIES.items():
        import re
        body = "\n".join(x for x in (_norm(st) for st in f[name].body) if x)
        rx = re.escape(pat).replace(re.escape("{op}"), r"(==|!=|<|<=|>|>=)").replace(re.escape("{t1}"), r".+?").replace(
            re.escape("{t2}"), r".+?")
        if not re.fullmatch(rx, body):
            raise TranslateError("%s: body differs from the modelled one" % name)


def extract(src):
    tree = ast.parse(src)
    f = dict((n, _func(tree, n)) for n in FUNCS)
    fingerprints(f)
    p = {}
    # isinstance dispatch
    p["extract_forms"] = wrap_dispatch(f["extract_fields"], "keepnames")
    p["remove_forms"] = wrap_dispatch(f["remove_fields"], "rmnames")
    p["reorder_forms"] = wrap_dispatch(f["reorder_fields"], "ordered_names")
    p["cfbn_names_forms"] = wrap_dispatch(f["copy_fields_by_name"], "names")
    p["cfbn_vals_forms"] = wrap_dispatch(f["copy_fields_by_name"], "vals")
    p["add_defaults_forms"] = wrap_dispatch(f["add_fields"], "defaults")
    p["split_forms"] = wrap_dispatch(f["split_fields"], "fields", positive=True)
    # guards
    p["copy_size_guard"] = the_guard(f["copy_fields"], "arr1.size", "arr2.size", "ValueError")
    p["extract_empty_guard"] = the_guard(f["extract_fields"], "len(new_descr)", "0", "ValueError")
    p["remove_empty_guard"] = the_guard(f["remove_fields"], "len(new_descr)", "0", "ValueError")
    p["cfbn_len_guard"] = the_guard(f["copy_fields_by_name"], "len(names)", "len(vals)", "ValueError")
    p["add_defaults_guard"] = the_guard(f["add_fields"], "len(defaults)", "len(add_descr)", "ValueError")
    p["combine_none_guard"] = the_guard(f["combine_fields"], "len(arrlist)", "0", "ValueError")
    p["combine_one_guard"] = the_guard(f["combine_fields"], "len(arrlist)", "1", "return")
    p["combine_size_guard"] = the_guard(f["combine_fields"], "arr.size", "num", "ValueError")
    if sum(1 for n in ast.walk(f["combine_fields"]) if isinstance(n, ast.Assign) and u(n) == "num = arrlist[0].size") != 1:
        raise TranslateError("combine_fields: num is not arrlist[0].size")
    rets = [x for _, x in sorted((n.lineno, u(n)) for n in ast.walk(f["combine_fields"]) if isinstance(n, ast.Return))]
    if rets != ["return arrlist[0]", "return new_array"]:
        raise TranslateError("combine_fields: returns %s" % rets)
    # filter loops
    p["extract_keep_if_in"] = filter_loop(f["extract_fields"], "keepnames")
    p["remove_keep_if_in"] = filter_loop(f["remove_fields"], "rmnames")
    # allocation
    for k, out, dt in (("extract", "new_arr", "new_descr"), ("remove", "new_arr", "new_descr"),
                       ("add", "new_arr", "new_descr"), ("reorder", "new_arr", "new_descr"),
                       ("combine", "new_array", "descr")):
        fn = f[k + "_fields"]
        p[k + "_alloc"], p[k + "_dims"] = allocation(fn, out, dt)
    # signatures / defaults
    tf = ("True", "False")
    p["extract_strict_default"] = sig(f["extract_fields"], ["arr", "keepnames", "strict"], {"strict": tf})["strict"] == "True"
    p["reorder_strict_default"] = sig(f["reorder_fields"], ["arr", "ordered_names", "strict"], {"strict": tf})["strict"] == "True"
    d = sig(f["compare_arrays"], ["arr1", "arr2", "verbose", "ignore_missing"], {"verbose": tf, "ignore_missing": tf})
    p["compare_ignore_missing_default"] = d["ignore_missing"] == "True"
    sig(f["add_fields"], ["arr", "add_dtype_or_descr", "defaults"], {"defaults": ("None",)})
    d = sig(f["split_fields"], ["data", "fields", "getnames"], {"fields": ("None",), "getnames": tf})
    p["split_getnames_default"] = d["getnames"] == "True"
    sig(f["remove_fields"], ["arr", "rmnames"], {})
    sig(f["copy_fields"], ["arr1", "arr2"], {})
    sig(f["copy_fields_by_name"], ["arr", "names", "vals"], {})
    sig(f["combine_fields"], ["arrlist"], {})
    # exception classes
    for n in FUNCS:
        p["raises_" + n] = raises(f[n])
    return p


def _forms(s):
    b = lambda k: "true" if k in s else "false"   # noqa
    return "mkForms %s %s %s %s" % (b("tuple"), b("list"), b("ndarray"), b("str"))


def _b(x):
    return "true" if x else "false"


def gen_text(p):
    L = ["(* GENERATED by harness/props/c07_translate.py from esutil/numpy_util.py -- do not edit by hand.",
         "   Structural parameters of the field operations read out of the source of the working tree",
         "   that is being checked (see Skel.v for what each one means; Tie.v for what is proved). *)",
         "From EsVerif.Common Require Import Base.",
         "From Coq.Strings Require Import String.",
         "From EsVerif.C07 Require Import Skel.",
         "Local Open Scope string_scope.",
         "",
         "(* isinstance dispatch: mkForms tuple list ndarray str *)"]
    for k in ("extract_forms", "remove_forms", "reorder_forms", "cfbn_names_forms", "cfbn_vals_forms",
              "add_defaults_forms", "split_forms"):
        L.append("Definition %s : forms := %s.   (* %s *)" % (k, _forms(p[k]), ", ".join(sorted(p[k]))))
    L += ["", "(* comparison operator of each guard *)"]
    for k, txt in (("copy_size_guard", "arr1.size ? arr2.size -> raise"),
                   ("extract_empty_guard", "len(new_descr) ? 0 -> raise"),
                   ("remove_empty_guard", "len(new_descr) ? 0 -> raise"),
                   ("cfbn_len_guard", "len(names) ? len(vals) -> raise"),
                   ("add_defaults_guard", "len(defaults) ? len(add_descr) -> raise"),
                   ("combine_none_guard", "len(arrlist) ? 0 -> raise"),
                   ("combine_one_guard", "len(arrlist) ? 1 -> return arrlist[0]"),
                   ("combine_size_guard", "arr.size ? arrlist[0].size -> raise")):
        L.append("Definition %s : cmpop := %s.   (* %s *)" % (k, p[k], txt))
    L += ["", "(* polarity of the descr filter loops: true = `if name in NAMES`, false = `if name not in NAMES` *)"]
    for k in ("extract_keep_if_in", "remove_keep_if_in"):
        L.append("Definition %s : bool := %s." % (k, _b(p[k])))
    L += ["", "(* allocation of the output array *)"]
    for k in ("extract", "remove", "add", "reorder", "combine"):
        L.append("Definition %s_alloc : allocfn := %s." % (k, p[k + "_alloc"]))
        L.append("Definition %s_dims : dims := %s." % (k, p[k + "_dims"]))
    L += ["", "(* keyword defaults *)"]
    for k in ("extract_strict_default", "reorder_strict_default", "compare_ignore_missing_default",
              "split_getnames_default"):
        L.append("Definition %s : bool := %s." % (k, _b(p[k])))
    L += ["", "(* exception class of every raise statement, in source order *)"]
    for n in FUNCS:
        L.append("Definition raises_%s : list string := [%s]." % (n, "; ".join('"%s"' % x for x in p["raises_" + n])))
    return "\n".join(L) + "\n"


# The values the hand model C07/Model.v is written for (= what the translator reads in a tree where the
# three fix: commits of fixes/C07 are present).  Used ONLY when the translation fails: Gen.v is then reset to
# these values, so that it never keeps the parameters of some other tree checked earlier; the failed
# translation itself is reported by the caller as a broken tie.
_ALL3 = {"tuple", "list", "ndarray"}
REFERENCE = {
    "extract_forms": _ALL3, "remove_forms": _ALL3, "reorder_forms": _ALL3, "cfbn_names_forms": _ALL3,
    "cfbn_vals_forms": {"list", "ndarray"}, "add_defaults_forms": {"list"}, "split_forms": {"str"},
    "copy_size_guard": "CNe", "extract_empty_guard": "CEq", "remove_empty_guard": "CEq", "cfbn_len_guard": "CNe",
    "add_defaults_guard": "CNe", "combine_none_guard": "CEq", "combine_one_guard": "CEq", "combine_size_guard": "CNe",
    "extract_keep_if_in": True, "remove_keep_if_in": False,
    "extract_alloc": "AZeros", "remove_alloc": "AZeros", "add_alloc": "AZeros", "reorder_alloc": "AZeros",
    "combine_alloc": "AZeros",
    "extract_dims": "UseShape", "remove_dims": "UseShape", "add_dims": "UseShape", "reorder_dims": "UseShape",
    "combine_dims": "UseShape",
    "extract_strict_default": True, "reorder_strict_default": True, "compare_ignore_missing_default": True,
    "split_getnames_default": False,
    "raises_combine_fields": ["ValueError"] * 2, "raises_copy_fields": ["ValueError"],
    "raises_extract_fields": ["ValueError"] * 2, "raises_remove_fields": ["ValueError"],
    "raises_add_fields": ["ValueError"] * 2, "raises_reorder_fields": ["ValueError"],
    "raises_copy_fields_by_name": ["ValueError"], "raises_split_fields": ["ValueError"] * 2,
    "raises_compare_arrays": [],
}


def _write(coqdir, txt):
    dst = os.path.join(coqdir, "theories", "C07", "Gen.v")
    old = open(dst).read() if os.path.exists(dst) else None
    if old == txt:
        return False
    tmp = dst + ".tmp.%d" % os.getpid()
    with open(tmp, "w") as f:
        f.write(txt)
    os.replace(tmp, dst)
    return True


def write_reference(coqdir):
    return _write(coqdir, gen_text(REFERENCE))


def differences(p):
    """names of the parameters whose value differs from what the model is written for"""
    return sorted(k for k in REFERENCE if p.get(k) != REFERENCE[k])


def regenerate(impl_dir, coqdir):
    """-> (parameters, changed: bool); raises TranslateError"""
    path = os.path.join(impl_dir, "esutil", "numpy_util.py")
    try:
        src = open(path).read()
    except OSError as e:
        raise TranslateError("cannot read %s: %s" % (path, e))
    try:
        p = extract(src)
    except SyntaxError as e:
        raise TranslateError("numpy_util.py does not parse: %s" % e)
    return p, _write(coqdir, gen_text(p))


if __name__ == "__main__":
    import sys
    print(gen_text(extract(open(sys.argv[1]).read())))

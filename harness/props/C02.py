"""C02 — row/column subset reads equal indexing the fully-read table (DESIGN.md section 7, C02).

Entry points of the real code: Recfile.read(rows=, columns=/fields=, split=), Recfile[...] and
Recfile[cols][rows], Recfile[cols].read(rows=), SFile.read(rows=, columns=/fields=, split=, reduce=),
SFile[...], SFile[cols][rows], sfile.read(filename, ...), on binary files and on text files with every
delimiter of the quantifier.  Every case is run on the real esutil and inside Coq:
  agree = (C02/Model.v run on the BYTES of the file = what the real code returned)
  ok    = (Spec.check: the returned value is what indexing the real code's own full read gives)
The integer functions _process_slice, _slice2rows, _fix_range, _get_slice_nrows of the model are
regenerated from the Python source of the tree under check on every run (c02_translate.py, T-int);
if the text differs from the committed coq/theories/C02/Gen.v the C02 development is recompiled against
the new text in the run's scratch directory and the cases are evaluated against THAT model.
"""
import itertools
import json
import os
import shutil
import struct
import subprocess
import types

from .. import core
from ..core import cz, clist, copt, cbool
from ..runner import Entry, differential
from . import c02_translate

PRE = ("From Coq.Strings Require Import String Byte.\nFrom Coq Require Import PrimInt63.\nFrom EsVerif.Common Require Import Base Bytes.\n"
       "From EsVerif.C04 Require Import TextModel.\nFrom EsVerif.C02 Require Import Arange Gen Model Spec Exec.\n")

DELIMS = [None, ",", ":", "\t", " "]
WORK = {"dir": "/var/tmp"}

# ----------------------------------------------------------------------------------------------------
# tables: {"fields": [[name, typestr, shape]], "rows": [hex of one row's memory image]}
# ----------------------------------------------------------------------------------------------------
INT_T = ["i1", "u1", "i2", "u2", "i4", "u4", "i8", "u8"]
FLT_T = ["f4", "f8"]
BIN_ONLY_T = ["b1", "c8", "c16"]
NAMES = ["a", "x", "s", "id", "flux", "name", "k"]


def name_id(i):
    """column names are numbered injectively and NOT in file order (the model looks names up)"""
    return 10 + (5 * i + 3) % 7


def esz(t):
    return int(t[1:])


def nel(shape):
    n = 1
    for d in shape:
        n *= d
    return n


def np_dtype(tbl):
    import numpy as np
    return np.dtype([(n, t, tuple(sh)) if sh else (n, t) for n, t, sh in tbl["fields"]])


def build_array(tbl):
    import numpy as np
    dt = np_dtype(tbl)
    raw = b"".join(bytes.fromhex(r) for r in tbl["rows"])
    assert len(raw) == dt.itemsize * len(tbl["rows"])
    return np.frombuffer(raw, dtype=dt).copy()


def _rand_el(r, t, text):
    """memory bytes (little endian) of one element of type t"""
    k, sz = t[0], esz(t)
    if k in "iu":
        lo, hi = (-(1 << (8 * sz - 1)), (1 << (8 * sz - 1)) - 1) if k == "i" else (0, (1 << (8 * sz)) - 1)
        v = r.choice([lo, hi, 0, 1, r.randint(lo, hi), r.randint(max(lo, -99), min(hi, 99))])
        return int(v).to_bytes(sz, "little", signed=(k == "i"))
    if k == "f":
        v = r.choice([0.0, 1.0, -1.0, r.randint(-8000, 8000) / 8.0, r.randint(-999, 999) / 4.0])
        return struct.pack("<d" if sz == 8 else "<f", v)
    if k == "S":
        m = r.randint(0, sz)
        s = bytes(r.choice(b"abcxyzABC0123_") for _ in range(m))
        return s + b"\0" * (sz - m)
    return bytes(r.randrange(256) for _ in range(sz)) if k != "b" else bytes([r.randrange(2)])


def rand_table(r, nrows, nfields, text, big=False):
    fields = []
    pool = INT_T + FLT_T + ["S1", "S3", "S6"] + ([] if text else BIN_ONLY_T)
    for i in range(nfields):
        t = r.choice(pool)
        sh = r.choice([[], [], [], [2], [3], [2, 2]])
        if t[0] == "S":
            ts = t
        elif t in ("i1", "u1", "b1"):
            ts = "|" + t
        else:
            ts = (">" if (big and not text and r.random() < 0.5) else "<") + t
        fields.append([NAMES[i], ts, sh])
    return {"fields": fields, "rows": gen_rows(r, fields, nrows, text)}


def gen_rows(r, fields, nrows, text):
    rows = []
    for _ in range(nrows):
        raw = b""
        for n, t, sh in fields:
            base = t.lstrip("<>|=")
            for _e in range(nel(sh)):
                el = _rand_el(r, base, text)
                if t[0] == ">":
                    if base[0] == "c":
                        h = len(el) // 2
                        el = el[:h][::-1] + el[h:][::-1]
                    else:
                        el = el[::-1]
                raw += el
        rows.append(raw.hex())
    return rows


# types of equal size that a key made of field NAMES (or of the record size) cannot tell apart
_RETYPE = {"i1": ["u1"], "u1": ["i1"], "b1": ["u1"], "i2": ["u2", ">i2"], "u2": ["i2", ">u2"],
           "i4": ["u4", "f4", ">i4"], "u4": ["i4", "f4", ">u4"], "f4": ["i4", "u4", ">f4"],
           "i8": ["u8", "f8", ">i8"], "u8": ["i8", "f8", ">u8"], "f8": ["i8", "u8", ">f8"],
           "c8": ["f8", "i8"], "c16": [">c16"]}


def twin_table(r, tbl, text):
    """same field names, same shapes, same record size, same number of rows -- other types / byte orders, other values"""
    fields = []
    for n, t, sh in tbl["fields"]:
        base = t.lstrip("<>|=")
        if base[0] == "S":
            w = esz(base)
            nt, nsh = (("|u1", sh + [w]) if (r.random() < 0.5 and not sh) else (t, sh))
            if nt == t and w in (2, 4, 8) and not text:
                nt = "<i%d" % w
        else:
            cands = [c for c in _RETYPE.get(base, [base]) if not (text and (c.startswith(">") or c.lstrip(">")[0] in "cb"))]
            c = r.choice(cands or [base])
            if c.startswith(">"):
                nt = (">" if not t.startswith(">") else "<") + c[1:]
            else:
                nt = ("|" if esz(c) == 1 else (t[0] if t[0] in "<>" else "<")) + c
            nsh = sh
        fields.append([n, nt, nsh])
    return {"fields": fields, "rows": gen_rows(r, fields, len(tbl["rows"]), text)}


def fixed_table(n):
    """the table of the test-suite's flavour: i4, f8, S3, 2i2"""
    rows = []
    for i in range(n):
        rows.append((struct.pack("<i", 10 * i - 7) + struct.pack("<d", i / 8.0 - 1) + (b"r%d" % i).ljust(3, b"\0")
                     + struct.pack("<hh", i, -i)).hex())
    return {"fields": [["a", "<i4", []], ["x", "<f8", []], ["s", "S3", []], ["k", "<i2", [2]]], "rows": rows}


# ----------------------------------------------------------------------------------------------------
# the scanf oracle for floating-point tokens of text files (as C04: Python's float(), exact here
# because every generated value is a dyadic rational with at most 7 significant digits)
# ----------------------------------------------------------------------------------------------------
def oracle_tables(tbl):
    """(ft, pt): printf text per floating-point element, scanf value per token (the scope monitor needs both)"""
    import numpy as np
    ft, pt = {}, {}
    a = build_array(tbl)
    for n, t, sh in tbl["fields"]:
        base = t.lstrip("<>|=")
        if base[0] != "f":
            continue
        sz = esz(base)
        for v in np.asarray(a[n], dtype="f8").ravel():
            tok = ("%.16g" % v) if sz == 8 else ("%.7g" % v)
            val = float(tok)
            nat = struct.pack("<d", val) if sz == 8 else struct.pack("<f", val)
            pt[(sz, tok.encode())] = nat
            ft[(sz, struct.pack("<d", v) if sz == 8 else struct.pack("<f", v))] = tok.encode()
        pt[(sz, b"nan")] = struct.pack("<d", float("nan")) if sz == 8 else struct.pack("<f", float("nan"))
    return (sorted((k[0], k[1], v) for k, v in ft.items()), sorted((k[0], k[1], v) for k, v in pt.items()))


def oracle_table(tbl):
    import numpy as np
    pt = {}
    a = build_array(tbl)
    for n, t, sh in tbl["fields"]:
        base = t.lstrip("<>|=")
        if base[0] != "f":
            continue
        sz = esz(base)
        for v in np.asarray(a[n], dtype="f8").ravel():
            tok = ("%.16g" % v) if sz == 8 else ("%.7g" % v)
            val = float(tok)
            pt[(sz, tok.encode())] = struct.pack("<d", val) if sz == 8 else struct.pack("<f", val)
    return sorted((k[0], k[1], v) for k, v in pt.items())


# ----------------------------------------------------------------------------------------------------
# Coq printers
# ----------------------------------------------------------------------------------------------------
def chex(b):
    b = bytes(b)
    if len(b) <= 64:
        return '(unhex "%s"%%string)' % b.hex()
    # large byte strings: Exec.ub over primitive 63-bit integers, seven bytes each (cheap to parse and type-check)
    return "(ub %d [%s])" % (len(b), "; ".join("0x%x%%uint63" % int.from_bytes(b[i:i + 7], "big") for i in range(0, len(b), 7)))


def cbyte(ch):
    return "x%02x" % ord(ch)


def ckind(base):
    if base[0] == "S":
        return "(KStr %d)" % esz(base)
    if base[0] == "f":
        return "(KFlt %d)" % esz(base)
    return "(KInt %s %d)" % ("true" if base[0] == "i" else "false", esz(base))


def crfile(tbl, delim, data, nrows):
    flds, sizes = [], []
    for n, t, sh in tbl["fields"]:
        base = t.lstrip("<>|=")
        sizes.append(esz(base) * nel(sh))
        if delim is not None:
            flds.append("{| fname := []; fkind := %s; forder := NA; fshape := %s |}" % (ckind(base), clist(sh)))
    return ("{| rf_ascii := %s; rf_delim := %s; rf_nrows := %s; rf_names := %s; rf_sizes := %s; rf_flds := [%s]; rf_data := %s |}"
            % (cbool(delim is not None), cbyte(delim or ","), cz(nrows), clist([name_id(i) for i in range(len(sizes))]),
               clist(sizes), "; ".join(flds), chex(data)))


def crows(rs):
    k = rs[0]
    if k == "none":
        return "RNone"
    if k == "scalar":
        return "(RScalar %s)" % cz(rs[1])
    if k == "list":
        return "(RList %s)" % clist(rs[1])
    return "(RSlice %s %s %s)" % (copt(rs[1]), copt(rs[2]), copt(rs[3]))


def ccols(cs, names):
    def cid(nm):
        return name_id(names.index(nm)) if nm in names else 99
    k = cs[0]
    if k == "none":
        return "CNone"
    if k == "name":
        return "(CName %s)" % cz(cid(cs[1]))
    return "(CList %s)" % clist([cid(x) for x in cs[1]])


def crequest(c, names):
    return "{| q_style := %s; q_rows := %s; q_cols := %s; q_split := %s; q_reduce := %s |}" % (
        c["style"], crows(c["rows"]), ccols(c["cols"], names), cbool(c["split"]), cbool(c["reduce"]))


def ccells(cells):
    return "[" + "; ".join(chex(bytes.fromhex(x)) for x in cells) + "]"


def cgrid(rows):
    return "[" + "; ".join(ccells(r) for r in rows) + "]"


def cvalue(v):
    if v[0] == "none":
        return "VNone"
    if v[0] == "table":
        return "(VTable %s %s)" % (clist(v[1]), cgrid(v[2]))
    if v[0] == "plain":
        return "(VPlain %s %s)" % (cz(v[1]), ccells(v[2]))
    return "(VTuple %s %s)" % (clist(v[1]), cgrid(v[2]))


def cout(out):
    return "(Ok %s)" % cvalue(out[1]) if out[0] == "ok" else "(Err %s)" % out[1]


def ctab3(tab):
    return "[" + "; ".join("(%d%%nat, %s, %s)" % (sz, chex(a), chex(b)) for sz, a, b in tab) + "]"


# ----------------------------------------------------------------------------------------------------
# driving the real code
# ----------------------------------------------------------------------------------------------------
def _cells_of(col, i):
    return col[i:i + 1].tobytes().hex()


def canon_value(res, full, want_cols):
    """canonical form of what a read returned; column positions refer to the file (the full read's dtype);
    a column whose dtype differs from the file's is numbered -1-position, a wrong array rank gives [-9]"""
    import numpy as np
    names = list(full.dtype.names)

    def plain(arr, cand):
        """(column position or -1, cells)"""
        pos = -1
        for nm in cand:
            fdt = full.dtype.fields[nm][0]
            if arr.dtype == fdt.base and tuple(arr.shape[1:]) == tuple(fdt.shape):
                pos = names.index(nm)
                break
        return pos, [_cells_of(arr, i) for i in range(arr.shape[0])] if arr.ndim >= 1 else [arr.tobytes().hex()]

    if res is None:
        return ["none"]
    if isinstance(res, tuple):
        cols, data = [], []
        cand = list(want_cols)
        for arr in res:
            if not isinstance(arr, np.ndarray):
                return ["tuple", [-9], []]
            pos, cells = plain(arr, cand)
            if pos >= 0:
                cand.remove(names[pos])
            cols.append(pos)
            data.append(cells)
        return ["tuple", cols, data]
    if not isinstance(res, np.ndarray):
        return ["table", [-9], []]
    if res.dtype.names is None:
        pos, cells = plain(res, list(want_cols))
        return ["plain", pos, cells]
    if res.ndim != 1:
        return ["table", [-9], []]
    cols = []
    for nm in res.dtype.names:
        if nm in names and res.dtype.fields[nm][0] == full.dtype.fields[nm][0]:
            cols.append(names.index(nm))
        else:
            cols.append(-1 - (names.index(nm) if nm in names else 50))
    rows = [[_cells_of(res[nm], i) for nm in res.dtype.names] for i in range(res.shape[0])]
    return ["table", cols, rows]


def _container(kind, l, strings=False):
    import numpy as np
    if kind == "tuple":
        return tuple(l)
    if kind == "ndarray":
        return np.array(l) if (strings or len(l) > 0) else np.array(l, dtype="i8")
    return list(l)


def py_rows(c):
    rs = c["rows"]
    if rs[0] == "none":
        return None
    if rs[0] == "scalar":
        return rs[1]
    if rs[0] == "list":
        return _container(c.get("rcont", "list"), rs[1])
    return slice(rs[1], rs[2], rs[3])


def py_cols(c):
    cs = c["cols"]
    if cs[0] == "none":
        return None
    if cs[0] == "name":
        return cs[1]
    return _container(c.get("ccont", "list"), cs[1], strings=True)


_FILES = {}


def prepare(tbl, delim, api):
    """write the table once per (table, form, api family); returns dict(fn, data, nrows, full, arr)"""
    import esutil.sfile as sfile
    import esutil.recfile as recfile
    fam = "sfile" if api.startswith("sfile") else "recfile"
    key = json.dumps([tbl, delim, fam], sort_keys=True)
    if key in _FILES:
        return _FILES[key]
    if len(_FILES) > 64:
        for v in _FILES.values():
            if os.path.exists(v["fn"]):
                os.remove(v["fn"])
        _FILES.clear()
    os.makedirs(WORK["dir"], exist_ok=True)
    fn = os.path.join(WORK["dir"], "c02_%d_%d.rec" % (os.getpid(), len(_FILES)))
    arr = build_array(tbl)
    if fam == "sfile":
        sfile.write(arr.copy(), fn, delim=delim)
        with sfile.SFile(fn) as sf:
            off = sf._data_start
            full = sf.read()
    else:
        recfile.write(fn, arr.copy(), delim=delim)
        off = 0
        with recfile.Recfile(fn, dtype=arr.dtype, delim=delim) as rf:
            full = rf.read()
    raw = open(fn, "rb").read()
    ent = {"fn": fn, "data": raw[off:], "nrows": int(arr.size), "full": full, "arr": arr}
    _FILES[key] = ent
    return ent


def do_request(c, ent):
    import esutil.sfile as sfile
    import esutil.recfile as recfile
    st, api = c["style"], c["api"]
    rows, cols = py_rows(c), py_cols(c)
    delim = c["delim"]
    kw = {}
    if st in ("SRead", "SSfRead"):
        kw = {"rows": rows, "columns": cols}
    elif st in ("SReadFields", "SSfReadFields"):
        kw = {"rows": rows, "fields": cols}
    if c["split"]:
        kw["split"] = True
    if c["reduce"]:
        kw["reduce"] = True
    if api == "sfile_fn":
        return sfile.read(ent["fn"], **kw)
    if api == "sfile":
        with sfile.SFile(ent["fn"]) as h:
            return _on_handle(h, st, rows, cols, kw, c)
    with recfile.Recfile(ent["fn"], dtype=ent["arr"].dtype, delim=delim) as h:
        return _on_handle(h, st, rows, cols, kw, c)


def _on_handle(h, st, rows, cols, kw, c):
    if st in ("SRead", "SReadFields", "SSfRead", "SSfReadFields"):
        return h.read(**kw)
    if st == "SGetitem":
        return h[rows]
    if st == "SChain":
        return h[cols][rows]
    if st == "SChainRead":
        return h[cols].read(rows=rows, split=c["split"])
    raise ValueError(st)


def kind_of(c):
    """which part of the statement a request exercises (one entry point each)"""
    if c["style"] in ("SReadFields", "SSfReadFields") and c["cols"][0] != "none":
        return "fields_kw"
    if c["split"] or c["reduce"]:
        return "options"
    rs = c["rows"]
    if rs[0] == "slice":
        return "slice_binary" if (c["delim"] is None and c["style"] == "SGetitem") else "slice_unpacked"
    if rs[0] == "list":
        return "rowlist"
    if rs[0] == "scalar":
        return "scalar_row"
    return "columns"


# ---- crash containment: the real code is driven in forked worker processes -------------------------
# A change that makes the C++ reader write beyond a numpy buffer corrupts the heap and aborts the process
# some calls later.  The calls of one batch share a worker (so state carried across calls still shows); when
# a worker dies the batch is resumed in a fresh one, and a case (for `history`: a whole sequence) that kills
# a fresh worker on its own is reported as raising -- a failing input with a replay instead of a dead check.
def _run_forked(fn, items, tag):
    """[fn(x) for x in items], computed in forked workers; a call that kills a fresh worker gives None"""
    os.makedirs(WORK["dir"], exist_ok=True)
    path = os.path.join(WORK["dir"], "batch_%s_%d.jsonl" % (tag, os.getpid()))
    results = []
    while len(results) < len(items):
        start = len(results)
        if os.path.exists(path):
            os.remove(path)
        pid = os.fork()
        if pid == 0:
            code = 1
            try:
                with open(path, "w") as f:
                    for x in items[start:]:
                        f.write(json.dumps(fn(x)) + "\n")
                        f.flush()
                code = 0
            finally:
                os._exit(code)
        _, status = os.waitpid(pid, 0)
        got = []
        if os.path.exists(path):
            for line in open(path):
                if line.endswith("\n"):
                    try:
                        got.append(json.loads(line))
                    except ValueError:
                        break
        results.extend(got)
        if status == 0 and len(results) >= len(items):
            break
        if len(results) < len(items) and not got:
            # the first call of a fresh worker killed it: that call alone is the culprit
            results.append(None)
    if os.path.exists(path):
        os.remove(path)
    return results[:len(items)]


class _Forked(Entry):
    chunk = 300

    def _remember(self, cases):
        self._todo = cases
        self._pos = {id(c): i for i, c in enumerate(cases)}
        self._out = {}
        return cases

    def compute(self, c):
        raise NotImplementedError

    def crashed(self, c):
        raise NotImplementedError

    def impl(self, c):
        k = id(c)
        if k not in getattr(self, "_out", {}):
            if not hasattr(self, "_out"):
                self._todo, self._pos, self._out = [], {}, {}
            i = self._pos.get(k)
            batch = [c] if i is None else [x for x in self._todo[i:i + self.chunk] if id(x) not in self._out]
            outs = _run_forked(self.compute, batch, self.name)
            for x, o in zip(batch, outs):
                self._out[id(x)] = self.crashed(x) if o is None else o
        return self._out.pop(k)


CRASH = ["err", "EOther", "the call killed the worker process (crash in the implementation)"]

_CASES = {}


def all_cases(ctx, round):
    key = (id(ctx), round)
    if key not in _CASES:
        _CASES.clear()
        _CASES[key] = gen_cases(ctx, round)
    return _CASES[key]


class Read(_Forked):
    name = "read"
    search_rounds = 1
    kind = None

    def __init__(self, kind):
        self.kind = kind
        self.name = kind

    def cases(self, ctx, round=0):
        return self._remember([dict(c) for c in all_cases(ctx, round) if kind_of(c) == self.kind])

    def crashed(self, c):
        arr = build_array(c["tbl"])
        names = [f[0] for f in c["tbl"]["fields"]]
        fullc = [[_cells_of(arr[nm], i) for nm in names] for i in range(min(arr.shape[0], 5000))]
        return {"out": CRASH, "full": fullc, "data": "", "nrows": int(arr.size)}

    def classify(self, c, o, v):
        """labels of the defects repaired by fixes/C02 (status 'fixed': nothing is suppressed)"""
        rs, n = c["rows"], len(c["tbl"]["rows"])
        if rs[0] == "list" and len(rs[1]) == 0:
            return "C02.fixed_empty_row_list"
        if (rs[0] == "list" and len(rs[1]) == 1 and rs[1][0] >= n) or (rs[0] == "scalar" and rs[1] >= n):
            return "C02.fixed_single_row_clipped"
        if rs[0] == "slice":
            return "C02.fixed_slice_binary_clip" if self.kind == "slice_binary" else "C02.fixed_slice_unpacked_bounds"
        if self.kind == "fields_kw" and c["cols"][0] == "name":
            return "C02.fixed_fields_kw_scalar"
        if c["reduce"]:
            return "C02.fixed_reduce_none"
        return None

    def compute(self, c):
        ent = prepare(c["tbl"], c["delim"], c["api"])
        names = [f[0] for f in c["tbl"]["fields"]]
        want = names if c["cols"][0] == "none" else ([c["cols"][1]] if c["cols"][0] == "name" else
                                                     [n for n in names if n in c["cols"][1]])
        full = ent["full"]
        big = full.shape[0] > 5000
        if big:
            # very many rows: the full read is checked against the file bytes here and derived from them inside Coq
            fullc = None
            same = (c["delim"] is None and full.tobytes() == ent["data"])
        else:
            fullc = [[_cells_of(full[nm], i) for nm in full.dtype.names] for i in range(full.shape[0])]
        try:
            res = do_request(c, ent)
            out = ["ok", canon_value(res, full, want)]
        except Exception as e:  # noqa
            out = ["err", core.errclass(e), "%s: %s" % (type(e).__name__, str(e)[:160])]
        r = {"out": out, "full": fullc, "data": ent["data"].hex(), "nrows": ent["nrows"]}
        if big:
            r["full_is_data"] = bool(same)
        return r

    def term(self, c, o):
        names = [f[0] for f in c["tbl"]["fields"]]
        if o["full"] is None:
            if not o.get("full_is_data"):
                return "3"          # the full read of a binary file does not have the bytes of the file
            return "v_req_bigbin %s %s %s" % (crfile(c["tbl"], c["delim"], bytes.fromhex(o["data"]), o["nrows"]),
                                              crequest(c, names), cout(o["out"]))
        pt = oracle_table(c["tbl"]) if c["delim"] is not None else []
        return "v_req %s %s %s %s %s" % (ctab3(pt), crfile(c["tbl"], c["delim"], bytes.fromhex(o["data"]), o["nrows"]),
                                         crequest(c, names), cgrid(o["full"]), cout(o["out"]))

    def show(self, c):
        if len(c["tbl"]["rows"][0]) > 4000 or len(c["tbl"]["rows"]) > 5000:
            return None                                   # wide rows: the replay would be megabytes of model output
        got = _run_forked(lambda x: (lambda e: {"data": e["data"].hex(), "nrows": e["nrows"]})(prepare(x["tbl"], x["delim"], x["api"])),
                          [c], "show")[0]
        if got is None:
            return None
        names = [f[0] for f in c["tbl"]["fields"]]
        pt = oracle_table(c["tbl"]) if c["delim"] is not None else []
        return "run_request (P_of %s) %s %s" % (ctab3(pt), crfile(c["tbl"], c["delim"], bytes.fromhex(got["data"]), got["nrows"]),
                                                crequest(c, names))

    def nontrivial(self, c, o):
        out = o["out"]
        if out[0] != "ok":
            return True
        v = out[1]
        if v[0] == "none":
            return True
        n, nc = o["nrows"], len(c["tbl"]["fields"])
        if v[0] == "table" and o["full"] is None:
            return True
        if v[0] == "table":
            sel = len(v[2]) * len(v[1])
        elif v[0] == "plain":
            sel = len(v[2])
        else:
            sel = sum(len(x) for x in v[2])
        return 0 < sel < n * nc

    def family(self, c):
        return "%s/%s/%s" % (c["style"], c["api"], "binary" if c["delim"] is None else "text" + repr(c["delim"]))


# ---- the regenerated integer functions against the Python functions they came from ---------------
def _fake(n):
    from esutil.recfile.Util import Recfile
    f = types.SimpleNamespace(nrows=n)
    f._fix_range = lambda num, isslice=True: Recfile._fix_range(f, num, isslice=isslice)
    return f, Recfile


class Algebra(Entry):
    """Recfile._process_slice / _slice2rows / _fix_range / _get_rows2read called directly"""
    name = "algebra"
    search_rounds = 1

    def cases(self, ctx, round=0):
        r = ctx.rng
        cs = []
        if round == 0:
            ns = range(1, 7) if not ctx.quick() else (1, 3)
            for n in ns:
                bounds = [None] + list(range(-n - 2, n + 3))
                for a in bounds:
                    for b in bounds:
                        for st in (None, 1, 2, 3, n + 1):
                            cs.append({"f": "process_slice", "n": n, "a": a, "b": b, "c": st, "family": "process_slice"})
                            cs.append({"f": "slice2rows", "n": n, "a": a, "b": b, "c": st, "family": "slice2rows"})
                for x in range(-n - 3, n + 4):
                    for fl in (True, False):
                        cs.append({"f": "fix_range", "n": n, "x": x, "isslice": fl, "family": "fix_range"})
                vals = list(range(-2, n + 2))
                for ln in range(0, 4 if n <= 3 or not ctx.quick() else 3):
                    for l in itertools.product(vals, repeat=ln):
                        cs.append({"f": "rows2read", "n": n, "rows": ["list", list(l)], "family": "rows2read"})
                for x in range(-n - 2, n + 3):
                    cs.append({"f": "rows2read", "n": n, "rows": ["scalar", x], "family": "rows2read"})
            ctx.exhaustive = True
        for _ in range(ctx.n(120, 2000)):
            n = r.choice([1, 2, 3, 7, 50, 10**6, 10**12])
            def b():
                return r.choice([None, r.randint(-n - 3, n + 3), r.randint(-3, 3), r.randint(-2 * n, 2 * n)])
            f = r.choice(["process_slice", "slice2rows"])
            st = r.choice([None, 1, 2, 3, 7, n + 1]) if (f == "process_slice" or n <= 50) else r.choice([max(1, n // 7), n + 1])
            cs.append({"f": f, "n": n, "a": b(), "b": b(), "c": st, "family": f + "/random"})
        return cs

    def impl(self, c):
        import numpy as np
        n = c["n"]
        fake, Recfile = _fake(n)

        def f():
            if c["f"] == "process_slice":
                s = Recfile._process_slice(fake, slice(c["a"], c["b"], c["c"]))
                return [int(s.start), int(s.stop), int(s.step)]
            if c["f"] == "slice2rows":
                return [int(x) for x in Recfile._slice2rows(fake, c["a"], c["b"], c["c"])]
            if c["f"] == "fix_range":
                return int(Recfile._fix_range(fake, c["x"], isslice=c["isslice"]))
            rows = c["rows"][1]
            if c["rows"][0] == "list":
                rows = np.array(rows, dtype="i8") if len(rows) == 0 else list(rows)
            res = Recfile._get_rows2read(fake, rows)
            return None if res is None else [int(x) for x in res]
        return core.guarded(f)

    def term(self, c, out):
        def res(fmt):
            return "(Ok %s)" % fmt(out[1]) if out[0] == "ok" else "(Err %s)" % out[1]
        if c["f"] == "process_slice":
            return "v_process_slice %s %s %s %s %s" % (cz(c["n"]), copt(c["a"]), copt(c["b"]), copt(c["c"]),
                                                       res(lambda t: "(%s, %s, %s)" % tuple(cz(x) for x in t)))
        if c["f"] == "slice2rows":
            return "v_slice2rows %s %s %s %s %s" % (cz(c["n"]), copt(c["a"]), copt(c["b"]), copt(c["c"]), res(clist))
        if c["f"] == "fix_range":
            return "v_fix_range %s %s %s %s" % (cz(c["n"]), cz(c["x"]), cbool(c["isslice"]), res(cz))
        return "v_rows2read %s %s %s" % (cz(c["n"]), crows(c["rows"]), res(lambda l: copt(l, clist)))

    def nontrivial(self, c, out):
        if out[0] != "ok":
            return True
        if c["f"] in ("slice2rows",):
            return 0 < len(out[1]) < c["n"]
        if c["f"] == "process_slice":
            return 0 < out[1][1] - out[1][0] and (out[1][0] > 0 or out[1][1] < c["n"] or out[1][2] > 1)
        if c["f"] == "rows2read":
            return out[1] is not None and 0 < len(out[1]) < c["n"]
        return True


# ----------------------------------------------------------------------------------------------------
# generators
# ----------------------------------------------------------------------------------------------------
def slice_pool(n, steps=None):
    bounds = [None] + list(range(-n - 2, n + 3))
    steps = steps or [None, 1, 2, 3, n + 1]
    return [["slice", a, b, st] for a in bounds for b in bounds for st in steps]


def adversarial_rows(n):
    out = [["slice", None, None, None], ["slice", 0, -1, None], ["slice", -2, None, None], ["slice", -n - 2, 3, None],
           ["slice", n + 2, n + 4, None], ["slice", 3, 1, None], ["slice", 1, n, 2], ["slice", None, None, n + 1],
           ["slice", -n, n, 3], ["slice", n, None, None], ["slice", None, -n - 1, None], ["slice", -1, None, None],
           ["list", [n + 2]], ["list", [n]], ["list", [n - 1]], ["list", [0]], ["list", [-1]], ["list", [-n - 1]],
           ["list", []], ["list", [n - 1, 0]], ["list", [0, 0, 0]], ["list", list(range(n))], ["list", list(range(n - 1, -1, -1))],
           ["list", [1, n]], ["list", [-n - 1, 0]], ["list", [min(2, n - 1), 0, min(2, n - 1)]],
           ["scalar", 0], ["scalar", n - 1], ["scalar", -1], ["scalar", -n], ["scalar", n], ["scalar", -n - 1],
           # steps <= 0 (outside the quantifier; C02_step_zero_*, C02_negative_step_*: model = code is still compared)
           ["slice", None, None, 0], ["slice", None, None, -1], ["slice", 1, 1, -1], ["slice", n - 1, 0, -2], ["slice", 0, 1, -3]]
    return out


def rand_rows(r, n, bracket):
    k = r.random()
    if bracket and k < 0.5:
        def b():
            return r.choice([None] + list(range(-n - 2, n + 3)))
        return ["slice", b(), b(), r.choice([None, 1, 1, 2, 3, n + 1])]
    if k < 0.62:
        return ["scalar", r.randint(-n, n - 1)]
    if not bracket and k < 0.7:
        return ["none"]
    ln = r.choice([0, 1, 1, 2, 2, 3, 3, 4, n, n + 2])
    lo, hi = (0, n - 1) if r.random() < 0.7 else (-1, n)
    return ["list", [r.randint(lo, hi) for _ in range(ln)]]


def col_pool(names):
    out = [["none"]]
    for nm in names:
        out.append(["name", nm])
    for k in range(1, min(len(names), 4) + 1):
        for sub in itertools.permutations(names[:4], k):
            out.append(["list", list(sub)])
    # repeated names (outside the quantifier: nothing is demanded, but model = implementation is still compared)
    if len(names) >= 2:
        out.append(["list", [names[0], names[0]]])
        out.append(["list", [names[1], names[0], names[1]]])
    else:
        out.append(["list", [names[0], names[0]]])
    # unknown names (C02_unknown_column_rejected) and the empty list
    out.append(["name", "zz"])
    out.append(["list", [names[0], "zz"]])
    out.append(["list", []])
    return out


def uneven_rowlists(r, n, count):
    """row lists of length 4..6 that are NOT evenly spaced although their end points (and often their first gap)
    fit a constant step -- what a 'these rows are a slice' shortcut judged from a few elements would get wrong;
    plus genuinely evenly spaced ones"""
    out = []
    tries = 0
    while len(out) < count and tries < 50 * count:
        tries += 1
        ln = r.choice([4, 4, 5, 6])
        smax = (n - 1) // (ln - 1)
        if smax < 1:
            continue
        st = r.randint(1, smax)
        a = r.randint(0, n - 1 - st * (ln - 1))
        b = a + st * (ln - 1)
        even = [a + st * i for i in range(ln)]
        kind = r.random()
        if kind < 0.15:
            l = even
        else:
            inner = list(range(a + 1, b))
            keep_first_gap = kind < 0.6 and (a + st) in inner
            pool = [x for x in inner if not (keep_first_gap and x <= a + st)]
            need = ln - 2 - (1 if keep_first_gap else 0)
            if len(pool) < need:
                continue
            mid = sorted(r.sample(pool, need))
            l = [a] + ([a + st] if keep_first_gap else []) + mid + [b]
            if l == even:
                continue
        if r.random() < 0.3:
            l = l[:]
            r.shuffle(l)
        if r.random() < 0.15:
            l = l + [r.choice(l)]
        out.append(l)
    return out


def wide_text_table(r, L, nrows, kind):
    """a text table every row of which is exactly L bytes long (newline included) for a one-character delimiter:
    a two-digit i4, a wide sub-array column (8-character strings, or five-digit i2 numbers) and a pad string"""
    per = 9 if kind == "str" else 6
    m = (L - 5) // per
    w = L - 4 - per * m
    assert m >= 1 and 1 <= w <= per, (L, m, w)
    fields = [["a", "<i4", []], ["w", "S8" if kind == "str" else "<i2", [m]], ["p", "S%d" % w, []]]
    rows = []
    for _ in range(nrows):
        raw = struct.pack("<i", r.randint(10, 99))
        if kind == "str":
            raw += bytes(r.choice(b"abcdefghijklmnopqrstuvwxyz0123456789") for _ in range(8 * m))
        else:
            raw += b"".join(struct.pack("<h", r.randint(10000, 32767)) for _ in range(m))
        raw += bytes(r.choice(b"ABCDEFGHXYZ") for _ in range(w))
        rows.append(raw.hex())
    return {"fields": fields, "rows": rows}


# row lengths around plausible line-buffer sizes (BUFSIZ-like 4096, 32768, 65536) and well beyond
WIDE_LENGTHS = [4095, 4096, 4097, 8193, 32766, 32767, 32768, 32769, 65535, 65536, 65537, 81920]


def gen_wide_text(ctx, r, round):
    """text tables whose rows straddle line-buffer sizes; selections that skip at least one row (and columns)"""
    cs = []
    if round != 0:
        return cs
    picks = [r.choice([4095, 4096, 4097]), r.choice([32767, 32768, 32769]), r.choice([32768, 32769, 65536, 65537]),
             r.choice([65537, 81920])]
    if not ctx.quick():
        picks = WIDE_LENGTHS
    for L in picks:
        nrows = 3 if L < 60000 else 2
        tbl = wide_text_table(r, L, nrows, r.choice(["str", "num"]))
        delim = r.choice(DELIMS[1:])
        sels = [["list", [nrows - 1]], ["scalar", -1], ["slice", 1, None, None], ["list", [0, nrows - 1]], ["slice", None, None, 2]]
        for rows in (sels if (L < 60000 or not ctx.quick()) else sels[:3]):
            bracket = rows[0] == "slice"
            style, api = r.choice([s for s in STYLES if (s[0] in ("SGetitem", "SChain")) == bracket])
            cols = r.choice([["none"], ["list", ["a"]], ["list", ["p", "a"]], ["name", "p"], ["list", ["w"]]])
            c = complete(r, tbl, delim, style, api, rows, cols)
            c["split"] = c["reduce"] = False
            c["family"] = "wide-text-rows"
            cs.append(c)
    return cs


def gen_many_rows(ctx, r, round):
    """binary tables with more than 2^15 / 2^16 rows (row counts and offsets beyond 16-bit ranges), small rows"""
    cs = []
    if round != 0:
        return cs
    for n in ((65537,) if ctx.quick() else (32769, 65537, 70001)):
        fields = [["a", "<i2", []], ["s", "S1", []]]
        raw = b"".join(struct.pack("<h", (i * 7) % 30011 - 15000) + bytes([97 + i % 26]) for i in range(n))
        tbl = {"fields": fields, "rows": [raw[3 * i:3 * i + 3].hex() for i in range(n)]}
        sels = [["scalar", -1], ["scalar", 32768], ["list", [0, 32767, 32768, n - 2, n - 1]], ["list", [n - 1, 0]],
                ["slice", n - 6, None, None], ["slice", None, None, 32768], ["slice", -3, None, None], ["slice", 32766, 32770, None],
                ["list", [n]], ["slice", 65534, n + 2, 2]]
        for rows in sels:
            bracket = rows[0] == "slice"
            style, api = r.choice([s for s in STYLES if (s[0] in ("SGetitem", "SChain")) == bracket])
            cols = r.choice([["none"], ["name", "a"], ["list", ["s"]], ["list", ["s", "a"]]])
            c = complete(r, tbl, None, style, api, rows, cols)
            c["split"] = c["reduce"] = False
            c["family"] = "many-rows"
            cs.append(c)
    return cs


def gen_long_rowlists(ctx, r, round):
    """tables of 7..12 rows, row lists of length 4..6 (property quantifier: every subset and ordering of row indices)"""
    cs = []
    quick = ctx.quick()
    allcols_styles = [("SRead", "recfile"), ("SGetitem", "recfile"), ("SSfRead", "sfile"), ("SGetitem", "sfile"),
                      ("SSfRead", "sfile_fn"), ("SReadFields", "recfile")]
    for n in ((9, 7, 12) if round == 0 else (r.randint(7, 12),)):
        tbl = fixed_table(n)
        names = [f[0] for f in tbl["fields"]]
        for delim in ((None, ",") if n == 9 else (None,)):
            for l in uneven_rowlists(r, n, ctx.n(30 if n == 9 else 12, 120)):
                for style, api in r.sample(allcols_styles, 2):
                    cs.append(complete(r, tbl, delim, style, api, ["list", l], ["none"]))
                if r.random() < 0.3:
                    style, api = r.choice([s for s in STYLES if s[0] != "SGetitem"])
                    cs.append(complete(r, tbl, delim, style, api, ["list", l], r.choice(col_pool(names))))
    if not quick and round == 0:
        # every subset of size 4..6 of the rows of tables with 7..10 rows (binary, all columns), sampled for 11, 12
        for n in range(7, 13):
            tbl = fixed_table(n)
            for ln in (4, 5, 6):
                subs = list(itertools.combinations(range(n), ln))
                if n > 10:
                    subs = r.sample(subs, 150)
                for sub in subs:
                    l = list(sub)
                    if r.random() < 0.25:
                        r.shuffle(l)
                    style, api = r.choice(allcols_styles)
                    cs.append(complete(r, tbl, None, style, api, ["list", l], ["none"]))
    for c in cs:
        c["split"] = False if c["style"] in ("SGetitem", "SChain") else c["split"]
        c.setdefault("family", "long-rowlist")
    return cs


STYLES = [("SRead", "recfile"), ("SReadFields", "recfile"), ("SGetitem", "recfile"), ("SChain", "recfile"),
          ("SChainRead", "recfile"), ("SSfRead", "sfile"), ("SSfReadFields", "sfile"), ("SSfRead", "sfile_fn"),
          ("SGetitem", "sfile"), ("SChain", "sfile")]


def mk(tbl, delim, style, api, rows, cols, split=False, reduce=False, r=None, family=None):
    c = {"tbl": tbl, "delim": delim, "style": style, "api": api, "rows": rows, "cols": cols,
         "split": bool(split), "reduce": bool(reduce)}
    if r is not None:
        c["rcont"] = r.choice(["list", "list", "tuple", "ndarray"])
        c["ccont"] = r.choice(["list", "list", "tuple", "ndarray"])
    if family:
        c["fam"] = family
    return c


def complete(r, tbl, delim, style, api, rows, cols):
    """fill in a legal argument combination for the style"""
    bracket = style in ("SGetitem", "SChain")
    if style == "SGetitem":
        cols = ["none"]
    if style in ("SChain", "SChainRead") and (cols[0] == "none" or cols == ["list", []]):
        # (an empty list in brackets is a ROW list for the real code, not a column list)
        cols = ["list", [f[0] for f in tbl["fields"]][:1]]
    if bracket and rows[0] == "none":
        rows = ["slice", None, None, None]
    if not bracket and rows[0] == "slice":
        rows = ["none"]
    split = (not bracket) and r.random() < 0.25
    reduce = style.startswith("SSf") and not split and r.random() < 0.35
    return mk(tbl, delim, style, api, rows, cols, split, reduce, r)


def gen_cases(ctx, round):
    r = ctx.rng
    cs = []
    quick = ctx.quick()
    tables = []
    if round == 0:
        tables.append((fixed_table(5), "fixed5"))
        tables.append((fixed_table(1), "fixed1"))
        tables.append((fixed_table(4 if quick else 6), "fixedN"))
    for _ in range(ctx.n(3, 5) if round == 0 else 2):
        text = r.random() < 0.6
        tables.append((rand_table(r, r.choice([1, 2, 3, 4, 5, 6, 6, 9]) if not quick else r.choice([2, 3, 5, 6]),
                                  r.randint(1, 5), text, big=True), "random-text" if text else "random-binary"))
    for ti, (tbl, tfam) in enumerate(tables):
        n = len(tbl["rows"])
        names = [f[0] for f in tbl["fields"]]
        text_ok = all(f[1].lstrip("<>|=")[0] in "iufS" and not f[1].startswith(">") for f in tbl["fields"])
        delims = [None] + ([d for d in DELIMS if d is not None] if text_ok else [])
        if quick and tfam != "fixed5":
            delims = [None] + ([r.choice(DELIMS[1:])] if text_ok else [])
        elif not quick and not tfam.startswith("fixed"):
            delims = [None] + (r.sample(DELIMS[1:], 2) if text_ok else [])
        if tfam == "random-text":
            delims = [d for d in delims if d is not None] or [None]
        cols_all = col_pool(names)
        for delim in delims:
            # adversarial rows x every style
            if round == 0:
                full_cross = (tfam.startswith("fixed") if not quick else (tfam == "fixed5" and delim in (None, ",")))
                for rows in adversarial_rows(n):
                    for style, api in (STYLES if full_cross else r.sample(STYLES, 2)):
                        cs.append(complete(r, tbl, delim, style, api, rows, r.choice(cols_all)))
                # every column subset in every order (<= 4 columns), a few row selections each
                for cols in cols_all:
                    style, api = r.choice([s for s in STYLES if s[0] != "SGetitem"])
                    cs.append(complete(r, tbl, delim, style, api, rand_rows(r, n, style in ("SGetitem", "SChain")), cols))
                # split / reduce with 1, 2, all columns and a scalar name
                for cols in (["none"], ["list", names[:1]], ["list", names[:2]], ["name", names[-1]]):
                    for style, api in (("SSfRead", "sfile"), ("SSfRead", "sfile_fn"), ("SSfReadFields", "sfile"),
                                       ("SRead", "recfile"), ("SReadFields", "recfile"), ("SChainRead", "recfile")):
                        for split, reduce in ((True, False), (False, True), (False, False), (True, True)):
                            if reduce and not style.startswith("SSf"):
                                continue
                            if style == "SChainRead" and cols[0] == "none":
                                continue
                            if quick and tfam != "fixed5" and r.random() < 0.55:
                                continue
                            cs.append(mk(tbl, delim, style, api, rand_rows(r, n, False), cols, split, reduce, r))
            # slices: exhaustive (thorough, n <= 6, fixed tables) or sampled
            pool = slice_pool(n)
            exhaustive = (not quick) and round == 0 and tfam.startswith("fixed") and n <= 6 and delim in (None, ",")
            chosen = pool if exhaustive else r.sample(pool, min(len(pool), ctx.n(18, 80)))
            for rows in chosen:
                style, api = r.choice([s for s in STYLES if s[0] in ("SGetitem", "SChain")])
                cs.append(complete(r, tbl, delim, style, api, rows, r.choice(cols_all)))
            if exhaustive:
                ctx.exhaustive = True
                for ln in range(0, 4):
                    for l in itertools.product(range(-1, n + 1), repeat=ln):
                        if ln == 3 and n > 4 and r.random() < 0.7:
                            continue
                        style, api = r.choice(STYLES)
                        cs.append(complete(r, tbl, delim, style, api, ["list", list(l)], r.choice(cols_all)))
            # seeded random
            for _ in range(ctx.n(15, 100)):
                style, api = r.choice(STYLES)
                cs.append(complete(r, tbl, delim, style, api, rand_rows(r, n, style in ("SGetitem", "SChain")),
                                   r.choice(cols_all)))
    cs += gen_long_rowlists(ctx, r, round)
    cs += gen_wide_text(ctx, r, round)
    # gen_many_rows (tables of > 2^16 rows) is NOT driven: evaluating the list-based model on a 65537-row table takes
    # minutes per case inside Coq (measured 412 s); the scale thresholds are covered by the wide-row family only
    for c in cs:
        c.setdefault("family", "gen")
    return cs


# ----------------------------------------------------------------------------------------------------
# histories: several calls in ONE process, arranged so that state carried across calls would show
#   mode "path"   : the same file path rewritten with another table / delimiter between the calls
#   mode "object" : one SFile / Recfile object reused for the next file through its public open()
#   mode "args"   : the same rows ndarray / columns list OBJECT passed again after being changed in place
#   mode "plain"  : fresh objects; selections that share what a lazy key would use (end points, lengths, names)
# Every call is judged as usual (model on the bytes of the file it reads = implementation?  Spec.check against
# the table that was written); the model and the checker know nothing of the history, so agreement means the
# call returned what it returns when made alone.
# ----------------------------------------------------------------------------------------------------
def _write_file(fn, arr, delim, fam):
    import esutil.sfile as sfile
    import esutil.recfile as recfile
    if os.path.exists(fn):
        os.remove(fn)
    if fam == "sfile":
        sfile.write(arr.copy(), fn, delim=delim)
        raw = open(fn, "rb").read()
        return raw[raw.index(b"\nEND\n\n") + 6:]
    recfile.write(fn, arr.copy(), delim=delim)
    return open(fn, "rb").read()


def run_history(c):
    import numpy as np
    import esutil.sfile as sfile
    import esutil.recfile as recfile
    d = WORK["dir"]
    os.makedirs(d, exist_ok=True)
    mode = c["mode"]
    on_disk, handles, shared = {}, {}, {"rows": None, "cols": None}
    outs = []
    try:
        for st in c["steps"]:
            fam = "sfile" if st["api"].startswith("sfile") else "recfile"
            fn = os.path.join(d, "c02h_%d_%d.rec" % (os.getpid(), st.get("slot", 0)))
            arr = build_array(st["tbl"])
            key = json.dumps([st["tbl"], st["delim"], fam], sort_keys=True)
            if on_disk.get(fn, (None,))[0] != key:
                on_disk[fn] = (key, _write_file(fn, arr, st["delim"], fam))
            data = on_disk[fn][1]
            names = [f[0] for f in st["tbl"]["fields"]]
            fullc = [[_cells_of(arr[nm], i) for nm in names] for i in range(arr.shape[0])]
            rows, cols = py_rows(st), py_cols(st)
            if mode == "args":
                if st["rows"][0] == "list":
                    if shared["rows"] is not None and len(shared["rows"]) == len(st["rows"][1]):
                        shared["rows"][:] = st["rows"][1]
                    else:
                        shared["rows"] = np.array(st["rows"][1], dtype="i8")
                    rows = shared["rows"]
                if st["cols"][0] == "list":
                    if shared["cols"] is not None:
                        shared["cols"][:] = st["cols"][1]
                    else:
                        shared["cols"] = list(st["cols"][1])
                    cols = shared["cols"]
            kw = {}
            if st["style"] in ("SRead", "SSfRead"):
                kw = {"rows": rows, "columns": cols}
            elif st["style"] in ("SReadFields", "SSfReadFields"):
                kw = {"rows": rows, "fields": cols}
            if st["split"]:
                kw["split"] = True
            if st["reduce"]:
                kw["reduce"] = True
            if st.get("header") and st["style"].startswith("SSf"):
                kw["header"] = True
            want = names if st["cols"][0] == "none" else ([st["cols"][1]] if st["cols"][0] == "name" else
                                                          [n for n in names if n in st["cols"][1]])
            try:
                if st["api"] == "sfile_fn":
                    res = sfile.read(fn, **kw)
                else:
                    h = handles.get(fam) if mode == "object" else None
                    if h is None:
                        if fam == "sfile":
                            h = sfile.SFile(fn)
                        else:
                            rk = {"nrows": int(arr.size)} if st.get("nrows_kw") else {}
                            h = recfile.Recfile(fn, dtype=arr.dtype, delim=st["delim"], **rk)
                        if mode == "object":
                            handles[fam] = h
                    elif fam == "sfile":
                        h.open(fn)                               # the same object, next file
                    else:
                        h.open(fn, mode="r", dtype=arr.dtype, delim=st["delim"])
                    try:
                        res = _on_handle(h, st["style"], rows, cols, kw, st)
                    finally:
                        if mode != "object":
                            h.close()
                if "header" in kw:
                    res, hdr = res
                    if not isinstance(hdr, dict) or hdr.get("_SIZE") != arr.size:
                        res = "bad header"
                out = ["ok", canon_value(res, arr, want)]
                if st.get("scribble"):
                    # the caller overwrites what it was given; later calls must not see that
                    for a in (res if isinstance(res, tuple) else (res,)):
                        try:
                            if isinstance(a, np.ndarray) and a.size and a.flags.writeable:
                                a[...] = np.zeros((), dtype=a.dtype)      # works for strided field views as well
                        except Exception:  # noqa  (the scribble is the harness's own action, never an outcome)
                            pass
            except Exception as e:  # noqa
                out = ["err", core.errclass(e), "%s: %s" % (type(e).__name__, str(e)[:160])]
            outs.append({"out": out, "full": fullc, "data": data.hex(), "nrows": int(arr.size)})
    finally:
        for h in handles.values():
            try:
                h.close()
            except Exception:  # noqa
                pass
        for fn in on_disk:
            if os.path.exists(fn):
                os.remove(fn)
    return outs


class History(_Forked):
    name = "history"
    search_rounds = 1
    chunk = 40

    def cases(self, ctx, round=0):
        return self._remember(gen_histories(ctx, round))

    def compute(self, c):
        return run_history(c)

    def crashed(self, c):
        outs = []
        for st in c["steps"]:
            arr = build_array(st["tbl"])
            names = [f[0] for f in st["tbl"]["fields"]]
            outs.append({"out": CRASH, "full": [[_cells_of(arr[nm], i) for nm in names] for i in range(arr.shape[0])],
                         "data": "", "nrows": int(arr.size)})
        return outs

    def _terms(self, c, outs):
        ts = []
        for st, o in zip(c["steps"], outs):
            names = [f[0] for f in st["tbl"]["fields"]]
            pt = oracle_table(st["tbl"]) if st["delim"] is not None else []
            ts.append("v_req %s %s %s %s %s" % (ctab3(pt), crfile(st["tbl"], st["delim"], bytes.fromhex(o["data"]), o["nrows"]),
                                                 crequest(st, names), cgrid(o["full"]), cout(o["out"])))
        return ts

    def term(self, c, outs):
        return "v_seq [%s]" % "; ".join(self._terms(c, outs))

    def show(self, c):
        return None

    def nontrivial(self, c, outs):
        return len(c["steps"]) >= 2

    def family(self, c):
        return "history/%s/%s" % (c["mode"], c.get("what", ""))


def _step(r, tbl, delim, style, api, rows, cols, slot=0, split=False, reduce=False):
    st = complete(r, tbl, delim, style, api, rows, cols)
    st["split"], st["reduce"] = bool(split and style not in ("SGetitem", "SChain")), bool(reduce and style.startswith("SSf"))
    st["slot"] = slot
    st["header"] = style.startswith("SSf") and api != "x" and r.random() < 0.3
    st["nrows_kw"] = r.random() < 0.3
    return st


def gen_histories(ctx, round):
    r = ctx.rng
    hs = []
    col_styles = [s for s in STYLES if s[0] != "SGetitem"]
    bases = [(fixed_table(5), None), (fixed_table(5), ",")]
    for _ in range(ctx.n(2, 8)):
        text = r.random() < 0.4
        t = rand_table(r, r.choice([2, 3, 5, 6]), r.randint(2, 5), text, big=True)
        bases.append((t, r.choice(DELIMS[1:]) if text else None))
    for tbl, delim in bases:
        n = len(tbl["rows"])
        names = [f[0] for f in tbl["fields"]]
        text = delim is not None
        sels = [["list", names[:2]], ["name", names[0]], ["name", names[-1]], ["list", [names[-1], names[0]]], ["none"],
                r.choice(col_pool(names))]
        for cols in sels:
            # (b) same path, same record size, same field names -- another table
            tw = twin_table(r, tbl, text)
            rows = rand_rows(r, n, False)
            seq = []
            for k, t in enumerate((tbl, tw, tbl)):
                style, api = r.choice(col_styles)
                seq.append(_step(r, t, delim, style, api, rows if r.random() < 0.7 else rand_rows(r, n, False), cols,
                                 slot=0, split=r.random() < 0.2, reduce=r.random() < 0.2))
            hs.append({"mode": "path", "what": "twin-types", "steps": seq})
            # (c) one object, next file
            tw2 = twin_table(r, tbl, text)
            fam_api = r.choice(["sfile", "recfile"])
            seq = []
            for k, t in enumerate((tbl, tw2, tbl)):
                style, api = r.choice([s for s in col_styles if s[1] == fam_api])
                seq.append(_step(r, t, delim, style, api, rand_rows(r, n, False), cols, slot=k % 2))
            hs.append({"mode": "object", "what": "reopen", "steps": seq})
        # a full read first, then a subset of the twin; and the other way round
        tw = twin_table(r, tbl, text)
        hs.append({"mode": "path", "what": "full-then-subset", "steps": [
            _step(r, tbl, delim, "SSfRead", "sfile", ["none"], ["none"]),
            _step(r, tw, delim, "SSfRead", "sfile", ["none"], ["list", names[:1]]),
            _step(r, tbl, delim, "SRead", "recfile", ["none"], ["list", names[:1]]),
            _step(r, tw, delim, "SRead", "recfile", ["none"], ["none"])]})
        # same path, same byte size, another delimiter
        if text:
            d2 = r.choice([d for d in DELIMS[1:] if d != delim])
            hs.append({"mode": "path", "what": "delimiter-switch", "steps": [
                _step(r, tbl, delim, "SSfRead", "sfile", rand_rows(r, n, False), r.choice(sels)),
                _step(r, tbl, d2, "SSfRead", "sfile", rand_rows(r, n, False), r.choice(sels)),
                _step(r, tbl, delim, "SChain", "sfile", rand_rows(r, n, True), ["list", names[:1]])]})
        # the caller scribbles over the RETURNED arrays and repeats the call (results must not be shared or cached)
        for _ in range(2):
            style, api = r.choice(STYLES)
            rows = rand_rows(r, n, style in ("SGetitem", "SChain"))
            cols = r.choice(sels)
            seq = []
            for k in range(3):
                st = _step(r, tbl, delim, style, api, rows, cols, split=(k == 0 and r.random() < 0.3))
                st["scribble"] = True
                seq.append(st)
            hs.append({"mode": r.choice(["plain", "object"]), "what": "returned-array-overwritten", "steps": seq})
        # (a) the same argument objects, changed in place between the calls
        for _ in range(2):
            ln = r.randint(1, 3)
            style, api = r.choice([s for s in col_styles if s[0] not in ("SChain",)])
            k = r.randint(1, min(2, len(names)))
            seq = [_step(r, tbl, delim, style, api, ["list", [r.randint(0, n - 1) for _ in range(ln)]],
                         ["list", r.sample(names, k)]) for _ in range(3)]
            hs.append({"mode": "args", "what": "mutated-arguments", "steps": seq})
    # (b) selections sharing end points / length on a longer table, all columns and a subset, binary and text
    for delim in (None, ","):
        n = r.choice([7, 9, 12])
        tbl = fixed_table(n)
        for _ in range(ctx.n(4, 20)):
            ls = uneven_rowlists(r, n, 1)
            if not ls:
                continue
            l = sorted(set(ls[0]))
            a, b, ln = l[0], l[-1], len(l)
            others = [sorted([a, b] + r.sample(range(a + 1, b), ln - 2)) for _ in range(2) if b - a - 1 >= ln - 2]
            style, api = r.choice([("SRead", "recfile"), ("SSfRead", "sfile"), ("SGetitem", "sfile")])
            seq = [_step(r, tbl, delim, style, api, ["list", x], ["none"]) for x in [l] + others]
            hs.append({"mode": r.choice(["plain", "object", "args"]), "what": "same-end-points", "steps": seq})
    for h in hs:
        h["family"] = "history"
    return hs


ENTRIES = [Algebra()] + [Read(k) for k in ("slice_binary", "slice_unpacked", "rowlist", "scalar_row", "columns",
                                             "fields_kw", "options")] + [History()]

TRUSTED = [
    "Coq 8.16.1 kernel (coqc, vm_compute; no native_compute); every theorem of C02/Properties.v is closed under the global context",
    "T-int translator (harness/translate/tint.py, harness/props/c02_translate.py): prints Gallina for _process_slice, _slice2rows, "
    "_fix_range, _get_slice_nrows from the Python source of the tree under check; validated on every run by the 'algebra' "
    "correspondence (regenerated function = the Python function it came from, exhaustive for n <= 6)",
    "hand-written model C02/Model.v of _get_rows2read, get_colnums, Recfile.read / __getitem__ / RecfileColumnSubset, SFile.read, "
    "split_fields, reduce_array and of the C++ cursor loops read_binary_slice, read_binary_columns (text: C04/TextModel.v "
    "read_text_columns); tied to the code by the correspondence run on every check (differential testing on file bytes)",
    "modelled, not verified: numpy (atleast_1d, astype, unique, arange, zeros, field indexing of structured arrays), C stdio "
    "(fseeko beyond EOF, fread, fgetc), glibc fscanf/strtod for the tokens of text files (floating-point values through a per-case "
    "oracle table computed by Python's float()), the SWIG wrapper (every C++ exception is RuntimeError)",
    "python harness (harness/props/C02.py): generators, drivers of the real code, canonicalisation of returned arrays "
    "(column positions by name + dtype equality with the full read), literal printers; coqc evaluating Exec.v verdict terms",
]


# ----------------------------------------------------------------------------------------------------
# regenerate Gen.v and, when it changed, rebuild the C02 development against the new text
# ----------------------------------------------------------------------------------------------------
C02_FILES_MODEL = ["Arange", "Gen", "Model", "Spec", "Exec"]


def _proof_files():
    proj = open(os.path.join(core.COQDIR, "_CoqProject")).read().split()
    mine = [os.path.basename(p)[:-2] for p in proj if p.startswith("theories/C02/") and p.endswith(".v")]
    return [m for m in mine if m not in C02_FILES_MODEL]


def regenerate(ctx):
    """returns True when the committed Gen.v is what the source says (tie intact, cached .vo valid)"""
    committed = open(os.path.join(core.COQDIR, "theories", "C02", "Gen.v")).read()
    try:
        text = c02_translate.generate(ctx.impl)
    except Exception as e:  # noqa  (Untranslatable, SyntaxError, missing function, ...)
        ctx.obligation("T-int: Gen.v regenerated from esutil/recfile/Util.py", False, str(e))
        ctx.violation("the integer functions of Recfile left the translatable subset (%s): the theorems about Gen.v are no "
                      "longer tied to the source; falling back to the committed model + correspondence" % str(e)[:200],
                      {"kind": "translation", "error": str(e), "no_longer_checks": "C02/Gen.v = source"}, found_input=False)
        return False
    if text == committed:
        ctx.obligation("T-int: Gen.v regenerated from esutil/recfile/Util.py is identical to the committed text", True)
        return True
    ctx.notes.append("Gen.v regenerated from the source differs from the committed text: recompiling C02 against it")
    ov = os.path.join(ctx.work, "overlay", "theories")
    os.makedirs(os.path.join(ov, "C02"))
    for sub in ("Common", "C04"):
        os.makedirs(os.path.join(ov, sub), exist_ok=True)
        for fn in os.listdir(os.path.join(core.COQDIR, "theories", sub)):
            if fn.endswith(".vo"):
                shutil.copy(os.path.join(core.COQDIR, "theories", sub, fn), os.path.join(ov, sub, fn))
    for f in os.listdir(os.path.join(core.COQDIR, "theories", "C02")):
        if f.endswith(".v"):
            shutil.copy(os.path.join(core.COQDIR, "theories", "C02", f), os.path.join(ov, "C02", f))
    open(os.path.join(ov, "C02", "Gen.v"), "w").write(text)
    flags = ["-Q", ov, "EsVerif"]
    ok_model = True
    for m in C02_FILES_MODEL:
        rc, txt = core.coqc_file(os.path.join(ov, "C02", m + ".v"), 600, flags)
        if rc != 0:
            ok_model = False
            ctx.obligation("regenerated Gen.v: C02/%s.v compiles" % m, False, txt[-600:])
            break
    if not ok_model:
        ctx.violation("the regenerated Gen.v does not compile with the C02 model; falling back to the committed model",
                      {"kind": "translation", "no_longer_checks": "C02/Gen.v = source"}, found_input=False)
        return False
    core.COQFLAGS[:] = flags          # the cases of this run are evaluated against the regenerated model
    bad = []
    pf = _proof_files()
    pf = [m for m in pf if m == "GenTie"] + [m for m in pf if m != "GenTie"]       # the tie lemmas first
    for m in pf:
        rc, txt = core.coqc_file(os.path.join(ov, "C02", m + ".v"), 900, flags)
        ctx.obligation("regenerated Gen.v: C02/%s.v re-proved" % m, rc == 0, txt[-600:])
        if rc != 0:
            bad.append((m, txt[-1200:]))
            break
    if bad:
        ctx.violation("C02/%s.v is no longer provable over the definitions regenerated from the source (Gen.v: _process_slice, "
                      "_slice2rows, _fix_range, _get_slice_nrows, _get_rows2read, Records::process_slice, the decision trees of "
                      "Recfile.read / SFile.read)%s" % (bad[0][0], ": the model is no longer what the source says (tie lemma)"
                                                         if bad[0][0] == "GenTie" else ""),
                      {"kind": "proof-regenerated", "file": bad[0][0], "log_tail": bad[0][1],
                       "no_longer_checks": "C02/Properties.v over the regenerated Gen.v"}, found_input=False)
    return False


# ----------------------------------------------------------------------------------------------------
# scope monitor: are the hypotheses of C02_request_spec (ScopeProofs.wf_bin_b / wf_text_b) true of the REAL file
# bytes of a case?  Evaluated inside Coq on a sample of the cases of the run.
# ----------------------------------------------------------------------------------------------------
PRE_SCOPE = PRE + "From EsVerif.C02 Require Import RequestInst ScopeProofs ExecScope.\n"


def ctable_text(tbl):
    flds, rows = [], []
    arr = build_array(tbl)
    for n, t, sh in tbl["fields"]:
        base = t.lstrip("<>|=")
        order = "NA" if (base[0] == "S" or esz(base) == 1) else "LE"
        flds.append("{| fname := []; fkind := %s; forder := %s; fshape := %s |}" % (ckind(base), order, clist(sh)))
    for i in range(arr.shape[0]):
        r = []
        for n, t, sh in tbl["fields"]:
            base = t.lstrip("<>|=")
            raw = arr[n][i:i + 1].tobytes()
            w = esz(base)
            r.append("[" + "; ".join(chex(raw[k:k + w]) for k in range(0, len(raw), w)) + "]")
        rows.append("[" + "; ".join(r) + "]")
    return "{| tdt := [%s]; trows := [%s] |}" % ("; ".join(flds), "; ".join(rows))


def scope_term(c, o):
    names = [f[0] for f in c["tbl"]["fields"]]
    ids = clist([name_id(i) for i in range(len(names))])
    if c["delim"] is None:
        return "v_scope_bin %s %s %s %s" % (crfile(c["tbl"], None, bytes.fromhex(o["data"]), o["nrows"]), crequest(c, names),
                                            cgrid(o["full"]), cout(o["out"]))
    ft, pt = oracle_tables(c["tbl"])
    return "v_scope_text %s %s %s %s %s %s %s %s %s" % (ctab3(ft), ctab3(pt), cbyte(c["delim"]), ids, ctable_text(c["tbl"]),
                                                        chex(bytes.fromhex(o["data"])), crequest(c, names), cgrid(o["full"]),
                                                        cout(o["out"]))


def scope_monitor(ctx):
    r = ctx.rng
    pool = [c for c in all_cases(ctx, 0) if c.get("family") != "wide-text-rows" and len(c["tbl"]["rows"]) <= 12]
    text = [c for c in pool if c["delim"] is not None]
    binary = [c for c in pool if c["delim"] is None]
    k = ctx.n(80, 800)
    sample = r.sample(text, min(k, len(text))) + r.sample(binary, min(k, len(binary)))
    ent = Read("columns")
    outs = _run_forked(ent.compute, sample, "scope")
    sample, outs = [c for c, o in zip(sample, outs) if o is not None], [o for o in outs if o is not None]
    try:
        vals = core.coq_eval(os.path.join(ctx.work, "scope"), PRE_SCOPE, [scope_term(c, o) for c, o in zip(sample, outs)],
                             tag="scope", shard=40)
    except core.CoqEvalError as e:
        ctx.obligation("scope monitor evaluated (hypotheses of C02_request_spec on the real file bytes)", False, str(e)[-400:])
        ctx.notes.append("scope monitor not evaluated: %s" % str(e)[-300:])
        return
    vals = [int(v.replace("%Z", "").strip("() ")) for v in vals]
    out_of_scope = [c for c, v in zip(sample, vals) if v == 4]
    impossible = [c for c, v in zip(sample, vals) if v == 2]
    ctx.count("scope:sampled", len(vals))
    ctx.count("scope:in", sum(1 for v in vals if v != 4))
    ctx.count("scope:text_in", sum(1 for c, v in zip(sample, vals) if v != 4 and c["delim"] is not None))
    ctx.obligation("scope monitor: wf_bin_b / wf_text_b hold of the real file bytes for all %d sampled cases "
                   "(so C02_request_holds applies to them)" % len(vals), not out_of_scope and not impossible)
    if out_of_scope:
        c = min(out_of_scope, key=lambda x: len(json.dumps(x)))
        ctx.violation("scope monitor: %d of %d sampled cases lie outside the hypotheses of C02_request_spec (file bytes differ from "
                      "the writer model, or table outside wf_text / wf_bin)" % (len(out_of_scope), len(vals)),
                      {"kind": "scope", "entry": kind_of(c), "case": c,
                       "no_longer_checks": "hypotheses wf_bin_b / wf_text_b of C02_request_spec on the real file bytes"},
                      found_input=False)
    if impossible:
        ctx.violation("scope monitor: verdict 2 on an in-scope case contradicts C02_scope_*_agree_implies_ok (harness or literal printer defect)",
                      {"kind": "scope-internal", "case": impossible[0]}, found_input=False)


def run(ctx, replay=None):
    ctx.rule = ("corpus + adversarial selections (negative / clipped / reversed slice bounds, steps, unsorted and repeated row "
                "lists, out-of-range rows, every ordered column subset of <= 4 columns, split/reduce) x 10 access styles x "
                "binary + 4 delimiters, plus seeded random; thorough: every slice with bounds in [-n-2,n+2] u {None} and step in "
                "{None,1,2,3,n+1} and every row list of length <= 3 over [-1,n] on the fixed tables (n <= 6).  Each case runs on the "
                "real esutil and inside Coq (model on the file bytes = implementation?  Spec.check on the implementation's output "
                "against its own full read).  non-trivial: the call raised, or the selection is neither empty nor the whole table.")
    ctx.trusted = TRUSTED
    # the wide-row text cases are 30-80 KB byte lists walked by structurally recursive model functions: coqc needs
    # more than the default 8 MB of stack for them (inherited by the coqc processes this run starts)
    try:
        import resource
        hard = resource.getrlimit(resource.RLIMIT_STACK)[1]
        resource.setrlimit(resource.RLIMIT_STACK, (hard, hard))
    except Exception:  # noqa
        pass
    WORK["dir"] = os.path.join(ctx.work, "files")
    core.proof_step(ctx, "C02", core.ALLOW_DISCRETE, extra_targets=["theories/C02/ExecScope.vo"])
    regenerate(ctx)
    # smaller case files than the runner's default (400): the eight entries run one after the other, so
    # parallelism has to come from the shards of each entry
    orig = core.coq_eval

    def sharded(workdir, preamble, terms, **kw):
        kw.setdefault("shard", 100)
        return orig(workdir, preamble, terms, **kw)
    core.coq_eval = sharded
    try:
        differential(ctx, PRE, ENTRIES, replay)
        if replay is None:
            scope_monitor(ctx)
    finally:
        core.coq_eval = orig
        shutil.rmtree(WORK["dir"], ignore_errors=True)

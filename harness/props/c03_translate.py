"""C03 — structural facts of the anchored source that the hand-written model relies on, extracted on
every run (python `ast` for sfile.py, regexes for records.cpp).  FAIL-CLOSED: anything that cannot be
found raises ValueError, which the check reports as a broken tie (no-failing-input-found).

Extracted (and compared with the model's constants / shape in C03.source_tie):
  * sfile.write():        append -> mode "r+", otherwise mode "w"
  * SFile.open():         the guard `mode == "r+" and not os.path.exists(...)` assigns the fallback mode to
                          BOTH the local and self._mode; the fallback constant
  * SFile.write():        order of the calls: _ensure_open_for_writing, _ensure_compatible_dtype,
                          _write_header, self._robj.write
  * _ensure_compatible_dtype(): the `raise` sits directly in the body of `if self._dtype is not None`
                          (so it covers the binary and the text branch)
  * _update_size():       size_new = size_current + size_add; update_row_count(size_new); self._size = size_new
  * records.cpp           update_row_count: rewind, the SIZE format, seek to the end;
                          Write: seek to the end BEFORE the rows, fflush AFTER them
"""
import ast
import os
import re


def _method(cls, name):
    for n in cls.body:
        if isinstance(n, ast.FunctionDef) and n.name == name:
            return n
    raise ValueError("sfile.py: SFile.%s not found" % name)


def _calls_in_order(fn):
    out = []
    for st in fn.body:
        for n in ast.walk(st):
            if isinstance(n, ast.Call) and isinstance(n.func, ast.Attribute):
                out.append(ast.unparse(n.func))
    return out


def extract(impl_root):
    src = open(os.path.join(impl_root, "esutil", "sfile.py")).read()
    tree = ast.parse(src)
    cls = [n for n in tree.body if isinstance(n, ast.ClassDef) and n.name == "SFile"]
    if not cls:
        raise ValueError("sfile.py: class SFile not found")
    cls = cls[0]
    k = {}

    # ---- sfile.write(): if append: mode = "r+" else: mode = "w"
    wfn = [n for n in tree.body if isinstance(n, ast.FunctionDef) and n.name == "write"]
    if not wfn:
        raise ValueError("sfile.py: function write not found")
    found = None
    for n in ast.walk(wfn[0]):
        if isinstance(n, ast.If) and isinstance(n.test, ast.Name) and n.test.id == "append":
            def const_assign(body):
                for st in body:
                    if isinstance(st, ast.Assign) and len(st.targets) == 1 and isinstance(st.targets[0], ast.Name) \
                            and st.targets[0].id == "mode" and isinstance(st.value, ast.Constant):
                        return st.value.value
                return None
            found = (const_assign(n.body), const_assign(n.orelse))
    if not found or None in found:
        raise ValueError("sfile.py: write(): `if append: mode = ... else: mode = ...` not found")
    k["append_mode"], k["create_mode"] = found

    # ---- SFile.open(): fallback for a missing path
    op = _method(cls, "open")
    fb = None
    for n in ast.walk(op):
        if isinstance(n, ast.If) and "os.path.exists" in ast.unparse(n.test) and '"r+"' in ast.unparse(n.test).replace("'", '"'):
            consts, sets_self = [], False
            for st in n.body:
                if isinstance(st, ast.Assign):
                    tg = [ast.unparse(t) for t in st.targets]
                    if isinstance(st.value, ast.Constant):
                        consts.append(st.value.value)
                    if "self._mode" in tg:
                        sets_self = True
            fb = (consts, sets_self)
    if fb is None or len(fb[0]) != 1:
        raise ValueError("sfile.py: SFile.open(): the fallback for mode 'r+' on a missing path not found")
    k["fallback_mode"], k["fallback_sets_self_mode"] = fb[0][0], fb[1]

    # ---- SFile.write(): order of the calls
    k["write_calls"] = [c for c in _calls_in_order(_method(cls, "write"))
                        if c in ("self._ensure_open_for_writing", "self._ensure_compatible_dtype", "self._write_header", "self._robj.write")]

    # ---- _ensure_compatible_dtype(): where the raise sits
    ec = _method(cls, "_ensure_compatible_dtype")
    outer = [n for n in ec.body if isinstance(n, ast.If) and "self._dtype is not None" in ast.unparse(n.test)]
    if len(outer) != 1:
        raise ValueError("sfile.py: _ensure_compatible_dtype(): `if self._dtype is not None` not found")
    direct = [st for st in outer[0].body if isinstance(st, ast.If) and ast.unparse(st.test) == "bad"
              and any(isinstance(x, ast.Raise) for x in st.body)]
    k["raise_covers_both"] = len(direct) == 1
    inner = [st for st in outer[0].body if isinstance(st, ast.If) and "self._delim is None" in ast.unparse(st.test)]
    if len(inner) != 1:
        raise ValueError("sfile.py: _ensure_compatible_dtype(): `if self._delim is None` not found")
    k["binary_test"] = [ast.unparse(st.test) for st in inner[0].body if isinstance(st, ast.If)]

    # ---- _update_size()
    us = ast.unparse(_method(cls, "_update_size"))
    k["update_size"] = [bool(re.search(r"size_new = size_current \+ size_add", us)),
                        bool(re.search(r"update_row_count\(size_new\)", us)),
                        bool(re.search(r"self\._size = size_new", us))]

    # ---- records.cpp
    cpp = open(os.path.join(impl_root, "esutil", "recfile", "records.cpp")).read()
    m = re.search(r"PyObject\*\s+Records::update_row_count\(long nrows\)\s*\{(.*?)\n\}", cpp, re.S)
    if not m:
        raise ValueError("records.cpp: update_row_count not found")
    body = m.group(1)
    fm = re.findall(r'fprintf\(\s*mFptr\s*,\s*"((?:[^"\\]|\\.)*)"\s*,\s*nrows\s*\)', body)
    if len(fm) != 1:
        raise ValueError("records.cpp: update_row_count: the fprintf of the SIZE line not found")
    k["fmt"] = fm[0].encode().decode("unicode_escape")
    k["pyfmt"] = re.sub(r"%(\d*)l+d", r"%\1d", k["fmt"])
    pos = [body.find("rewind"), body.find("fprintf"), body.find("SEEK_END")]
    k["update_order"] = all(p >= 0 for p in pos) and pos == sorted(pos)
    w = re.search(r"PyObject\*\s+Records::Write\(PyObject\* obj\)\s*\{(.*?)\n\}", cpp, re.S)
    if not w:
        raise ValueError("records.cpp: Write not found")
    wb = re.sub(r"//[^\n]*", "", w.group(1))
    pos = [wb.find("SEEK_END"), wb.find("WriteAllAsBinary"), wb.find("WriteRows"), wb.find("fflush(mFptr)")]
    k["write_order"] = all(p >= 0 for p in pos) and pos == sorted(pos)
    return k


# what Model.v assumes (each entry: description, predicate on the extracted facts)
EXPECTED = [
    ("sfile.write(): append=True opens with mode 'r+' (Model.step FnWrite true -> open_rp)", lambda k: k["append_mode"] == "r+"),
    ("sfile.write(): append=False opens with mode 'w' (Model.step FnWrite false -> open_w)", lambda k: k["create_mode"] == "w"),
    ("SFile.open(): mode 'r+' on a missing path falls back to mode 'w' (Model.open_rp, disk = None)", lambda k: k["fallback_mode"] == "w"),
    ("SFile.open(): the fallback is stored in self._mode", lambda k: k["fallback_sets_self_mode"] is True),
    ("SFile.write(): _ensure_open_for_writing, _ensure_compatible_dtype, _write_header, _robj.write in this order (Model.sf_write)",
     lambda k: k["write_calls"] == ["self._ensure_open_for_writing", "self._ensure_compatible_dtype", "self._write_header", "self._robj.write"]),
    ("_ensure_compatible_dtype(): `if bad: raise` covers the binary and the text branch (Model.compatible)", lambda k: k["raise_covers_both"]),
    ("_ensure_compatible_dtype(): binary test is `self._dtype != data.dtype` (Model.dtype_eqb)", lambda k: k["binary_test"] == ["self._dtype != data.dtype"]),
    ("_update_size(): size_new = size_current + size_add; update_row_count(size_new); self._size = size_new (Model.sf_write, h_size)",
     lambda k: all(k["update_size"])),
    ("records.cpp update_row_count: rewind, fprintf of the SIZE line, seek to the end (Model.overwrite at offset 0)", lambda k: k["update_order"]),
    ("records.cpp Write: seek to the end before the rows, fflush after them (Model.sf_write: f1 ++ payload, on disk when the call returns)",
     lambda k: k["write_order"]),
]


# =================================================================================================
# Translation into Gallina (round 6): the decisions of the anchored code as DEFINITIONS of C03/Gen.v.
# The text returned by generate() is compared with the committed coq/theories/C03/Gen.v on every run
# and, when it differs, compiled together with the tie lemmas (GenTie.v) in a scratch directory.
# Fail-closed: anything outside the small vocabulary below raises ValueError.
# =================================================================================================

MODES = {"r+": "MRP", "w": "MW"}
ERRS = {"ValueError": "EValue", "RuntimeError": "ERuntime", "TypeError": "EType", "IndexError": "EIndex", "KeyError": "EKey"}


class _Expr:
    """expressions of _ensure_compatible_dtype / _update_size / SFile.open -> Gallina"""

    def __init__(self, names):
        self.names = names          # python name -> (gallina term, type)

    def typed(self, e):
        u = ast.unparse(e)
        if u in self.names:
            return self.names[u]
        if isinstance(e, ast.Constant) and isinstance(e.value, int) and not isinstance(e.value, bool):
            return ("%d" % e.value, "Z")
        if isinstance(e, ast.Constant) and isinstance(e.value, str) and e.value in MODES:
            return (MODES[e.value], "mode")
        m = re.fullmatch(r"len\((d1|d2)\)", u)
        if m:
            return ("dlen %s" % m.group(1), "Z")
        m = re.fullmatch(r"(d1|d2)\[0\]", u)
        if m:
            return ("dname %s" % m.group(1), "bytes")
        m = re.fullmatch(r"(d1|d2)\[1\]\[1:\]", u)
        if m:
            return ("dtail %s" % m.group(1), "tail")
        m = re.fullmatch(r"(d1|d2)\[2\]", u)
        if m:
            return ("dshape %s" % m.group(1), "zl")
        if isinstance(e, ast.BinOp) and isinstance(e.op, ast.Add):
            a, ta = self.typed(e.left)
            b, tb = self.typed(e.right)
            if ta == tb == "Z":
                return ("%s + %s" % (a, b), "Z")
        raise ValueError("untranslatable expression: %s" % u)

    EQ = {"Z": "(%s =? %s)", "bytes": "bytes_eqb (%s) (%s)", "tail": "tail_eqb (%s) (%s)", "zl": "zl_eqb (%s) (%s)",
          "dtype": "dtype_eqb %s %s", "mode": "mode_eqb %s %s"}

    def test(self, e):
        """a boolean expression -> Gallina bool"""
        if isinstance(e, ast.BoolOp):
            op = " && " if isinstance(e.op, ast.And) else " || "
            return "(" + op.join(self.test(v) for v in e.values) + ")"
        if isinstance(e, ast.UnaryOp) and isinstance(e.op, ast.Not):
            return "negb (%s)" % self.test(e.operand)
        u = ast.unparse(e)
        if u in self.names and self.names[u][1] == "bool":
            return self.names[u][0]
        if isinstance(e, ast.Compare) and len(e.ops) == 1 and isinstance(e.ops[0], (ast.Eq, ast.NotEq)):
            a, ta = self.typed(e.left)
            b, tb = self.typed(e.comparators[0])
            if ta != tb or ta not in self.EQ:
                raise ValueError("untranslatable comparison: %s" % u)
            t = self.EQ[ta] % (a, b)
            return t if isinstance(e.ops[0], ast.Eq) else "negb (%s)" % t
        raise ValueError("untranslatable test: %s" % u)


def _sets_bad(body, allow_break):
    """the body of a test that marks the chunk incompatible: mess = ...; bad = True[; break]"""
    seen = False
    for st in body:
        u = ast.unparse(st)
        if u == "bad = True":
            seen = True
        elif isinstance(st, ast.Assign) and ast.unparse(st.targets[0]) == "mess":
            continue
        elif isinstance(st, ast.Break) and allow_break:
            continue
        else:
            raise ValueError("_ensure_compatible_dtype: unexpected statement %r" % u)
    if not seen:
        raise ValueError("_ensure_compatible_dtype: a test does not set bad")
    return True


def _compat(cls):
    ec = _method(cls, "_ensure_compatible_dtype")
    outer = [n for n in ec.body if isinstance(n, ast.If)]
    if len(outer) != 1 or ast.unparse(outer[0].test) != "self._dtype is not None" or outer[0].orelse:
        raise ValueError("_ensure_compatible_dtype: `if self._dtype is not None:` not found")
    body = outer[0].body
    if len(body) != 3 or ast.unparse(body[0]) != "bad = False" or not isinstance(body[1], ast.If) or not isinstance(body[2], ast.If):
        raise ValueError("_ensure_compatible_dtype: expected `bad = False; if self._delim is None: .. else: ..; if bad: raise`")
    br, rs = body[1], body[2]
    if ast.unparse(br.test) != "self._delim is None":
        raise ValueError("_ensure_compatible_dtype: `if self._delim is None` not found")
    if ast.unparse(rs.test) != "bad" or len(rs.body) != 1 or not isinstance(rs.body[0], ast.Raise) or rs.orelse:
        raise ValueError("_ensure_compatible_dtype: `if bad: raise ...` not found")
    exc = rs.body[0].exc
    ename = exc.func.id if isinstance(exc, ast.Call) and isinstance(exc.func, ast.Name) else None
    if ename not in ERRS:
        raise ValueError("_ensure_compatible_dtype: unknown exception class")
    # binary
    if len(br.body) != 1 or not isinstance(br.body[0], ast.If) or br.body[0].orelse:
        raise ValueError("_ensure_compatible_dtype: binary branch: one test expected")
    X = _Expr({"self._dtype": ("fdt", "dtype"), "data.dtype": ("cdt", "dtype")})
    _sets_bad(br.body[0].body, False)
    bad_binary = X.test(br.body[0].test)
    # text
    tb = br.orelse
    want = ["names = self._dtype.names", "nnames = len(names)", "input_names = data.dtype.names", "ninput = len(input_names)"]
    if [ast.unparse(x) for x in tb[:4]] != want or len(tb) != 5 or not isinstance(tb[4], ast.If):
        raise ValueError("_ensure_compatible_dtype: text branch: preamble changed")
    cnt = tb[4]
    X = _Expr({"nnames": ("nnames", "Z"), "ninput": ("ninput", "Z")})
    _sets_bad(cnt.body, False)
    count_test = X.test(cnt.test)
    eb = cnt.orelse
    if [ast.unparse(x) for x in eb[:2]] != ["descr = self._dtype.descr", "idescr = data.dtype.descr"] or len(eb) != 3 \
            or not isinstance(eb[2], ast.For) or ast.unparse(eb[2].target) != "(d1, d2)" or ast.unparse(eb[2].iter) != "zip(descr, idescr)":
        raise ValueError("_ensure_compatible_dtype: text branch: loop over zip(descr, idescr) not found")
    loop = eb[2].body
    if [ast.unparse(x) for x in loop[:2]] != ["l1 = len(d1)", "l2 = len(d2)"]:
        raise ValueError("_ensure_compatible_dtype: loop preamble changed")
    X = _Expr({"l1": ("l1", "Z"), "l2": ("l2", "Z")})
    terms = []
    for st in loop[2:]:
        if not isinstance(st, ast.If) or st.orelse:
            raise ValueError("_ensure_compatible_dtype: loop: unexpected statement %r" % ast.unparse(st)[:60])
        if len(st.body) == 1 and isinstance(st.body[0], ast.If) and not st.body[0].orelse:      # if l1 == 3: if d1[2] != d2[2]: ...
            _sets_bad(st.body[0].body, True)
            terms.append("(if %s then %s else false)" % (X.test(st.test), X.test(st.body[0].test)))
        else:
            _sets_bad(st.body, True)
            terms.append(X.test(st.test))
    return {"bad_binary": bad_binary, "count_test": count_test, "field_terms": terms, "err": ERRS[ename]}


def _open_mode(cls):
    op = _method(cls, "open")
    ifs = [n for n in op.body if isinstance(n, ast.If)]
    fb = [n for n in ifs if "os.path.exists" in ast.unparse(n.test)]
    if len(fb) != 1 or fb[0].orelse:
        raise ValueError("SFile.open: the fall-back test not found")
    t = fb[0].test
    X = _Expr({"mode": ("m", "mode"), "os.path.exists(self._filename)": ("file_exists", "bool")})
    cond = X.test(t)
    assigns = [ast.unparse(x) for x in fb[0].body]
    m = re.fullmatch(r"mode = '(r\+|w)'", assigns[0]) if assigns else None
    if not m or assigns[1:] != ["self._mode = mode"]:
        raise ValueError("SFile.open: fall-back body is not `mode = <const>; self._mode = mode`")
    # the filename that is tested must be the expanded one that is opened
    hd = [n for n in ifs if ast.unparse(n.test) in ("self._mode[0] == 'r'",)]
    if len(hd) != 1 or not hd[0].orelse:
        raise ValueError("SFile.open: `if self._mode[0] == 'r': .. else: ..` not found")
    first = ast.unparse(hd[0].body[0])
    if first != "self._hdr = self.read_header()":
        raise ValueError("SFile.open: the reading branch does not start with read_header()")
    return {"cond": cond, "fallback": MODES[m.group(1)]}


def _fn_mode(tree):
    wfn = [n for n in tree.body if isinstance(n, ast.FunctionDef) and n.name == "write"][0]
    for n in wfn.body:
        if isinstance(n, ast.If) and ast.unparse(n.test) == "append":
            a = [ast.unparse(x) for x in n.body]
            b = [ast.unparse(x) for x in n.orelse]
            ma = re.fullmatch(r"mode = '(r\+|w)'", a[0]) if len(a) == 1 else None
            mb = re.fullmatch(r"mode = '(r\+|w)'", b[0]) if len(b) == 1 else None
            if ma and mb:
                return MODES[ma.group(1)], MODES[mb.group(1)]
    raise ValueError("sfile.write(): `if append: mode = .. else: mode = ..` not found")


def _size_new(cls):
    us = _method(cls, "_update_size")
    sts = [ast.unparse(x) for x in us.body if not (isinstance(x, ast.Expr) and isinstance(x.value, ast.Constant))]
    if not sts or sts[0] != "size_current = self._size":
        raise ValueError("_update_size: does not start from self._size")
    asg = [x for x in us.body if isinstance(x, ast.Assign) and ast.unparse(x.targets[0]) == "size_new"]
    if len(asg) != 1:
        raise ValueError("_update_size: size_new not assigned exactly once")
    X = _Expr({"size_current": ("size_current", "Z"), "size_add": ("size_add", "Z")})
    term, ty = X.typed(asg[0].value)
    tail = sts[sts.index(ast.unparse(asg[0])) + 1:]
    if tail[:2] != ["self._robj.robj.update_row_count(size_new)", "self._size = size_new"]:
        raise ValueError("_update_size: the new size is not what is written and cached")
    return term


def _write_steps(cls):
    calls = [c for c in _calls_in_order(_method(cls, "write"))
             if c in ("self._ensure_open_for_writing", "self._ensure_compatible_dtype", "self._write_header", "self._robj.write")]
    tag = {"self._ensure_open_for_writing": "WEnsureOpen", "self._ensure_compatible_dtype": "WCompat",
           "self._write_header": "WHeader", "self._robj.write": "WRows"}
    return [tag[c] for c in calls]


def _strip(cls):
    mh = _method(cls, "_make_header")
    lst = None
    for n in ast.walk(mh):
        if isinstance(n, ast.Assign) and ast.unparse(n.targets[0]) == "reserved" and isinstance(n.value, (ast.List, ast.Tuple)):
            lst = [ast.literal_eval(e) for e in n.value.elts]
    src = ast.unparse(mh)
    if lst is None or "key.lower() in reserved" not in src or "del head[key]" not in src:
        raise ValueError("_make_header: case-insensitive strip of the reserved names not found")
    if "head['_DELIM'] = self._delim" not in src or "head['_DTYPE'] = descr" not in src or "head['_VERSION'] = SFILE_VERSION" not in src:
        raise ValueError("_make_header: assembly of _DELIM / _DTYPE / _VERSION not found")
    return lst


def _size_fmt(fmt):
    m = re.fullmatch(r"([^%]*)%(\d+)l*d(.*)", fmt, re.S)
    if not m:
        raise ValueError("update_row_count: format %r is not <text>%%<width>ld<text>" % fmt)
    return m.group(1), int(m.group(2)), m.group(3)


def _cb(b):
    return "[" + "; ".join("x%02x" % x for x in b) + "]" if b else "[]"


def generate(impl_root):
    """the text of Gen.v for the tree at impl_root"""
    k = extract(impl_root)
    src = open(os.path.join(impl_root, "esutil", "sfile.py")).read()
    tree = ast.parse(src)
    cls = [n for n in tree.body if isinstance(n, ast.ClassDef) and n.name == "SFile"][0]
    c = _compat(cls)
    om = _open_mode(cls)
    ma, mb = _fn_mode(tree)
    sz = _size_new(cls)
    steps = _write_steps(cls)
    strip = _strip(cls)
    pre, width, suf = _size_fmt(k["fmt"])
    field_bad = " || ".join(c["field_terms"]) if c["field_terms"] else "false"
    return """(* GENERATED by harness/props/c03_translate.py from esutil/sfile.py and esutil/recfile/records.cpp - do not edit by hand.
   The decisions of the anchored code, translated statement by statement (vocabulary: C03/GenLib.v). *)
From Coq Require Import ZArith List Bool.
From Coq.Strings Require Import Byte.
From EsVerif.Common Require Import Base Bytes.
From EsVerif.C01 Require Import Framing.
From EsVerif.C03 Require Import Model GenLib.
Import ListNotations.
Open Scope Z_scope.

(* sfile.write():  if append: mode = .. else: mode = .. *)
Definition gen_fn_mode (append : bool) : mode := if append then %s else %s.

(* SFile.open():  if <cond>: mode = <fall-back>; self._mode = mode *)
Definition gen_open_mode (m : mode) (file_exists : bool) : mode := if %s then %s else m.

(* SFile.open():  if self._mode[0] == "r": self._hdr = self.read_header() ... else: start from scratch *)
Definition gen_reads_header (m : mode) : bool := mode_first_is_r m.

(* SFile.write(): the calls, in order *)
Definition gen_write_steps : list wstep := [%s].

(* SFile._update_size():  size_current = self._size; size_new = <expr>; update_row_count(size_new); self._size = size_new *)
Definition gen_size_new (size_current size_add : Z) : Z := %s.

(* SFile._ensure_compatible_dtype(): binary branch, text branch (field count, then field by field), exception *)
Definition gen_bad_binary (fdt cdt : dtype) : bool := %s.
Definition gen_field_bad (d1 d2 : field) : bool :=
  let l1 := dlen d1 in let l2 := dlen d2 in %s.
Definition gen_bad_text (fdt cdt : dtype) : bool :=
  let nnames := nfields fdt in let ninput := nfields cdt in
  if %s then true else existsb2 gen_field_bad fdt cdt.
Definition gen_incompatible_error : err := %s.

(* SFile._make_header(): names removed from the user header (in any spelling: key.lower() in reserved) *)
Definition gen_stripped_names : list (list byte) := [%s].

(* Records::update_row_count():  fprintf(mFptr, "<prefix>%%<width>ld<suffix>", nrows) at offset 0 *)
Definition gen_size_prefix : list byte := %s.
Definition gen_size_width : nat := %d.
Definition gen_size_suffix : list byte := %s.
""" % (ma, mb, om["cond"], om["fallback"], "; ".join(steps), sz, c["bad_binary"], field_bad, c["count_test"], c["err"],
       "; ".join(_cb(x.encode()) for x in strip), _cb(pre.encode()), width, _cb(suf.encode()))

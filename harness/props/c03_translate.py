"""C03 — structural facts of the anchored source that the hand-written model relies on, extracted on
every run (python `ast` for sfile.py, regexes for records.cpp).  FAIL-CLOSED: anything that cannot be
found raises ValueError, which the check reports as a broken tie (no-failing-input-found).

Extracted (and compared with the model's constants / shape in C03.source_tie):
  * sfile.write():        append -> mode "r+", otherwise mode "w"
  * SFile.open():         the guard `mode == "r+" and not os.path.exists(...)` assigns the fallback mode to
                          BOTH the local and self._mode; the fallback constant
  * SFile.write():        order of the calls: _ensure_open_for_writing, _ensure_compatible_dtype,
                          _write_header, self._robj.write
  * _ensure_compatible_dtype(): the `raise` sits directly in the body of `if self._dtype is not None`
                          (so it covers the binary and the text branch)
  * _update_size():       size_new = size_current + size_add; update_row_count(size_new); self._size = size_new
  * records.cpp           update_row_count: rewind, the SIZE format, seek to the end;
                          Write: seek to the end BEFORE the rows, fflush AFTER them
"""
import ast
import os
import re


def _method(cls, name):
    for n in cls.body:
        if isinstance(n, ast.FunctionDef) and n.name == name:
            return n
    raise ValueError("sfile.py: SFile.%s not found" % name)


def _calls_in_order(fn):
    out = []
    for st in fn.body:
        for n in ast.walk(st):
            if isinstance(n, ast.Call) and isinstance(n.func, ast.Attribute):
                out.append(ast.unparse(n.func))
    return out


def extract(impl_root):
    src = open(os.path.join(impl_root, "esutil", "sfile.py")).read()
    tree = ast.parse(src)
    cls = [n for n in tree.body if isinstance(n, ast.ClassDef) and n.name == "SFile"]
    if not cls:
        raise ValueError("sfile.py: class SFile not found")
    cls = cls[0]
    k = {}

    # ---- sfile.write(): if append: mode = "r+" else: mode = "w"
    wfn = [n for n in tree.body if isinstance(n, ast.FunctionDef) and n.name == "write"]
    if not wfn:
        raise ValueError("sfile.py: function write not found")
    found = None
    for n in ast.walk(wfn[0]):
        if isinstance(n, ast.If) and isinstance(n.test, ast.Name) and n.test.id == "append":
            def const_assign(body):
                for st in body:
                    if isinstance(st, ast.Assign) and len(st.targets) == 1 and isinstance(st.targets[0], ast.Name) \
                            and st.targets[0].id == "mode" and isinstance(st.value, ast.Constant):
                        return st.value.value
                return None
            found = (const_assign(n.body), const_assign(n.orelse))
    if not found or None in found:
        raise ValueError("sfile.py: write(): `if append: mode = ... else: mode = ...` not found")
    k["append_mode"], k["create_mode"] = found

    # ---- SFile.open(): fallback for a missing path
    op = _method(cls, "open")
    fb = None
    for n in ast.walk(op):
        if isinstance(n, ast.If) and "os.path.exists" in ast.unparse(n.test) and '"r+"' in ast.unparse(n.test).replace("'", '"'):
            consts, sets_self = [], False
            for st in n.body:
                if isinstance(st, ast.Assign):
                    tg = [ast.unparse(t) for t in st.targets]
                    if isinstance(st.value, ast.Constant):
                        consts.append(st.value.value)
                    if "self._mode" in tg:
                        sets_self = True
            fb = (consts, sets_self)
    if fb is None or len(fb[0]) != 1:
        raise ValueError("sfile.py: SFile.open(): the fallback for mode 'r+' on a missing path not found")
    k["fallback_mode"], k["fallback_sets_self_mode"] = fb[0][0], fb[1]

    # ---- SFile.write(): order of the calls
    k["write_calls"] = [c for c in _calls_in_order(_method(cls, "write"))
                        if c in ("self._ensure_open_for_writing", "self._ensure_compatible_dtype", "self._write_header", "self._robj.write")]

    # ---- _ensure_compatible_dtype(): where the raise sits
    ec = _method(cls, "_ensure_compatible_dtype")
    outer = [n for n in ec.body if isinstance(n, ast.If) and "self._dtype is not None" in ast.unparse(n.test)]
    if len(outer) != 1:
        raise ValueError("sfile.py: _ensure_compatible_dtype(): `if self._dtype is not None` not found")
    direct = [st for st in outer[0].body if isinstance(st, ast.If) and ast.unparse(st.test) == "bad"
              and any(isinstance(x, ast.Raise) for x in st.body)]
    k["raise_covers_both"] = len(direct) == 1
    inner = [st for st in outer[0].body if isinstance(st, ast.If) and "self._delim is None" in ast.unparse(st.test)]
    if len(inner) != 1:
        raise ValueError("sfile.py: _ensure_compatible_dtype(): `if self._delim is None` not found")
    k["binary_test"] = [ast.unparse(st.test) for st in inner[0].body if isinstance(st, ast.If)]

    # ---- _update_size()
    us = ast.unparse(_method(cls, "_update_size"))
    k["update_size"] = [bool(re.search(r"size_new = size_current \+ size_add", us)),
                        bool(re.search(r"update_row_count\(size_new\)", us)),
                        bool(re.search(r"self\._size = size_new", us))]

    # ---- records.cpp
    cpp = open(os.path.join(impl_root, "esutil", "recfile", "records.cpp")).read()
    m = re.search(r"PyObject\*\s+Records::update_row_count\(long nrows\)\s*\{(.*?)\n\}", cpp, re.S)
    if not m:
        raise ValueError("records.cpp: update_row_count not found")
    body = m.group(1)
    fm = re.findall(r'fprintf\(\s*mFptr\s*,\s*"((?:[^"\\]|\\.)*)"\s*,\s*nrows\s*\)', body)
    if len(fm) != 1:
        raise ValueError("records.cpp: update_row_count: the fprintf of the SIZE line not found")
    k["fmt"] = fm[0].encode().decode("unicode_escape")
    k["pyfmt"] = re.sub(r"%(\d*)l+d", r"%\1d", k["fmt"])
    pos = [body.find("rewind"), body.find("fprintf"), body.find("SEEK_END")]
    k["update_order"] = all(p >= 0 for p in pos) and pos == sorted(pos)
    w = re.search(r"PyObject\*\s+Records::Write\(PyObject\* obj\)\s*\{(.*?)\n\}", cpp, re.S)
    if not w:
        raise ValueError("records.cpp: Write not found")
    wb = re.sub(r"//[^\n]*", "", w.group(1))
    pos = [wb.find("SEEK_END"), wb.find("WriteAllAsBinary"), wb.find("WriteRows"), wb.find("fflush(mFptr)")]
    k["write_order"] = all(p >= 0 for p in pos) and pos == sorted(pos)
    return k


# what Model.v assumes (each entry: description, predicate on the extracted facts)
EXPECTED = [
    ("sfile.write(): append=True opens with mode 'r+' (Model.step FnWrite true -> open_rp)", lambda k: k["append_mode"] == "r+"),
    ("sfile.write(): append=False opens with mode 'w' (Model.step FnWrite false -> open_w)", lambda k: k["create_mode"] == "w"),
    ("SFile.open(): mode 'r+' on a missing path falls back to mode 'w' (Model.open_rp, disk = None)", lambda k: k["fallback_mode"] == "w"),
    ("SFile.open(): the fallback is stored in self._mode", lambda k: k["fallback_sets_self_mode"] is True),
    ("SFile.write(): _ensure_open_for_writing, _ensure_compatible_dtype, _write_header, _robj.write in this order (Model.sf_write)",
     lambda k: k["write_calls"] == ["self._ensure_open_for_writing", "self._ensure_compatible_dtype", "self._write_header", "self._robj.write"]),
    ("_ensure_compatible_dtype(): `if bad: raise` covers the binary and the text branch (Model.compatible)", lambda k: k["raise_covers_both"]),
    ("_ensure_compatible_dtype(): binary test is `self._dtype != data.dtype` (Model.dtype_eqb)", lambda k: k["binary_test"] == ["self._dtype != data.dtype"]),
    ("_update_size(): size_new = size_current + size_add; update_row_count(size_new); self._size = size_new (Model.sf_write, h_size)",
     lambda k: all(k["update_size"])),
    ("records.cpp update_row_count: rewind, fprintf of the SIZE line, seek to the end (Model.overwrite at offset 0)", lambda k: k["update_order"]),
    ("records.cpp Write: seek to the end before the rows, fflush after them (Model.sf_write: f1 ++ payload, on disk when the call returns)",
     lambda k: k["write_order"]),
]

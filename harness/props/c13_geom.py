"""C13 helpers: independent long-double oracle for separations / bin quotients, position families,
the HTM mesh (to put positions on triangle vertices and edges)."""
import math

import numpy as np

LD = np.longdouble
assert np.finfo(LD).eps < 2e-19, "the C13 oracle needs an 80-bit long double"
PI = LD("3.141592653589793238462643383279502884")
D2R = PI / LD(180)
LN10 = np.log(LD(10))


def _cosd(x):
    """cos of an angle in degrees, without losing the co-latitude near the poles"""
    ax = np.abs(x)
    return np.where(ax > 45, np.sin((LD(90) - ax) * D2R), np.cos(x * D2R))


def sep_rad(ra1, dec1, ra2, dec2):
    """great-circle separation in radians (long double) between one position and arrays of
    positions, all in degrees; haversine with the differences taken exactly (the inputs are
    doubles; differences of nearby doubles are exact in long double)"""
    ra1 = LD(ra1)
    dec1 = LD(dec1)
    ra2 = np.asarray(ra2, dtype=LD)
    dec2 = np.asarray(dec2, dtype=LD)
    dra = ra1 - ra2
    dra = np.where(dra > 180, dra - 360, np.where(dra < -180, dra + 360, dra))
    h = np.sin((dec1 - dec2) * D2R / 2) ** 2 + _cosd(dec1) * _cosd(dec2) * np.sin(dra * D2R / 2) ** 2
    h = np.clip(h, LD(0), LD(1))
    return 2 * np.arctan2(np.sqrt(h), np.sqrt(1 - h))


def dcos(a, b):
    """cos(a) - cos(b) for angles in radians, without cancellation"""
    return -2 * np.sin((a + b) / 2) * np.sin((a - b) / 2)


def offset(ra, dec, dist, pa):
    """position at angular distance dist (deg) and position angle pa (deg) from (ra, dec); double
    arithmetic, used only to GENERATE inputs"""
    d = math.radians(dist)
    p = math.radians(pa)
    de = math.radians(dec)
    sd = math.sin(de) * math.cos(d) + math.cos(de) * math.sin(d) * math.cos(p)
    sd = max(-1.0, min(1.0, sd))
    dec2 = math.asin(sd)
    ra2 = math.radians(ra) + math.atan2(math.sin(p) * math.sin(d) * math.cos(de), math.cos(d) - math.sin(de) * sd)
    return math.degrees(ra2) % 360.0, max(-90.0, min(90.0, math.degrees(dec2)))


# ---- the mesh: vertices of the triangle with a given id (same subdivision rule as SpatialIndex) ----
_V = [(0.0, 0.0, 1.0), (1.0, 0.0, 0.0), (0.0, 1.0, 0.0), (-1.0, 0.0, 0.0), (0.0, -1.0, 0.0), (0.0, 0.0, -1.0)]
_ROOTS = {8: (1, 5, 2), 9: (2, 5, 3), 10: (3, 5, 4), 11: (4, 5, 1), 12: (1, 0, 4), 13: (4, 0, 3), 14: (3, 0, 2), 15: (2, 0, 1)}


def _mid(a, b):
    s = (a[0] + b[0], a[1] + b[1], a[2] + b[2])
    n = math.sqrt(s[0] * s[0] + s[1] * s[1] + s[2] * s[2])
    return (s[0] / n, s[1] / n, s[2] / n)


def triangle(id_):
    """the three vertices (unit vectors) of the triangle with this id"""
    digits = []
    while id_ >= 16:
        digits.append(id_ & 3)
        id_ >>= 2
    v0, v1, v2 = (_V[i] for i in _ROOTS[id_])
    for j in reversed(digits):
        w0, w1, w2 = _mid(v1, v2), _mid(v0, v2), _mid(v1, v0)
        if j == 0:
            v1, v2 = w2, w1
        elif j == 1:
            v0, v1, v2 = v1, w0, w2
        elif j == 2:
            v0, v1, v2 = v2, w1, w0
        else:
            v0, v1, v2 = w0, w1, w2
    return v0, v1, v2


def radec(v):
    dec = math.degrees(math.asin(max(-1.0, min(1.0, v[2]))))
    ra = math.degrees(math.atan2(v[1], v[0])) % 360.0
    return ra, dec


def mesh_point(rng, depth):
    """a vertex or an edge mid-point of a random triangle of the given depth (as ra, dec)"""
    id_ = rng.randrange(8, 16)
    for _ in range(depth):
        id_ = 4 * id_ + rng.randrange(4)
    vs = triangle(id_)
    k = rng.randrange(3)
    if rng.random() < 0.6:
        return radec(vs[k])
    return radec(_mid(vs[k], vs[(k + 1) % 3]))


SPECIAL = [(0.0, 0.0), (90.0, 0.0), (180.0, 0.0), (270.0, 0.0), (360.0, 0.0), (0.0, 90.0), (0.0, -90.0),
           (123.0, 90.0), (45.0, 0.0), (135.0, 0.0), (225.0, 0.0), (315.0, 0.0), (0.0, 45.0), (90.0, -45.0),
           (45.0, 35.264389682754654), (359.99999999999994, 0.0), (5e-324, 0.0), (180.0, 90.0), (270.0, -90.0),
           (-0.0, -0.0), (0.0, -0.0), (360.0, -0.0), (-0.0, 90.0), (180.0, -0.0), (-0.0, 45.0)]
TINY = [0.0, 1e-15, -1e-15, 1e-13, -1e-13, 1e-11, -1e-11, 1e-9, -1e-9, 1e-7, -1e-7, 1e-5, -1e-5]


def position(rng, family):
    """one (ra, dec) of the named family; every family of the property's quantifier is here"""
    if family == "uniform":
        return rng.uniform(0, 360), math.degrees(math.asin(rng.uniform(-1, 1)))
    if family == "pole":
        d = rng.choice([0.0, 1e-13, 1e-10, 1e-7, 1e-4, 0.01, 1.0]) * rng.choice([1, rng.random()])
        return rng.choice([0.0, 90.0, 180.0, 270.0, rng.uniform(0, 360)]), rng.choice([1, -1]) * (90.0 - d)
    if family == "octant":        # ra multiples of 90 and/or dec 0, with tiny offsets
        ra = rng.choice([0.0, 90.0, 180.0, 270.0, 360.0]) + rng.choice(TINY)
        dec = rng.choice([0.0, 0.0, rng.uniform(-90, 90)]) + rng.choice(TINY)
        if rng.random() < 0.3:
            ra = rng.uniform(0, 360)
            dec = rng.choice(TINY)
        return ra, max(-90.0, min(90.0, dec))
    if family == "seam":
        ra = rng.choice([0.0, 360.0, 359.99999999999994, 1e-14, 1e-9, 360 - 1e-9, 1e-5, 360 - 1e-5, 360.0 + 1e-9, -1e-9])
        return ra, math.degrees(math.asin(rng.uniform(-1, 1)))
    if family == "special":
        ra, dec = rng.choice(SPECIAL)
        return ra, dec
    if family == "mesh":
        ra, dec = mesh_point(rng, rng.randrange(0, 13))
        if rng.random() < 0.5:
            ra, dec = ra + rng.choice(TINY), max(-90.0, min(90.0, dec + rng.choice(TINY)))
        return ra, dec
    raise ValueError(family)


POS_FAMILIES = ["uniform", "pole", "octant", "seam", "special", "mesh"]


def ntri_estimate(depth, radius_deg):
    """rough number of triangles of the given depth that meet a circle"""
    r = math.radians(min(radius_deg, 180.0))
    edge = (math.pi / 2) / 2 ** depth
    return 8 * 4 ** depth * (1 - math.cos(r)) / 2 + 6 * (2 * math.pi * math.sin(min(r, math.pi / 2))) / edge + 6

"""C10 helper: the calls of ONE header made alone in a fresh python process, one fresh WCS object per call.
stdin: JSON {"header": {...}, "steps": [{"op", "arr", "pts", "distort", "find", "xtol"}...]}; stdout: JSON list of flat
float lists (or {"err": ...}).  Stand-alone on purpose (imports only numpy + esutil from PYTHONPATH)."""
import json
import sys
import warnings


def flat(v):
    import numpy as np
    if isinstance(v, (tuple, list)):
        out = []
        for e in v:
            out.extend(flat(e))
        return out
    return [float(t) for t in np.asarray(v, dtype="f8").ravel()]


def call(w, st):
    import numpy as np
    if st["arr"]:
        a = np.array([p[0] for p in st["pts"]], dtype="f8")
        b = np.array([p[1] for p in st["pts"]], dtype="f8")
    else:
        a, b = float(st["pts"][0][0]), float(st["pts"][0][1])
    if st["op"] == "i2s":
        return flat(w.image2sky(a, b, distort=st["distort"]))
    if st["op"] == "s2i":
        kw = {} if st.get("xtol") is None else {"xtol": st["xtol"]}
        return flat(w.sky2image(a, b, distort=st["distort"], find=st["find"], **kw))
    return flat(w.get_jacobian(a, b, distort=st["distort"], step=st.get("step", 1.0)))


def main():
    warnings.simplefilter("ignore")
    from esutil import wcsutil
    job = json.load(sys.stdin)
    out = []
    for st in job["steps"]:
        try:
            out.append(call(wcsutil.WCS(dict(job["header"])), st))
        except Exception as e:      # noqa
            out.append({"err": "%s: %s" % (type(e).__name__, str(e)[:200])})
    json.dump(out, sys.stdout)


if __name__ == "__main__":
    main()
